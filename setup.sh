#!/bin/bash
# Builds the framework offline from files on disk and warms the Go build cache.
set -e
cd "$(dirname "$0")"
export GOFLAGS=-mod=mod GOPROXY=off
mkdir -p .build evidence replays
(cd /repo && go build -tags verif ./... )
./vcheck build
