#!/usr/bin/env python3
"""Regenerates MANIFEST.json from checks.json (single source of truth for the registered checks)."""
import json, os
V = os.path.dirname(os.path.abspath(__file__))
checks = json.load(open(os.path.join(V, "checks.json")))
props = [json.loads(l)["id"] for l in open(os.path.join(V, "properties.jsonl"))]
na_path = os.path.join(V, "not_applicable.json")
na = json.load(open(na_path)) if os.path.exists(na_path) else {}
m = {
 "version": 1,
 "setup_cmd": "cd /verif && ./setup.sh",
 "hooks": {
  "guard": "verif",
  "enable": "go test -c -tags verif -overlay /verif/.build/main/overlay.json (done by /verif/vcheck for every check, from /repo's current working tree)",
  "baseline_off_cmd": "cd /repo && GOFLAGS=-mod=mod GOPROXY=off go test -json -vet=off -count=1 -timeout 25m ./...",
  "source_commits": json.load(open(os.path.join(V, "hook_commits.json"))),
  "add_only": True
 },
 "engines": [
  {"name": "vx", "path": "/verif/harness/vx", "serves_properties": sorted(k for k in checks if checks[k].get("ready")),
   "kind_free_text": "hand-written explorers over the real Go code: worker-pool with crash containment, explicit-state BFS with canonical-state dedup, deviation-bounded search, cooperative thread scheduler over hook points (testing/synctest quiescence), store-write crash-point enumeration, bounded-exhaustive input enumeration"}
 ],
 "checks": [],
 "not_applicable": [],
 "notes": "All checks: ./vcheck <ID> quick|thorough (cwd /verif). Known findings: /verif/known_findings.json. Design: /verif/DESIGN.md."
}
for cid in props:
    if cid in checks and checks[cid].get('ready'):
        c = checks[cid]
        m["checks"].append({
            "property_id": cid,
            "quick_cmd": "./vcheck %s quick" % cid,
            "thorough_cmd": "./vcheck %s thorough" % cid,
            "evidence_file": "/verif/evidence/%s.json" % cid,
            "replay_cmd_template": "./vcheck replay {path}",
            "engine": "vx",
            "level_claimed": {"category": c["level"], "text": c["text"], "design_ref": c.get("design_ref", "DESIGN.md §4 " + cid)},
            "level_note": c["note"],
            "technique": c["technique"],
        })
    else:
        m["not_applicable"].append({"property_id": cid, "reason": na.get(cid, "check not built yet (work in progress; planned in DESIGN.md §4 %s)" % cid)})
json.dump(m, open(os.path.join(V, "MANIFEST.json"), "w"), indent=1)
print("MANIFEST.json: %d checks, %d not_applicable" % (len(m["checks"]), len(m["not_applicable"])))
