#!/bin/bash
# Runs every registered check (quick by default) against /repo and prints one line per check.
cd /verif
tier=${1:-quick}
for c in $(python3 -c "import json;print(' '.join(k for k,v in json.load(open('checks.json')).items() if v.get('ready')))"); do
  s=$(date +%s)
  out=$(./vcheck $c $tier 2>&1); rc=$?
  e=$(date +%s)
  echo "$c rc=$rc $((e-s))s known=$(echo "$out" | grep -c '^KNOWN-FINDING') viol=$(echo "$out" | grep -c '^VIOLATION') $(echo "$out" | grep '^check ' | sed 's/^check [A-Z0-9]* tier=[a-z]*: //')"
done
