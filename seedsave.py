#!/usr/bin/env python3
"""seedsave.py <ID> <caught-by: 'C05:sig1|sig2,C16:sig'> <verify-log> [note]
Stores a confirmed seeded change under /verif/seeded/<ID>/ (patch.diff, the demonstration, meta.json)."""
import json, os, shutil, sys, glob
sid, caught, vlog = sys.argv[1], sys.argv[2], sys.argv[3]
note = sys.argv[4] if len(sys.argv) > 4 else ""
src = os.environ.get("MUTSRC") or "/tmp/mut/%s.out" % sid
dst = "/verif/seeded/%s" % (os.environ.get("SEEDNAME") or sid)
os.makedirs(dst, exist_ok=True)
shutil.copy(src + "/patch.diff", dst + "/patch.diff")
for f in glob.glob(src + "/demo*"):
    shutil.copy(f, dst + "/" + os.path.basename(f))
meta = json.load(open(src + "/meta.json"))
ver = [l.rstrip() for l in open(vlog) if l.startswith(("files:", "BUILD", "VET", "DEMO", "existing tests", "--- FAIL", "    --- FAIL", "FAIL"))]
out = {
    "property": meta.get("property", sid),
    "breaks": meta.get("summary") or meta.get("breaks"),
    "needs_in_order_to_manifest": meta.get("what_it_needs_to_manifest") or meta.get("needs_in_order_to_manifest"),
    "files_changed": meta.get("files_changed"),
    "demonstration": meta.get("demo"),
    "author": "independent sub-agent given only the property text and a scratch worktree of /repo (nothing from /verif)",
    "existing_tests_run_by_author": meta.get("existing_tests_run") or meta.get("existing_tests_run_by_author"),
    "confirmed_by_me": {
        "how": "seedverify.sh: fresh scratch worktree of /repo HEAD, patch applied, go build + go vet, existing tests of the touched packages and ./tm/tmengine/..., demonstration run with the change (must fail) and with the change reverted (must pass); worktree removed afterwards",
        "log": ver,
    },
    "checks": {},
    "note": note,
}
for item in caught.split(","):
    if not item:
        continue
    cid, _, sigs = item.partition(":")
    out["checks"][cid] = {"quick_reports_violation": sigs != "MISSED", "signatures": [] if sigs == "MISSED" else sigs.split("|")}
json.dump(out, open(dst + "/meta.json", "w"), indent=1)
print("saved", dst)
