#!/bin/bash
# usage: seedtest2.sh <patch.diff> <CHECK>...   like seedtest.sh but never touches /repo: the seeded change is applied to a
# scratch worktree of /repo HEAD and the quick checks are pointed at it with VERIF_REPO (usable while other checks run on /repo).
set -u
patch=$1; shift
cd /verif
wt=/tmp/st_$$
git -C /repo worktree add -q --detach $wt HEAD || exit 2
git -C $wt apply "$patch" || { git -C /repo worktree remove --force $wt; exit 2; }
out_dir=/tmp/seedtest_out_$$
mkdir -p $out_dir
for c in "$@"; do
  out=$(VERIF_REPO=$wt VERIF_OUT_DIR=$out_dir ./vcheck $c quick 2>&1)
  rc=$?
  nv=$(echo "$out" | grep -c "^VIOLATION property=$c")
  echo "$c rc=$rc violations=$nv $(echo "$out" | grep "^check " | sed 's/.*wall=/wall=/')"
  echo "$out" | grep "violation sig=" | head -5
done
git -C /repo worktree remove --force $wt
bd=/verif/.build/$(python3 -c "import hashlib,sys;print(hashlib.sha1(sys.argv[1].encode()).hexdigest()[:10])" $wt)
[ -d "$bd" ] && find "$bd" -delete
find /tmp -maxdepth 1 -name "seedtest_out_$$" -exec rm -r {} +
