//go:build verif

package c16

import (
	"encoding/json"
	"fmt"
	"os"
	"runtime/debug"
	"runtime/pprof"
	"testing"
	"time"

	"github.com/gordian-engine/gordian/internal/zzverif/vx"
)

var registry = vx.Registry{
	Pkg:    "c16",
	Execs:  map[string]vx.Executor{},
	Checks: map[string]func(*vx.Ctx){},
}

func TestVerif(t *testing.T) {
	// The executors allocate many short-lived values on a tiny live heap; collect less often
	// (measured: a large ballast is slower than this, the working set leaves the caches).
	debug.SetGCPercent(1600)
	// The free-running companion pass: this binary built with -race is started by
	// the "c16race" executor with C16_RACE_CHILD set. It never reaches vx.Main.
	if spec := os.Getenv(raceChildEnv); spec != "" {
		raceChildMain(spec)
		return
	}
	// Development aid: run one job in-process with a CPU profile (C16_BENCH=<job json>, C16_PROF=<file>).
	if js := os.Getenv("C16_BENCH"); js != "" {
		var job vx.Job
		if err := json.Unmarshal([]byte(js), &job); err != nil {
			t.Fatal(err)
		}
		if pf := os.Getenv("C16_PROF"); pf != "" {
			f, _ := os.Create(pf)
			_ = pprof.StartCPUProfile(f)
			defer pprof.StopCPUProfile()
		}
		t0 := time.Now()
		res := registry.Execs[job.Exec](t, job)
		fmt.Printf("bench: %s in %s counters=%v viol=%d herr=%q keys=%d\n", job.Exec, time.Since(t0), res.Counters, len(res.Viol), res.HarnessErr, len(res.Keys))
		for _, v := range res.Viol {
			fmt.Printf("  viol %s\n    %s\n", v.Sig, v.Msg)
		}
		return
	}
	vx.Main(t, registry)
}
