//go:build verif

package c16

import (
	"context"
	"encoding/json"
	"fmt"
	"sort"
	"strconv"
	"time"

	"github.com/gordian-engine/gordian/gcrypto"
	"github.com/gordian-engine/gordian/internal/zzverif/vx"
)

// C16 — in-memory stores linearizable, no-overwrite contracts honoured.
//
// Three parts, all on the real code (see seq.go, conc.go, race.go):
//  1. sequential, bounded exhaustive: all operation sequences of length <= 4 (thorough 5) per store
//     on the real tmmemstore against the reference models of models.go;
//  2. concurrent, all interleavings at lock/unlock points of 2-3 caller threads on the
//     sync-shimmed copy, every history checked for linearizability;
//  3. the same thread bodies free-running 200x under the race detector on the real tmmemstore.

func init() {
	registry.Checks["C16"] = checkC16
}

func args(kv ...string) map[string]string {
	m := map[string]string{}
	for i := 0; i+1 < len(kv); i += 2 {
		m[kv[i]] = kv[i+1]
	}
	return m
}

func checkC16(c *vx.Ctx) {
	c.Level = "model_checking"
	quick := c.Quick()
	softLimit := 125 * time.Second
	if !quick {
		softLimit = 13 * time.Minute
	}
	deadline := strconv.FormatInt(c.Start.Add(softLimit).Unix(), 10)

	// Families of thread bodies (see conc.go) with the number of shards (jobs) per store, chosen so that one
	// job stays well below the pool's per-job timeout. Each family is explored under the cooperative
	// scheduler (all schedules) and run free under the race detector (200 repetitions per scenario).
	type fam struct {
		name    string
		nshards int
	}
	// The largest families are limited to the stores with refusal rules or compound loads.
	bigFamilyStores := map[string]bool{"action": true, "round": true, "finalization": true, "validator": true}
	skip := func(family, store string) bool {
		return (family == "3x211p" || family == "3x222") && !bigFamilyStores[store]
	}
	concJobs := func(fams []fam) (out []vx.Job) {
		for _, f := range fams {
			for _, name := range kindOrder {
				if skip(f.name, name) {
					continue
				}
				n := f.nshards
				if tot := len(scenariosOf(kinds[name], f.name)); tot < n {
					n = tot
				}
				for s := 0; s < n; s++ {
					out = append(out, vx.Job{Exec: "c16conc", Args: args("store", name, "family", f.name,
						"shard", strconv.Itoa(s), "nshards", strconv.Itoa(n), "deadline", deadline)})
				}
			}
		}
		return
	}
	raceJobs := func(fams []fam) (out []vx.Job) {
		for _, f := range fams {
			for _, name := range kindOrder {
				if skip(f.name, name) {
					continue
				}
				n := f.nshards
				if tot := len(scenariosOf(kinds[name], f.name)); tot < n {
					n = tot
				}
				for s := 0; s < n; s++ {
					out = append(out, vx.Job{Exec: "c16race", Args: args("store", name, "family", f.name,
						"shard", strconv.Itoa(s), "nshards", strconv.Itoa(n), "reps", "200", "deadline", deadline)})
				}
			}
		}
		return
	}
	// Sequential: quick = core alphabet, length 4; thorough = full alphabet, length 4, and mini alphabet, length 5.
	// Shards by the first P operations, plus one job per store for the nodes of depth <= P.
	type seqPlan struct {
		alphabet string
		L, P     int
	}
	seqJobs := func(plans []seqPlan) (out []vx.Job) {
		for _, pl := range plans {
			for _, name := range kindOrder {
				kd := kinds[name]
				if pl.alphabet == "full" && kd.core == nil {
					continue // same alphabet, already covered by the longer run
				}
				out = append(out, vx.Job{Exec: "c16seq", Args: args("store", name, "alphabet", pl.alphabet, "prefix", "", "depth", strconv.Itoa(pl.P), "mincheck", "0", "prefixjob", "1", "deadline", deadline)})
				for _, pre := range seqsOf(kd.alpha(pl.alphabet), pl.P) {
					out = append(out, vx.Job{Exec: "c16seq", Args: args("store", name, "alphabet", pl.alphabet, "prefix", opsString(pre), "depth", strconv.Itoa(pl.L), "mincheck", strconv.Itoa(pl.P), "deadline", deadline)})
				}
			}
		}
		return
	}

	// Cheap, broad jobs first (every pair of methods of every store: race pass and all schedules), then the
	// sequential enumeration, then the larger concurrent families.
	var jobs []vx.Job
	var concFams, raceFams []fam
	var plans []seqPlan
	if quick {
		plans = []seqPlan{{"core", 4, 1}}
		concFams = []fam{{"2x1", 1}, {"3x1p", 4}, {"2x2p", 4}}
		raceFams = []fam{{"2x1", 2}, {"3x1p", 2}, {"2x2p", 8}}
		jobs = append(jobs, raceJobs(raceFams[:1])...)
		jobs = append(jobs, concJobs(concFams[:1])...)
		jobs = append(jobs, seqJobs(plans)...)
		jobs = append(jobs, concJobs(concFams[1:])...)
		jobs = append(jobs, raceJobs(raceFams[1:])...)
	} else {
		plans = []seqPlan{{"full", 4, 1}, {"mini", 5, 2}}
		concFams = []fam{{"2x1", 1}, {"3x1", 8}, {"2x2", 12}, {"3x211p", 40}}
		raceFams = []fam{{"2x1", 2}, {"3x1", 6}, {"2x2", 48}, {"3x211p", 8}, {"3x222", 1}}
		jobs = append(jobs, raceJobs(raceFams[:1])...)
		jobs = append(jobs, concJobs(concFams[:1])...)
		jobs = append(jobs, seqJobs(plans[:1])...)
		jobs = append(jobs, concJobs(concFams[1:3])...)
		jobs = append(jobs, raceJobs(raceFams[1:])...)
		jobs = append(jobs, seqJobs(plans[1:])...)
		jobs = append(jobs, concJobs(concFams[3:])...)
		// Three threads with two ops each: one scenario is 10^5..10^6 schedules; split by schedule prefix.
		const npshards = 24
		for _, name := range kindOrder {
			for _, th := range picked222[name] {
				for ps := 0; ps < npshards; ps++ {
					jobs = append(jobs, vx.Job{Exec: "c16conc", Args: args("store", name, "family", "3x222", "threads", th,
						"pshard", strconv.Itoa(ps), "npshards", strconv.Itoa(npshards), "pdepth", "5", "deadline", deadline)})
				}
			}
		}
	}

	rs := c.Pool.Map(jobs)

	states := map[string]map[string]struct{}{}
	var seqSample, concSample any
	raceSummary := map[string]int64{}
	maxPoints := 0
	for i, r := range rs {
		job := jobs[i]
		var obs struct {
			Sample    map[string]any    `json:"sample"`
			Viol      map[string]string `json:"viol"`
			MaxPoints int               `json:"max_points"`
		}
		if len(r.Obs) > 0 {
			_ = json.Unmarshal(r.Obs, &obs)
		}
		if obs.MaxPoints > maxPoints {
			maxPoints = obs.MaxPoints
		}
		// A violating execution is recorded with the job that replays exactly it.
		if len(r.Viol) > 0 && obs.Viol != nil && job.Exec == "c16conc" {
			job = vx.Job{Exec: "c16conc", Args: args("store", obs.Viol["store"], "threads", obs.Viol["threads"], "schedule", obs.Viol["schedule"])}
		}
		c.Absorb(job, r)
		switch job.Exec {
		case "c16seq":
			st := job.Args["store"]
			if states[st] == nil {
				states[st] = map[string]struct{}{}
			}
			for _, k := range r.Keys {
				states[st][k] = struct{}{}
			}
			if seqSample == nil && obs.Sample != nil {
				seqSample = obs.Sample
			}
		case "c16conc":
			if concSample == nil && obs.Sample != nil {
				concSample = obs.Sample
			}
		case "c16race":
			raceSummary[job.Args["store"]] += r.Counters["race_free_runs"]
		}
	}

	perStore := map[string]int{}
	var nStates int64
	for st, m := range states {
		perStore[st] = len(m)
		nStates += int64(len(m))
	}
	c.States = nStates
	c.Transitions = c.Counter("seq_nodes") + c.Counter("conc_schedule_steps")
	c.Extra["jobs"] = len(jobs)
	c.Traces = c.Counter("seq_sequences") + c.Counter("conc_executions")
	c.Evaluations = c.Counter("seq_sequences") + c.Counter("conc_executions") + c.Counter("race_free_runs")
	c.Extra["distinct_store_states_per_store"] = perStore
	c.Extra["sequential"] = map[string]any{
		"plans (alphabet, sequence length, shard prefix length)": fmt.Sprint(plans),
		"sequences":             c.Counter("seq_sequences"),
		"operations_checked":    c.Counter("seq_nodes"),
		"operations_executed":   c.Counter("seq_impl_ops"),
		"alphabet_sizes_full":  alphabetSizes("full"),
		"alphabet_sizes_core":  alphabetSizes("core"),
		"alphabet_sizes_mini":  alphabetSizes("mini"),
	}
	c.Extra["concurrent"] = map[string]any{
		"families":                       famNames(concFams, !quick),
		"scenarios":                      c.Counter("conc_scenarios"),
		"scenarios_with_overlapping_ops": c.Counter("conc_scenarios_with_overlap"),
		"schedules":                      c.Counter("conc_executions"),
		"schedule_steps":                 c.Counter("conc_schedule_steps"),
		"distinct_histories":             c.Counter("conc_distinct_histories"),
		"distinct_overlapping_histories": c.Counter("conc_distinct_overlapping_histories"),
		"longest_schedule":               maxPoints,
		"preemption_bound":               "none (all interleavings)",
	}
	c.Extra["race_pass"] = map[string]any{
		"families":          famNames(raceFams, false),
		"scenarios":         c.Counter("race_scenarios"),
		"free_runs":         c.Counter("race_free_runs"),
		"free_runs_by_store": raceSummary,
		"data_race_reports": c.Counter("race_reports"),
		"repetitions":       200,
	}
	if n := c.Counter("incomplete_jobs"); n > 0 {
		c.Cap(fmt.Sprintf("soft time limit (%s per run, 100 s per job) reached: %d of %d jobs stopped before finishing their enumeration", softLimit, n, len(jobs)))
	}
	if c.Pool.Timeouts > 0 {
		c.Cap(fmt.Sprintf("%d jobs hit the pool's per-job timeout", c.Pool.Timeouts))
	}
	if seqSample != nil {
		c.Sample(seqSample)
	}
	if concSample != nil {
		c.Sample(concSample)
	}
	c.Sample(map[string]any{"part": "race pass", "example_job": args("store", "action", "family", "2x1", "reps", "200"), "example_threads": scenariosOf(kinds["action"], "2x1")[9].String(), "free_runs_total": c.Counter("race_free_runs"), "data_race_reports": c.Counter("race_reports")})

	c.Rule = "Part 1: every operation sequence of the stated length over each store's alphabet (value universe with forced key collisions: 3 height/round slots, 2 block hashes identical across heights, 3 keys, 2 validator sets, 3 signature collections) is run on a fresh real tmmemstore store and every return value is compared with a plain-Go reference model; a case is one shard (all sequences with a given first operation(s)), non-trivial when it saw a refusal error, a successful load of stored data and >= 2 distinct store states. " +
		"Part 2: for every scenario of the listed families over each store's collision alphabet ALL schedules at thread start/Lock/RLock/Unlock/RUnlock points are enumerated on the sync-shimmed copy and each history is checked for linearizability by brute force; a case is one shard of scenarios, non-trivial when it produced at least one history in which operations of different threads overlap in real time. " +
		"Part 3: the same thread bodies run free 200x under -race on the real tmmemstore; a case is one shard of scenarios, non-trivial when for some scenario the free runs produced at least two different output vectors (the threads really interleaved in more than one way). " +
		"evaluations = sequences + schedules + free runs; states = distinct canonical store states (rendering of loading every key of the real store after a sequence), summed over stores; transitions = sequential operations checked + schedule steps."
	c.Assume("heights >= 1, non-empty signatures, non-nil public keys (the stores use the zero values as 'absent' markers)")
	c.Assume("in the sequence and interleaving explorations callers do not modify values after passing them to a store or after receiving them from it (nil and empty slices/maps are treated alike); what happens when they do is checked separately for the validator store (Part 4)")
	c.Assume("where the interface comments are silent (same proposer with another hash, replayed header saved twice or before a proposed header of the same hash, both refusal reasons applying at once) every plausible behaviour is accepted")
	c.Assume("scheduling points only at mutex operations is sound because unsynchronised accesses are caught by the -race companion pass; the Go race detector and testing/synctest are trusted")
	// Part 4: the validator store must return for a hash what hashes to it, whatever the caller does with the slices it
	// passed in or got back.
	al := aliasingProbe()
	c.Extra["aliasing_observations"] = al
	for _, k := range []struct{ key, sig, msg string }{
		{"SavePubKeys keeps the caller's slice (later caller writes change LoadPubKeys)", "alias:SavePubKeys-keeps-callers-slice", "SavePubKeys([k0,k1]) -> H; the caller then writes keys[0]=k2; LoadPubKeys(H) returns [k2,k1], which does not hash to H"},
		{"SaveVotePowers keeps the caller's slice", "alias:SaveVotePowers-keeps-callers-slice", "SaveVotePowers([1,2]) -> H; the caller then writes pows[0]=9; LoadVotePowers(H) returns [9,2], which does not hash to H"},
		{"LoadPubKeys returns the store's own slice (caller writes change later loads)", "alias:LoadPubKeys-returns-own-slice", "LoadPubKeys(H) hands out the store's own slice: a caller write to it changes what every later LoadPubKeys(H) returns"},
		{"LoadVotePowers returns the store's own slice (caller writes change later loads)", "alias:LoadVotePowers-returns-own-slice", "LoadVotePowers(H) hands out the store's own slice: a caller write to it changes what every later LoadVotePowers(H) returns"},
	} {
		if al[k.key] {
			c.Violate(vx.Violation{Prop: "C16", Sig: k.sig, Msg: k.msg}, vx.Job{})
		}
	}
	c.Extra["explanation"] = "exhaustive:true refers to the stated bounds (sequence length, scenario families, value universe), not to all histories"
}

// aliasingProbe reports whether the real validator store shares memory with its callers: a caller that
// modifies a slice after saving it, or a slice it got from a load, would change what the store returns for
// a hash.
func aliasingProbe() map[string]bool {
	out := map[string]bool{}
	ctx := context.Background()
	differs := func(a, b any) bool { return canonFull(a) != canonFull(b) }
	{
		st := realFactory.validator(harnessHashScheme{})
		keys := []gcrypto.PubKey{uPK[0], uPK[1]}
		h, _ := st.SavePubKeys(ctx, keys)
		keys[0] = uPK[2]
		got, _ := st.LoadPubKeys(ctx, h)
		out["SavePubKeys keeps the caller's slice (later caller writes change LoadPubKeys)"] = differs(got, []gcrypto.PubKey{uPK[0], uPK[1]})
	}
	{
		st := realFactory.validator(harnessHashScheme{})
		h, _ := st.SavePubKeys(ctx, []gcrypto.PubKey{uPK[0], uPK[1]})
		got, _ := st.LoadPubKeys(ctx, h)
		got[0] = uPK[2]
		again, _ := st.LoadPubKeys(ctx, h)
		out["LoadPubKeys returns the store's own slice (caller writes change later loads)"] = differs(again, []gcrypto.PubKey{uPK[0], uPK[1]})
	}
	{
		st := realFactory.validator(harnessHashScheme{})
		pows := []uint64{1, 2}
		h, _ := st.SaveVotePowers(ctx, pows)
		pows[0] = 9
		got, _ := st.LoadVotePowers(ctx, h)
		out["SaveVotePowers keeps the caller's slice"] = differs(got, []uint64{1, 2})
	}
	{
		st := realFactory.validator(harnessHashScheme{})
		h, _ := st.SaveVotePowers(ctx, []uint64{1, 2})
		got, _ := st.LoadVotePowers(ctx, h)
		got[0] = 9
		again, _ := st.LoadVotePowers(ctx, h)
		out["LoadVotePowers returns the store's own slice (caller writes change later loads)"] = differs(again, []uint64{1, 2})
	}
	return out
}

func alphabetSizes(which string) map[string]int {
	m := map[string]int{}
	for n, k := range kinds {
		m[n] = len(k.alpha(which))
	}
	return m
}

func famNames[T any](fs []T, with222 bool) []string {
	var out []string
	for _, f := range fs {
		out = append(out, fmt.Sprint(f))
	}
	if with222 {
		out = append(out, "3x222 (picked)")
	}
	sort.Strings(out)
	return out
}
