//go:build verif

package c16

import (
	"crypto/sha256"
	"encoding/binary"
	"encoding/hex"
	"errors"
	"fmt"
	"reflect"
	"sort"
	"strconv"
	"strings"

	"github.com/gordian-engine/gordian/gcrypto"
	"github.com/gordian-engine/gordian/tm/tmconsensus"
	"github.com/gordian-engine/gordian/tm/tmstore"
)

// ---------------------------------------------------------------------------
// The value universe. Every operation argument is one of these values, chosen
// so that keys collide: 3 height/round slots (two rounds of one height, one
// round of another height), 2 block hashes that are THE SAME BYTES at both
// heights, 3 public keys, 2 validator sets, 3 signature collections.
// All values are read-only after init; universeDigest() detects mutation.
// ---------------------------------------------------------------------------

type hrT struct {
	H uint64
	R uint32
}

var (
	uHR      = [3]hrT{{1, 0}, {1, 1}, {2, 0}}
	uHeights = [3]uint64{1, 2, 3}
	uHash    = [2][]byte{[]byte("hashA-\x00\xff"), []byte("hashB-\x01\xfe")}
	uPK      [3]gcrypto.PubKey
	uValSet  [2]tmconsensus.ValidatorSet
	uColl    [3]tmconsensus.SparseSignatureCollection
	uKeySets [3][]gcrypto.PubKey
	uPowSets [3][]uint64
	// Hashes used by the validator store loads: the three real ones plus one unknown.
	uKeyHashes [4]string
	uPowHashes [4]string
)

// The universe is built during package variable initialization, i.e. before every init()
// of the package (the models' init functions use it).
var universeAtInit = initUniverse()

func initUniverse() string {
	for i := range uPK {
		b := make([]byte, 32)
		for j := range b {
			b[j] = byte(0x10*(i+1) + j)
		}
		pk, err := gcrypto.NewEd25519PubKey(b)
		if err != nil {
			panic(err)
		}
		uPK[i] = pk
	}
	uValSet[0] = tmconsensus.ValidatorSet{
		Validators:    []tmconsensus.Validator{{PubKey: uPK[0], Power: 10}, {PubKey: uPK[1], Power: 20}},
		PubKeys:       []gcrypto.PubKey{uPK[0], uPK[1]},
		PubKeyHash:    []byte("vs0-pubkeyhash"),
		VotePowerHash: []byte("vs0-powhash"),
	}
	uValSet[1] = tmconsensus.ValidatorSet{
		Validators:    []tmconsensus.Validator{{PubKey: uPK[1], Power: 7}, {PubKey: uPK[2], Power: 7}, {PubKey: uPK[0], Power: 1}},
		PubKeys:       []gcrypto.PubKey{uPK[1], uPK[2], uPK[0]},
		PubKeyHash:    []byte("vs1-pubkeyhash"),
		VotePowerHash: []byte("vs1-powhash"),
	}
	uColl[0] = tmconsensus.SparseSignatureCollection{
		PubKeyHash: []byte("vs0-pubkeyhash"),
		BlockSignatures: map[string][]gcrypto.SparseSignature{
			string(uHash[0]): {{KeyID: []byte{0}, Sig: []byte("c0-sig-val0")}},
			"":               {{KeyID: []byte{1}, Sig: []byte("c0-sig-val1")}},
		},
	}
	uColl[1] = tmconsensus.SparseSignatureCollection{
		PubKeyHash: []byte("vs0-pubkeyhash"),
		BlockSignatures: map[string][]gcrypto.SparseSignature{
			string(uHash[1]): {{KeyID: []byte{0}, Sig: []byte("c1-sig-val0")}, {KeyID: []byte{1}, Sig: []byte("c1-sig-val1")}},
		},
	}
	uColl[2] = tmconsensus.SparseSignatureCollection{} // the zero collection: no votes at all

	uKeySets[0] = []gcrypto.PubKey{uPK[0], uPK[1]}
	uKeySets[1] = []gcrypto.PubKey{uPK[1], uPK[0]} // same members, other order
	uKeySets[2] = []gcrypto.PubKey{uPK[0], uPK[1], uPK[2]}
	uPowSets[0] = []uint64{1, 2}
	uPowSets[1] = []uint64{2, 1}
	uPowSets[2] = []uint64{1, 2, 3}
	hs := harnessHashScheme{}
	for i := range uKeySets {
		h, _ := hs.PubKeys(uKeySets[i])
		uKeyHashes[i] = string(h)
		p, _ := hs.VotePowers(uPowSets[i])
		uPowHashes[i] = string(p)
	}
	uKeyHashes[3] = "no-such-key-hash"
	uPowHashes[3] = "no-such-pow-hash"
	return universeDigest()
}

func universeDigest() string {
	var sb strings.Builder
	sb.WriteString(canon(uValSet))
	sb.WriteString(canon(uColl))
	sb.WriteString(canon(uKeySets))
	sb.WriteString(canon(uPowSets))
	sb.WriteString(canon(uHash))
	for k := range uHR {
		for hi := range uHash {
			for pi := range uPK {
				sb.WriteString(canon(mkPH(k, hi, pi)))
			}
		}
	}
	for hx := 0; hx < 2; hx++ {
		for a := 0; a < 2; a++ {
			for b := 0; b < 2; b++ {
				sb.WriteString(canon(mkCommitted(hx, a, b)))
			}
		}
	}
	return shortHash(sb.String())
}

func shortHash(s string) string {
	h := sha256.Sum256([]byte(s))
	return hex.EncodeToString(h[:8])
}

// harnessHashScheme is the harness's own hash scheme handed to the validator store,
// so that "the keys that hash to it" is recomputed independently of gordian's schemes.
type harnessHashScheme struct{}

func (harnessHashScheme) Block(tmconsensus.Header) ([]byte, error) {
	return nil, errors.New("harnessHashScheme.Block: not used by the stores")
}

func (harnessHashScheme) PubKeys(keys []gcrypto.PubKey) ([]byte, error) {
	h := sha256.New()
	h.Write([]byte("K"))
	for _, k := range keys {
		b := k.PubKeyBytes()
		var l [4]byte
		binary.BigEndian.PutUint32(l[:], uint32(len(b)))
		h.Write(l[:])
		h.Write(b)
	}
	return h.Sum(nil)[:12], nil
}

func (harnessHashScheme) VotePowers(pows []uint64) ([]byte, error) {
	h := sha256.New()
	h.Write([]byte("P"))
	for _, p := range pows {
		var l [8]byte
		binary.BigEndian.PutUint64(l[:], p)
		h.Write(l[:])
	}
	return h.Sum(nil)[:12], nil
}

// headerCache: headers are built once; the content depends on height and hash index only,
// so that "same hash at the same height" always means "same header".
var headerCache [3][2]tmconsensus.Header
var headerBuilt [3][2]bool

func mkHeader(hx, hi int) tmconsensus.Header {
	if headerBuilt[hx][hi] {
		return headerCache[hx][hi]
	}
	h := tmconsensus.Header{
		Hash:             uHash[hi],
		PrevBlockHash:    []byte(fmt.Sprintf("prev-of-%d-%d", uHeights[hx], hi)),
		Height:           uHeights[hx],
		ValidatorSet:     uValSet[hi],
		NextValidatorSet: uValSet[1-hi],
		DataID:           []byte(fmt.Sprintf("data-%d-%d", uHeights[hx], hi)),
		PrevAppStateHash: []byte(fmt.Sprintf("appstate-%d", uHeights[hx]-1)),
		Annotations:      tmconsensus.Annotations{User: []byte(fmt.Sprintf("u%d", hi)), Driver: []byte(fmt.Sprintf("d%d", hx))},
	}
	if uHeights[hx] > 1 {
		h.PrevCommitProof = tmconsensus.CommitProof{
			Round:      uint32(hi),
			PubKeyHash: "vs0-pubkeyhash",
			Proofs: map[string][]gcrypto.SparseSignature{
				string(uHash[1-hi]): {{KeyID: []byte{0}, Sig: []byte(fmt.Sprintf("pc-%d-%d", hx, hi))}},
			},
		}
	}
	headerCache[hx][hi] = h
	headerBuilt[hx][hi] = true
	return h
}

func heightIdx(h uint64) int {
	for i, x := range uHeights {
		if x == h {
			return i
		}
	}
	panic("height not in universe")
}

var phCache [3][2][3]*tmconsensus.ProposedHeader

// mkPH: proposed header for slot k, block hash hi, proposer pi.
func mkPH(k, hi, pi int) tmconsensus.ProposedHeader {
	if p := phCache[k][hi][pi]; p != nil {
		return *p
	}
	ph := tmconsensus.ProposedHeader{
		Header:         mkHeader(heightIdx(uHR[k].H), hi),
		Round:          uHR[k].R,
		ProposerPubKey: uPK[pi],
		Annotations:    tmconsensus.Annotations{User: []byte(fmt.Sprintf("ph-user-%d", pi))},
		Signature:      []byte(fmt.Sprintf("ph-sig-%d-%d-%d", k, hi, pi)),
	}
	phCache[k][hi][pi] = &ph
	return ph
}

// Vote targets: ti 0 = hashA, ti 1 = nil vote (empty block hash).
func voteTarget(k, ti int) tmconsensus.VoteTarget {
	vt := tmconsensus.VoteTarget{Height: uHR[k].H, Round: uHR[k].R}
	if ti == 0 {
		vt.BlockHash = string(uHash[0])
	}
	return vt
}

func voteSig(kind string, k, ki, ti int) []byte {
	return []byte(fmt.Sprintf("%s-sig-slot%d-key%d-target%d", kind, k, ki, ti))
}

func mkCommitted(hx, hv, pv int) tmconsensus.CommittedHeader {
	return tmconsensus.CommittedHeader{
		Header: mkHeader(hx, hv),
		Proof: tmconsensus.CommitProof{
			Round:      uint32(pv),
			PubKeyHash: "vs0-pubkeyhash",
			Proofs: map[string][]gcrypto.SparseSignature{
				string(uHash[hv]): {{KeyID: []byte{byte(pv)}, Sig: []byte(fmt.Sprintf("commit-%d-%d-%d", hx, hv, pv))}},
			},
		},
	}
}

// ---------------------------------------------------------------------------
// Canonical rendering of arbitrary values: deterministic, all fields, maps
// order-independent, nil and empty slices/maps alike (weaker reading of
// "exactly what was stored"), public keys by type name and bytes.
//
// Two modes share one walker. Verbose mode produces the full text (messages,
// samples). Fast mode (the default during exploration) produces a 96-bit
// digest "#…" of the same token stream without building the text; on a
// mismatch the execution is repeated in verbose mode for the message.
// Errors are always rendered in full (canonErr).
// ---------------------------------------------------------------------------

// verbose selects the rendering mode of canon. It is only changed while no other goroutine renders.
var verbose bool

func modeIdx() int {
	if verbose {
		return 1
	}
	return 0
}

var pubKeyType = reflect.TypeOf((*gcrypto.PubKey)(nil)).Elem()

type wr struct {
	verbose bool
	sb      strings.Builder
	h1, h2  uint64
}

func newWr(verbose bool) wr {
	return wr{verbose: verbose, h1: 14695981039346656037, h2: 0x9e3779b97f4a7c15}
}

func (w *wr) mix(b byte) {
	w.h1 = (w.h1 ^ uint64(b)) * 1099511628211
	w.h2 = (w.h2^uint64(b))*0xff51afd7ed558ccd + 0x2545f4914f6cdd1d
}

func (w *wr) mix64(x uint64) {
	for i := 0; i < 8; i++ {
		w.mix(byte(x >> (8 * uint(i))))
	}
}

// tok writes a structural token (field name, bracket).
func (w *wr) tok(s string) {
	if w.verbose {
		w.sb.WriteString(s)
		return
	}
	for i := 0; i < len(s); i++ {
		w.mix(s[i])
	}
}

func (w *wr) bytes(b []byte) {
	if w.verbose {
		w.sb.WriteString("x'")
		w.sb.WriteString(hex.EncodeToString(b))
		w.sb.WriteByte('\'')
		return
	}
	w.mix('x')
	w.mix64(uint64(len(b)))
	for _, c := range b {
		w.mix(c)
	}
}

func (w *wr) str(s string) {
	if w.verbose {
		w.sb.WriteString(strconv.Quote(s))
		return
	}
	w.mix('"')
	w.mix64(uint64(len(s)))
	for i := 0; i < len(s); i++ {
		w.mix(s[i])
	}
}

func (w *wr) num(tag byte, x uint64) {
	if w.verbose {
		if tag == 'i' {
			w.sb.WriteString(strconv.FormatInt(int64(x), 10))
		} else {
			w.sb.WriteString(strconv.FormatUint(x, 10))
		}
		return
	}
	w.mix(tag)
	w.mix64(x)
}

func (w *wr) result() string {
	if w.verbose {
		return w.sb.String()
	}
	var buf [26]byte
	b := append(buf[:0], '#')
	const hexd = "0123456789abcdef"
	for i := 15; i >= 0; i-- {
		b = append(b, hexd[(w.h1>>(4*uint(i)))&15])
	}
	for i := 15; i >= 8; i-- {
		b = append(b, hexd[(w.h2>>(4*uint(i)))&15])
	}
	return string(b)
}

// canon renders v in the current mode.
func canon(v any) string {
	w := newWr(verbose)
	canonValue(&w, reflect.ValueOf(v))
	return w.result()
}

// canonFull renders v as text whatever the mode.
func canonFull(v any) string {
	w := newWr(true)
	canonValue(&w, reflect.ValueOf(v))
	return w.result()
}

func canonValue(w *wr, v reflect.Value) {
	if !v.IsValid() {
		w.tok("nil")
		return
	}
	if v.Type().Implements(pubKeyType) && v.CanInterface() {
		if (v.Kind() == reflect.Interface || v.Kind() == reflect.Ptr) && v.IsNil() {
			w.tok("pk(nil)")
			return
		}
		pk := v.Interface().(gcrypto.PubKey)
		w.tok("pk(")
		w.tok(pk.TypeName())
		w.tok(":")
		w.bytes(pk.PubKeyBytes())
		w.tok(")")
		return
	}
	switch v.Kind() {
	case reflect.Interface, reflect.Ptr:
		if v.IsNil() {
			w.tok("nil")
			return
		}
		canonValue(w, v.Elem())
	case reflect.Slice, reflect.Array:
		if v.Type().Elem().Kind() == reflect.Uint8 {
			if v.Kind() == reflect.Slice {
				w.bytes(v.Bytes())
			} else {
				b := make([]byte, v.Len())
				for i := range b {
					b[i] = byte(v.Index(i).Uint())
				}
				w.bytes(b)
			}
			return
		}
		w.tok("[")
		for i := 0; i < v.Len(); i++ {
			if i > 0 {
				w.tok(",")
			}
			canonValue(w, v.Index(i))
		}
		w.tok("]")
	case reflect.Map:
		if !w.verbose {
			// order-independent: sum of the entry digests
			var a1, a2 uint64
			it := v.MapRange()
			for it.Next() {
				e := newWr(false)
				canonValue(&e, it.Key())
				e.tok("=>")
				canonValue(&e, it.Value())
				a1 += e.h1
				a2 += e.h2*31 + 7
			}
			w.tok("map{")
			w.mix64(a1)
			w.mix64(a2)
			w.tok("}")
			return
		}
		type kv struct{ k, v string }
		kvs := make([]kv, 0, v.Len())
		it := v.MapRange()
		for it.Next() {
			kw, vw := newWr(true), newWr(true)
			canonValue(&kw, it.Key())
			canonValue(&vw, it.Value())
			kvs = append(kvs, kv{kw.result(), vw.result()})
		}
		sort.Slice(kvs, func(i, j int) bool { return kvs[i].k < kvs[j].k })
		w.tok("map{")
		for i, e := range kvs {
			if i > 0 {
				w.tok(",")
			}
			w.tok(e.k)
			w.tok("=>")
			w.tok(e.v)
		}
		w.tok("}")
	case reflect.Struct:
		w.tok("{")
		t := v.Type()
		for i := 0; i < v.NumField(); i++ {
			if i > 0 {
				w.tok(" ")
			}
			w.tok(t.Field(i).Name)
			w.tok(":")
			canonValue(w, v.Field(i))
		}
		w.tok("}")
	case reflect.String:
		w.str(v.String())
	case reflect.Bool:
		if v.Bool() {
			w.tok("true")
		} else {
			w.tok("false")
		}
	case reflect.Int, reflect.Int8, reflect.Int16, reflect.Int32, reflect.Int64:
		w.num('i', uint64(v.Int()))
	case reflect.Uint, reflect.Uint8, reflect.Uint16, reflect.Uint32, reflect.Uint64, reflect.Uintptr:
		w.num('u', v.Uint())
	default:
		w.tok("<" + v.Kind().String() + ">")
	}
}

// canonErr renders an error by dynamic type and all fields; joined errors as a sorted set.
func canonErr(err error) string {
	if err == nil {
		return "nil"
	}
	if err == tmstore.ErrStoreUninitialized {
		return "tmstore.ErrStoreUninitialized"
	}
	if j, ok := err.(interface{ Unwrap() []error }); ok {
		var parts []string
		for _, e := range j.Unwrap() {
			parts = append(parts, canonErr(e))
		}
		sort.Strings(parts)
		if len(parts) == 1 {
			return parts[0]
		}
		return "join[" + strings.Join(parts, " & ") + "]"
	}
	t := reflect.TypeOf(err)
	if t.Kind() == reflect.Struct {
		return t.String() + canonFull(err)
	}
	return t.String() + "(" + strconv.Quote(err.Error()) + ")"
}

// errClass is the short class of an output used in violation signatures.
func outClass(out string) string {
	i := strings.LastIndex(out, "err=")
	if i < 0 {
		return "?"
	}
	e := out[i+4:]
	if e == "nil" {
		return "ok"
	}
	if j := strings.IndexAny(e, "{(["); j >= 0 {
		e = e[:j]
	}
	return e
}
