//go:build verif

package c16

import (
	"context"
	"fmt"
	"sort"
	"strconv"
	"strings"

	"github.com/gordian-engine/gordian/gcrypto"
	"github.com/gordian-engine/gordian/internal/zzverif/zzshimstore"
	"github.com/gordian-engine/gordian/tm/tmconsensus"
	"github.com/gordian-engine/gordian/tm/tmstore"
	"github.com/gordian-engine/gordian/tm/tmstore/tmmemstore"
)

// ---------------------------------------------------------------------------
// Operations
// ---------------------------------------------------------------------------

// op is one store call: a method mnemonic and indices into the value universe.
type op struct {
	N string
	A []int
}

func (o op) String() string {
	if len(o.A) == 0 {
		return o.N
	}
	parts := make([]string, len(o.A))
	for i, a := range o.A {
		parts[i] = strconv.Itoa(a)
	}
	return o.N + ":" + strings.Join(parts, ",")
}

func parseOp(s string) (op, error) {
	name, rest, has := strings.Cut(s, ":")
	o := op{N: name}
	if has && rest != "" {
		for _, p := range strings.Split(rest, ",") {
			n, err := strconv.Atoi(p)
			if err != nil {
				return o, fmt.Errorf("bad op %q", s)
			}
			o.A = append(o.A, n)
		}
	}
	return o, nil
}

func mkop(n string, a ...int) op { return op{N: n, A: a} }

// cross builds all ops name:a0,a1,... with a_i < dims[i].
func cross(name string, dims ...int) []op {
	out := []op{{N: name}}
	for _, d := range dims {
		var next []op
		for _, o := range out {
			for i := 0; i < d; i++ {
				a := append(append([]int{}, o.A...), i)
				next = append(next, op{N: name, A: a})
			}
		}
		out = next
	}
	return out
}

// ---------------------------------------------------------------------------
// Store factories: the real package and the sync-shimmed copy expose the same
// constructors; the harness only talks to the tmstore interfaces.
// ---------------------------------------------------------------------------

type factory struct {
	name         string
	action       func() tmstore.ActionStore
	round        func() tmstore.RoundStore
	finalization func() tmstore.FinalizationStore
	committed    func() tmstore.CommittedHeaderStore
	mirror       func() tmstore.MirrorStore
	stateMachine func() tmstore.StateMachineStore
	validator    func(tmconsensus.HashScheme) tmstore.ValidatorStore
}

var realFactory = &factory{
	name:         "tmmemstore",
	action:       func() tmstore.ActionStore { return tmmemstore.NewActionStore() },
	round:        func() tmstore.RoundStore { return tmmemstore.NewRoundStore() },
	finalization: func() tmstore.FinalizationStore { return tmmemstore.NewFinalizationStore() },
	committed:    func() tmstore.CommittedHeaderStore { return tmmemstore.NewCommittedHeaderStore() },
	mirror:       func() tmstore.MirrorStore { return tmmemstore.NewMirrorStore() },
	stateMachine: func() tmstore.StateMachineStore { return tmmemstore.NewStateMachineStore() },
	validator:    func(hs tmconsensus.HashScheme) tmstore.ValidatorStore { return tmmemstore.NewValidatorStore(hs) },
}

var shimFactory = &factory{
	name:         "zzshimstore",
	action:       func() tmstore.ActionStore { return zzshimstore.NewActionStore() },
	round:        func() tmstore.RoundStore { return zzshimstore.NewRoundStore() },
	finalization: func() tmstore.FinalizationStore { return zzshimstore.NewFinalizationStore() },
	committed:    func() tmstore.CommittedHeaderStore { return zzshimstore.NewCommittedHeaderStore() },
	mirror:       func() tmstore.MirrorStore { return zzshimstore.NewMirrorStore() },
	stateMachine: func() tmstore.StateMachineStore { return zzshimstore.NewStateMachineStore() },
	validator:    func(hs tmconsensus.HashScheme) tmstore.ValidatorStore { return zzshimstore.NewValidatorStore(hs) },
}

// ---------------------------------------------------------------------------
// A store kind: alphabet, reference model, adapter to the real store.
// ---------------------------------------------------------------------------

// mstate is a model state: a comparable value type (fixed arrays), copied by assignment.
type mstate any

// outcome is one behaviour the contract allows for an operation in a state.
type outcome struct {
	out string
	st  mstate
}

type kind struct {
	name string
	// alphabet: the sequential alphabet; collide: the smaller alphabet of the concurrent part
	// (all on one key plus a little spill); observe: loads that together reveal the whole state.
	alphabet []op
	core     []op // reduced alphabet (quick tier); nil: same as alphabet
	mini     []op // smallest alphabet (length-5 sequences of the thorough tier); nil: same as core
	collide  []op
	observe  []op
	init     func() mstate
	// apply returns every outcome allowed by the contract (usually exactly one). It never mutates st.
	apply func(st mstate, o op) []outcome
	// newImpl builds a fresh real store and returns the function executing an op on it,
	// rendering all return values canonically (render=false: execute only, return "").
	newImpl func(f *factory) func(ctx context.Context, o op, render bool) string
	// method maps a mnemonic to the Go method name (for messages and signatures).
	method map[string]string
}

var kinds = map[string]*kind{}
var kindOrder = []string{"action", "round", "finalization", "committed", "mirror", "statemachine", "validator"}

func (k *kind) alpha(name string) []op {
	if name == "mini" && k.mini != nil {
		return k.mini
	}
	if (name == "core" || name == "mini") && k.core != nil {
		return k.core
	}
	return k.alphabet
}

func mustOps(ss ...string) []op {
	var out []op
	for _, s := range ss {
		o, err := parseOp(s)
		if err != nil {
			panic(err)
		}
		out = append(out, o)
	}
	return out
}

func (k *kind) methodOf(o op) string {
	if m, ok := k.method[o.N]; ok {
		return m
	}
	return o.N
}

func errOut(err error) string {
	if err == nil {
		return "err=nil"
	}
	return "err=" + canonErr(err)
}

func eo(render bool, err error) string {
	if !render {
		return ""
	}
	return errOut(err)
}

// memo caches the model's renderings of universe values, per rendering mode.
// Only the goroutine that runs the model uses it.
type mk struct {
	tag        string
	a, b, c, d int
}

var memoTab = [2]map[mk]string{{}, {}}

func memo(k mk, f func() string) string {
	m := memoTab[modeIdx()]
	if v, ok := m[k]; ok {
		return v
	}
	v := f()
	m[k] = v
	return v
}

// ---------------------------------------------------------------------------
// 1. ActionStore
//
// Contract encoded (tm/tmstore/actionstore.go, errors.go, property statement):
//   - a second proposed header / prevote / precommit for a height-round is refused with
//     DoubleActionError{Type}; the first one stays recorded;
//   - a prevote and a precommit of one round with different public keys: the later one is
//     refused with PubKeyChangedError{ActionType, Want, Got};
//   - when both refusals apply either error is accepted (priority is not documented);
//   - LoadActions returns exactly the recorded actions, RoundUnknownError{h,r} when none.
// Weaker readings written down: heights are >= 1, signatures non-empty, public keys non-nil
// (the store uses the zero values as "absent" markers); the proposer key of a proposed header
// is not subject to the key-change rule (errors.go speaks of prevote and precommit only).
// ---------------------------------------------------------------------------

type actionSlot struct {
	ph  int8 // -1 none, else hash index
	key int8 // -1 none, else recorded voting key
	pv  int8 // -1 none, else target index
	pc  int8
}

type actionState [3]actionSlot

func (s actionSlot) exists() bool { return s.ph >= 0 || s.pv >= 0 || s.pc >= 0 }

func actionExpectedLoad(k int, s actionSlot) string {
	return memo(mk{"action-load", k, int(s.ph), int(s.key), int(s.pv+1)*3 + int(s.pc+1)}, func() string {
		ra := tmstore.RoundActions{Height: uHR[k].H, Round: uHR[k].R}
		if s.ph >= 0 {
			ra.ProposedHeader = mkPH(k, int(s.ph), 0)
		}
		if s.key >= 0 {
			ra.PubKey = uPK[s.key]
		}
		if s.pv >= 0 {
			ra.PrevoteTarget = voteTarget(k, int(s.pv)).BlockHash
			ra.PrevoteSignature = string(voteSig("pv", k, int(s.key), int(s.pv)))
		}
		if s.pc >= 0 {
			ra.PrecommitTarget = voteTarget(k, int(s.pc)).BlockHash
			ra.PrecommitSignature = string(voteSig("pc", k, int(s.key), int(s.pc)))
		}
		return "ra=" + canon(ra) + " " + errOut(nil)
	})
}

func init() {
	k := &kind{name: "action"}
	k.method = map[string]string{"SPH": "SaveProposedHeaderAction", "SPV": "SavePrevoteAction", "SPC": "SavePrecommitAction", "LA": "LoadActions"}
	k.alphabet = append(k.alphabet, cross("SPH", 3, 2)...)
	k.alphabet = append(k.alphabet, cross("SPV", 3, 2, 2)...)
	k.alphabet = append(k.alphabet, cross("SPC", 3, 2, 2)...)
	k.alphabet = append(k.alphabet, cross("LA", 3)...)
	// core: everything on the two rounds of height 1, one op per save method on the other height.
	k.core = mustOps("SPH:0,0", "SPH:0,1", "SPH:1,0", "SPH:1,1", "SPH:2,0",
		"SPV:0,0,0", "SPV:0,0,1", "SPV:0,1,0", "SPV:0,1,1", "SPV:1,0,0", "SPV:1,0,1", "SPV:1,1,0", "SPV:1,1,1", "SPV:2,0,0",
		"SPC:0,0,0", "SPC:0,0,1", "SPC:0,1,0", "SPC:0,1,1", "SPC:1,0,0", "SPC:1,0,1", "SPC:1,1,0", "SPC:1,1,1", "SPC:2,0,0",
		"LA:0", "LA:1", "LA:2")
	k.mini = mustOps("SPH:0,0", "SPH:0,1", "SPH:1,0", "SPH:2,0",
		"SPV:0,0,0", "SPV:0,0,1", "SPV:0,1,0", "SPV:0,1,1", "SPV:1,0,0", "SPV:2,0,0",
		"SPC:0,0,0", "SPC:0,0,1", "SPC:0,1,0", "SPC:0,1,1", "SPC:1,0,0",
		"LA:0", "LA:1", "LA:2")
	k.collide = []op{
		mkop("SPH", 0, 0), mkop("SPH", 0, 1),
		mkop("SPV", 0, 0, 0), mkop("SPV", 0, 1, 1),
		mkop("SPC", 0, 0, 0), mkop("SPC", 0, 1, 0),
		mkop("LA", 0),
	}
	k.observe = cross("LA", 3)
	k.init = func() mstate {
		var s actionState
		for i := range s {
			s[i] = actionSlot{-1, -1, -1, -1}
		}
		return s
	}
	k.apply = func(st mstate, o op) []outcome {
		s := st.(actionState)
		switch o.N {
		case "SPH":
			k, hi := o.A[0], o.A[1]
			if s[k].ph >= 0 {
				return []outcome{{errOut(tmstore.DoubleActionError{Type: "proposed block"}), s}}
			}
			s[k].ph = int8(hi)
			return []outcome{{errOut(nil), s}}
		case "SPV", "SPC":
			k, ki, ti := o.A[0], o.A[1], o.A[2]
			typ := "prevote"
			have := s[k].pv
			if o.N == "SPC" {
				typ = "precommit"
				have = s[k].pc
			}
			keyChanged := s[k].key >= 0 && int(s[k].key) != ki
			var changedErr error
			if keyChanged {
				changedErr = tmstore.PubKeyChangedError{
					ActionType: typ,
					Want:       string(uPK[s[k].key].PubKeyBytes()),
					Got:        string(uPK[ki].PubKeyBytes()),
				}
			}
			if have >= 0 {
				outs := []outcome{{errOut(tmstore.DoubleActionError{Type: typ}), s}}
				if keyChanged {
					outs = append(outs, outcome{errOut(changedErr), s})
				}
				return outs
			}
			if keyChanged {
				return []outcome{{errOut(changedErr), s}}
			}
			s[k].key = int8(ki)
			if o.N == "SPV" {
				s[k].pv = int8(ti)
			} else {
				s[k].pc = int8(ti)
			}
			return []outcome{{errOut(nil), s}}
		case "LA":
			k := o.A[0]
			if !s[k].exists() {
				return []outcome{{errOut(tmconsensus.RoundUnknownError{WantHeight: uHR[k].H, WantRound: uHR[k].R}), s}}
			}
			return []outcome{{actionExpectedLoad(k, s[k]), s}}
		}
		panic("action model: unknown op " + o.String())
	}
	k.newImpl = func(f *factory) func(context.Context, op, bool) string {
		st := f.action()
		return func(ctx context.Context, o op, render bool) string {
			switch o.N {
			case "SPH":
				return eo(render, st.SaveProposedHeaderAction(ctx, mkPH(o.A[0], o.A[1], 0)))
			case "SPV":
				return eo(render, st.SavePrevoteAction(ctx, uPK[o.A[1]], voteTarget(o.A[0], o.A[2]), voteSig("pv", o.A[0], o.A[1], o.A[2])))
			case "SPC":
				return eo(render, st.SavePrecommitAction(ctx, uPK[o.A[1]], voteTarget(o.A[0], o.A[2]), voteSig("pc", o.A[0], o.A[1], o.A[2])))
			case "LA":
				ra, err := st.LoadActions(ctx, uHR[o.A[0]].H, uHR[o.A[0]].R)
				if !render {
					return ""
				}
				if err != nil {
					return errOut(err)
				}
				return "ra=" + canon(ra) + " " + errOut(nil)
			}
			panic("action impl: unknown op " + o.String())
		}
	}
	kinds[k.name] = k
}

// ---------------------------------------------------------------------------
// 2. RoundStore
//
// Contract encoded (tm/tmstore/roundstore.go, errors.go, compliance tests):
//   - SaveRoundProposedHeader: the same (height, round, hash, proposer) twice is refused with
//     OverwriteError{Field:"pubkey", Value: hex(key)}; otherwise the header is added;
//   - SaveRoundReplayedHeader: refused with OverwriteError{Field:"hash", Value: hex(hash)} when a
//     proposed header with that hash exists at that height (any round); otherwise recorded;
//   - Overwrite*Proofs replace the collection of that height/round;
//   - LoadRoundState(h,r): all proposed headers saved for (h,r) in any order, plus
//     ProposedHeader{Header: rh} for every replayed header rh of height h whose hash is a non-nil
//     key of the precommit collection of (h,r); the latest prevote / precommit collections;
//     RoundUnknownError{h,r} iff there is no header to return and neither collection has votes.
// Undocumented corners where every plausible behaviour is accepted (weaker reading):
//   - same proposer, other hash, same round: stored, or refused with OverwriteError{pubkey};
//   - proposed header whose hash was already saved as replayed header of that height:
//     stored, or refused with OverwriteError{hash};
//   - the same replayed header saved twice: nil (kept once or twice) or OverwriteError{hash}.
// ---------------------------------------------------------------------------

type roundState struct {
	phs      [3][2][3]bool // slot, hash, proposer
	replayed [2][2]int8    // height index (1,2), hash -> copies
	pv, pc   [3]int8       // -1 none (or zero collection), else collection index 0/1
}

func collHasVotes(ci int8) bool { return ci >= 0 && len(uColl[ci].BlockSignatures) > 0 }

func roundPHCanon(slot, hi, pi int) string {
	return memo(mk{"round-ph", slot, hi, pi, 0}, func() string { return canon(mkPH(slot, hi, pi)) })
}

func roundRHCanon(hx, hi int) string {
	return memo(mk{"round-rh", hx, hi, 0, 0}, func() string { return canon(tmconsensus.ProposedHeader{Header: mkHeader(hx, hi)}) })
}

func roundCollCanon(ci int) string {
	return memo(mk{"round-coll", ci, 0, 0, 0}, func() string { return canon(uColl[ci]) })
}

func init() {
	k := &kind{name: "round"}
	k.method = map[string]string{"SPH": "SaveRoundProposedHeader", "SRH": "SaveRoundReplayedHeader", "OPV": "OverwriteRoundPrevoteProofs", "OPC": "OverwriteRoundPrecommitProofs", "LRS": "LoadRoundState"}
	k.alphabet = append(k.alphabet, cross("SPH", 3, 2, 2)...)
	k.alphabet = append(k.alphabet, cross("SRH", 2, 2)...)
	k.alphabet = append(k.alphabet, cross("OPV", 3, 3)...)
	k.alphabet = append(k.alphabet, cross("OPC", 3, 3)...)
	k.alphabet = append(k.alphabet, cross("LRS", 3)...)
	k.core = mustOps("SPH:0,0,0", "SPH:0,0,1", "SPH:0,1,0", "SPH:0,1,1", "SPH:1,0,0", "SPH:1,0,1", "SPH:1,1,0", "SPH:1,1,1", "SPH:2,0,0",
		"SRH:0,0", "SRH:0,1", "SRH:1,0", "SRH:1,1",
		"OPV:0,0", "OPV:0,2", "OPV:1,0", "OPV:1,2",
		"OPC:0,0", "OPC:0,1", "OPC:0,2", "OPC:1,0", "OPC:1,1", "OPC:1,2", "OPC:2,0",
		"LRS:0", "LRS:1", "LRS:2")
	k.mini = mustOps("SPH:0,0,0", "SPH:0,0,1", "SPH:0,1,0", "SPH:1,0,0", "SPH:2,0,0",
		"SRH:0,0", "SRH:0,1", "SRH:1,0",
		"OPV:0,0", "OPV:0,2",
		"OPC:0,0", "OPC:0,1", "OPC:0,2", "OPC:1,0", "OPC:2,0",
		"LRS:0", "LRS:1", "LRS:2")
	k.collide = []op{
		mkop("SPH", 0, 0, 0), mkop("SPH", 0, 0, 1),
		mkop("SRH", 0, 0),
		mkop("OPV", 0, 0),
		mkop("OPC", 0, 0), mkop("OPC", 0, 1),
		mkop("LRS", 0),
	}
	k.observe = cross("LRS", 3)
	k.init = func() mstate {
		var s roundState
		for i := range s.pv {
			s.pv[i], s.pc[i] = -1, -1
		}
		return s
	}
	fmtLoad := func(phs []string, pv, pc string) string {
		sort.Strings(phs)
		return "phs=[" + strings.Join(phs, ",") + "] pv=" + pv + " pc=" + pc + " " + errOut(nil)
	}
	k.apply = func(st mstate, o op) []outcome {
		s := st.(roundState)
		switch o.N {
		case "SPH":
			slot, hi, pi := o.A[0], o.A[1], o.A[2]
			pkErr := errOut(tmstore.OverwriteError{Field: "pubkey", Value: fmt.Sprintf("%x", uPK[pi].PubKeyBytes())})
			if s.phs[slot][hi][pi] {
				return []outcome{{pkErr, s}}
			}
			old := s
			s.phs[slot][hi][pi] = true
			outs := []outcome{{errOut(nil), s}}
			if old.phs[slot][1-hi][pi] {
				outs = append(outs, outcome{pkErr, old})
			}
			if old.replayed[heightIdx(uHR[slot].H)][hi] > 0 {
				outs = append(outs, outcome{errOut(tmstore.OverwriteError{Field: "hash", Value: fmt.Sprintf("%x", uHash[hi])}), old})
			}
			return outs
		case "SRH":
			hx, hi := o.A[0], o.A[1]
			hashErr := errOut(tmstore.OverwriteError{Field: "hash", Value: fmt.Sprintf("%x", uHash[hi])})
			for slot := range uHR {
				if uHR[slot].H != uHeights[hx] {
					continue
				}
				for pi := 0; pi < 3; pi++ {
					if s.phs[slot][hi][pi] {
						return []outcome{{hashErr, s}}
					}
				}
			}
			if s.replayed[hx][hi] > 0 {
				dup := s
				dup.replayed[hx][hi]++
				return []outcome{{errOut(nil), dup}, {errOut(nil), s}, {hashErr, s}}
			}
			s.replayed[hx][hi] = 1
			return []outcome{{errOut(nil), s}}
		case "OPV", "OPC":
			slot, ci := o.A[0], int8(o.A[1])
			if !collHasVotes(ci) {
				ci = -1 // saving the zero collection is indistinguishable from having none
			}
			if o.N == "OPV" {
				s.pv[slot] = ci
			} else {
				s.pc[slot] = ci
			}
			return []outcome{{errOut(nil), s}}
		case "LRS":
			slot := o.A[0]
			var phs []string
			for hi := 0; hi < 2; hi++ {
				for pi := 0; pi < 3; pi++ {
					if s.phs[slot][hi][pi] {
						phs = append(phs, roundPHCanon(slot, hi, pi))
					}
				}
			}
			hx := heightIdx(uHR[slot].H)
			if collHasVotes(s.pc[slot]) {
				for hash := range uColl[s.pc[slot]].BlockSignatures {
					if hash == "" {
						continue
					}
					for hi := 0; hi < 2; hi++ {
						if hash == string(uHash[hi]) {
							for c := int8(0); c < s.replayed[hx][hi]; c++ {
								phs = append(phs, roundRHCanon(hx, hi))
							}
						}
					}
				}
			}
			if len(phs) == 0 && !collHasVotes(s.pv[slot]) && !collHasVotes(s.pc[slot]) {
				return []outcome{{errOut(tmconsensus.RoundUnknownError{WantHeight: uHR[slot].H, WantRound: uHR[slot].R}), s}}
			}
			pv, pc := roundCollCanon(2), roundCollCanon(2)
			if s.pv[slot] >= 0 {
				pv = roundCollCanon(int(s.pv[slot]))
			}
			if s.pc[slot] >= 0 {
				pc = roundCollCanon(int(s.pc[slot]))
			}
			return []outcome{{fmtLoad(phs, pv, pc), s}}
		}
		panic("round model: unknown op " + o.String())
	}
	k.newImpl = func(f *factory) func(context.Context, op, bool) string {
		st := f.round()
		return func(ctx context.Context, o op, render bool) string {
			switch o.N {
			case "SPH":
				return eo(render, st.SaveRoundProposedHeader(ctx, mkPH(o.A[0], o.A[1], o.A[2])))
			case "SRH":
				return eo(render, st.SaveRoundReplayedHeader(ctx, mkHeader(o.A[0], o.A[1])))
			case "OPV":
				return eo(render, st.OverwriteRoundPrevoteProofs(ctx, uHR[o.A[0]].H, uHR[o.A[0]].R, uColl[o.A[1]]))
			case "OPC":
				return eo(render, st.OverwriteRoundPrecommitProofs(ctx, uHR[o.A[0]].H, uHR[o.A[0]].R, uColl[o.A[1]]))
			case "LRS":
				phs, pv, pc, err := st.LoadRoundState(ctx, uHR[o.A[0]].H, uHR[o.A[0]].R)
				if !render {
					return ""
				}
				if err != nil {
					return errOut(err)
				}
				ss := make([]string, len(phs))
				for i := range phs {
					ss[i] = canon(phs[i])
				}
				return fmtLoad(ss, canon(pv), canon(pc))
			}
			panic("round impl: unknown op " + o.String())
		}
	}
	kinds[k.name] = k
}

// ---------------------------------------------------------------------------
// 3. FinalizationStore: a height is written once (FinalizationOverwriteError{Height} afterwards,
// whatever the arguments); loads return exactly the first save, HeightUnknownError{Want} when none.
// ---------------------------------------------------------------------------

type finState [3]int8 // per height index: -1 none, else tuple r*4+bh*2+vs

func finTuple(t int) (round uint32, blockHash string, vs tmconsensus.ValidatorSet, ash string) {
	r, bh, v := t/4, (t/2)%2, t%2
	return uint32(r * 3), string(uHash[bh]), uValSet[v], fmt.Sprintf("appstate-%d-%d", bh, r)
}

func fmtFin(round uint32, blockHash string, vs tmconsensus.ValidatorSet, ash string) string {
	return fmt.Sprintf("round=%d hash=%q vs=%s ash=%q ", round, blockHash, canon(vs), ash) + errOut(nil)
}

func finCanon(t int) string {
	return memo(mk{"fin", t, 0, 0, 0}, func() string { return fmtFin(finTuple(t)) })
}

func init() {
	k := &kind{name: "finalization"}
	k.method = map[string]string{"SF": "SaveFinalization", "LF": "LoadFinalizationByHeight"}
	k.alphabet = append(k.alphabet, cross("SF", 2, 2, 2, 2)...)
	k.alphabet = append(k.alphabet, cross("LF", 3)...)
	k.collide = []op{mkop("SF", 0, 0, 0, 0), mkop("SF", 0, 1, 1, 1), mkop("SF", 0, 0, 1, 0), mkop("SF", 1, 0, 0, 0), mkop("LF", 0), mkop("LF", 1)}
	k.observe = cross("LF", 3)
	k.init = func() mstate { return finState{-1, -1, -1} }
	k.apply = func(st mstate, o op) []outcome {
		s := st.(finState)
		switch o.N {
		case "SF":
			hx := o.A[0]
			if s[hx] >= 0 {
				return []outcome{{errOut(tmstore.FinalizationOverwriteError{Height: uHeights[hx]}), s}}
			}
			s[hx] = int8(o.A[1]*4 + o.A[2]*2 + o.A[3])
			return []outcome{{errOut(nil), s}}
		case "LF":
			hx := o.A[0]
			if s[hx] < 0 {
				return []outcome{{errOut(tmconsensus.HeightUnknownError{Want: uHeights[hx]}), s}}
			}
			return []outcome{{finCanon(int(s[hx])), s}}
		}
		panic("finalization model: unknown op " + o.String())
	}
	k.newImpl = func(f *factory) func(context.Context, op, bool) string {
		st := f.finalization()
		return func(ctx context.Context, o op, render bool) string {
			switch o.N {
			case "SF":
				r, bh, vs, ash := finTuple(o.A[1]*4 + o.A[2]*2 + o.A[3])
				return eo(render, st.SaveFinalization(ctx, uHeights[o.A[0]], r, bh, vs, ash))
			case "LF":
				r, bh, vs, ash, err := st.LoadFinalizationByHeight(ctx, uHeights[o.A[0]])
				if !render {
					return ""
				}
				if err != nil {
					return errOut(err)
				}
				return fmtFin(r, bh, vs, ash)
			}
			panic("finalization impl: unknown op " + o.String())
		}
	}
	kinds[k.name] = k
}

// ---------------------------------------------------------------------------
// 4. CommittedHeaderStore: loads return the latest completed save of the height
// (the interface documents no refusal), HeightUnknownError{Want} when none.
// ---------------------------------------------------------------------------

type committedState [3]int8 // per height index: -1 none, else hv*2+pv

func committedCanon(hx, t int) string {
	return memo(mk{"committed", hx, t, 0, 0}, func() string { return "ch=" + canon(mkCommitted(hx, t/2, t%2)) + " " + errOut(nil) })
}

func init() {
	k := &kind{name: "committed"}
	k.method = map[string]string{"SCH": "SaveCommittedHeader", "LCH": "LoadCommittedHeader"}
	k.alphabet = append(k.alphabet, cross("SCH", 2, 2, 2)...)
	k.alphabet = append(k.alphabet, cross("LCH", 3)...)
	k.collide = []op{mkop("SCH", 0, 0, 0), mkop("SCH", 0, 1, 1), mkop("SCH", 0, 0, 1), mkop("SCH", 1, 0, 0), mkop("LCH", 0), mkop("LCH", 1)}
	k.observe = cross("LCH", 3)
	k.init = func() mstate { return committedState{-1, -1, -1} }
	k.apply = func(st mstate, o op) []outcome {
		s := st.(committedState)
		switch o.N {
		case "SCH":
			s[o.A[0]] = int8(o.A[1]*2 + o.A[2])
			return []outcome{{errOut(nil), s}}
		case "LCH":
			hx := o.A[0]
			if s[hx] < 0 {
				return []outcome{{errOut(tmconsensus.HeightUnknownError{Want: uHeights[hx]}), s}}
			}
			return []outcome{{committedCanon(hx, int(s[hx])), s}}
		}
		panic("committed model: unknown op " + o.String())
	}
	k.newImpl = func(f *factory) func(context.Context, op, bool) string {
		st := f.committed()
		return func(ctx context.Context, o op, render bool) string {
			switch o.N {
			case "SCH":
				return eo(render, st.SaveCommittedHeader(ctx, mkCommitted(o.A[0], o.A[1], o.A[2])))
			case "LCH":
				ch, err := st.LoadCommittedHeader(ctx, uHeights[o.A[0]])
				if !render {
					return ""
				}
				if err != nil {
					return errOut(err)
				}
				return "ch=" + canon(ch) + " " + errOut(nil)
			}
			panic("committed impl: unknown op " + o.String())
		}
	}
	kinds[k.name] = k
}

// ---------------------------------------------------------------------------
// 5. MirrorStore and 6. StateMachineStore: last value set, ErrStoreUninitialized before any set.
// Heights are >= 1 (the stores use height 0 as the "uninitialized" marker).
// ---------------------------------------------------------------------------

type mirrorState struct {
	set            bool
	vh, vr, ch, cr int8
}

func mirrorVals(a, b, c, d int) (uint64, uint32, uint64, uint32) {
	// distinct value sets per field, so that swapped fields show
	return uint64(2 + a), uint32(5 * b), uint64(1 + c), uint32(7*d + 1)
}

func fmtMirror(vh uint64, vr uint32, ch uint64, cr uint32) string {
	return fmt.Sprintf("vh=%d vr=%d ch=%d cr=%d ", vh, vr, ch, cr) + errOut(nil)
}

func init() {
	k := &kind{name: "mirror"}
	k.method = map[string]string{"SET": "SetNetworkHeightRound", "GET": "NetworkHeightRound"}
	k.alphabet = append(k.alphabet, cross("SET", 2, 2, 2, 2)...)
	k.alphabet = append(k.alphabet, mkop("GET"))
	k.collide = []op{mkop("SET", 0, 0, 0, 0), mkop("SET", 1, 1, 1, 1), mkop("SET", 0, 1, 0, 1), mkop("GET")}
	k.observe = []op{mkop("GET")}
	k.init = func() mstate { return mirrorState{} }
	k.apply = func(st mstate, o op) []outcome {
		s := st.(mirrorState)
		switch o.N {
		case "SET":
			s = mirrorState{true, int8(o.A[0]), int8(o.A[1]), int8(o.A[2]), int8(o.A[3])}
			return []outcome{{errOut(nil), s}}
		case "GET":
			if !s.set {
				return []outcome{{errOut(tmstore.ErrStoreUninitialized), s}}
			}
			return []outcome{{fmtMirror(mirrorVals(int(s.vh), int(s.vr), int(s.ch), int(s.cr))), s}}
		}
		panic("mirror model: unknown op " + o.String())
	}
	k.newImpl = func(f *factory) func(context.Context, op, bool) string {
		st := f.mirror()
		return func(ctx context.Context, o op, render bool) string {
			switch o.N {
			case "SET":
				vh, vr, ch, cr := mirrorVals(o.A[0], o.A[1], o.A[2], o.A[3])
				return eo(render, st.SetNetworkHeightRound(ctx, vh, vr, ch, cr))
			case "GET":
				vh, vr, ch, cr, err := st.NetworkHeightRound(ctx)
				if !render {
					return ""
				}
				if err != nil {
					return errOut(err)
				}
				return fmtMirror(vh, vr, ch, cr)
			}
			panic("mirror impl: unknown op " + o.String())
		}
	}
	kinds[k.name] = k
}

type smState struct {
	set  bool
	h, r int8
}

func init() {
	k := &kind{name: "statemachine"}
	k.method = map[string]string{"SET": "SetStateMachineHeightRound", "GET": "StateMachineHeightRound"}
	k.alphabet = append(k.alphabet, cross("SET", 3, 3)...)
	k.alphabet = append(k.alphabet, mkop("GET"))
	k.collide = []op{mkop("SET", 0, 0), mkop("SET", 1, 1), mkop("SET", 0, 2), mkop("GET")}
	k.observe = []op{mkop("GET")}
	k.init = func() mstate { return smState{} }
	fmtSM := func(h uint64, r uint32) string { return fmt.Sprintf("h=%d r=%d ", h, r) + errOut(nil) }
	k.apply = func(st mstate, o op) []outcome {
		s := st.(smState)
		switch o.N {
		case "SET":
			return []outcome{{errOut(nil), smState{true, int8(o.A[0]), int8(o.A[1])}}}
		case "GET":
			if !s.set {
				return []outcome{{errOut(tmstore.ErrStoreUninitialized), s}}
			}
			return []outcome{{fmtSM(uint64(s.h)+1, uint32(s.r)*2), s}}
		}
		panic("statemachine model: unknown op " + o.String())
	}
	k.newImpl = func(f *factory) func(context.Context, op, bool) string {
		st := f.stateMachine()
		return func(ctx context.Context, o op, render bool) string {
			switch o.N {
			case "SET":
				return eo(render, st.SetStateMachineHeightRound(ctx, uint64(o.A[0])+1, uint32(o.A[1])*2))
			case "GET":
				h, r, err := st.StateMachineHeightRound(ctx)
				if !render {
					return ""
				}
				if err != nil {
					return errOut(err)
				}
				return fmtSM(h, r)
			}
			panic("statemachine impl: unknown op " + o.String())
		}
	}
	kinds[k.name] = k
}

// ---------------------------------------------------------------------------
// 7. ValidatorStore: a save returns the hash of its argument under the store's hash scheme
// (PubKeysAlreadyExistError / VotePowersAlreadyExistError{ExistingHash} when present already);
// a load by hash returns exactly the ordered keys / powers that hash to it,
// NoPubKeyHashError / NoVotePowerHashError{Want} when absent; LoadValidators pairs them up,
// reports every missing hash, and PubKeyPowerCountMismatchError when the lengths differ.
// On error the other return values are not compared.
// ---------------------------------------------------------------------------

type valState struct {
	keys, pows [3]bool
}

func init() {
	k := &kind{name: "validator"}
	k.method = map[string]string{"SPK": "SavePubKeys", "SVP": "SaveVotePowers", "LPK": "LoadPubKeys", "LVP": "LoadVotePowers", "LV": "LoadValidators"}
	k.alphabet = append(k.alphabet, cross("SPK", 3)...)
	k.alphabet = append(k.alphabet, cross("SVP", 3)...)
	k.alphabet = append(k.alphabet, cross("LPK", 4)...)
	k.alphabet = append(k.alphabet, cross("LVP", 4)...)
	k.alphabet = append(k.alphabet, cross("LV", 4, 4)...)
	k.core = append(append(append(append(cross("SPK", 3), cross("SVP", 3)...), cross("LPK", 4)...), cross("LVP", 4)...),
		mustOps("LV:0,0", "LV:0,2", "LV:0,3", "LV:2,0", "LV:2,2", "LV:2,3", "LV:3,0", "LV:3,2", "LV:3,3")...)
	k.mini = mustOps("SPK:0", "SPK:1", "SPK:2", "SVP:0", "SVP:1", "SVP:2", "LPK:0", "LPK:1", "LPK:3", "LVP:0", "LVP:2", "LVP:3",
		"LV:0,0", "LV:0,2", "LV:1,0", "LV:3,3")
	k.collide = []op{mkop("SPK", 0), mkop("SPK", 1), mkop("SVP", 0), mkop("SVP", 2), mkop("LPK", 0), mkop("LVP", 0), mkop("LV", 0, 0), mkop("LV", 0, 2)}
	k.observe = append(cross("LPK", 4), cross("LVP", 4)...)
	k.init = func() mstate { return valState{} }
	fmtKeys := func(keys []gcrypto.PubKey) string { return "keys=" + canon(keys) + " " + errOut(nil) }
	fmtPows := func(pows []uint64) string { return "pows=" + canon(pows) + " " + errOut(nil) }
	fmtVals := func(vals []tmconsensus.Validator) string { return "vals=" + canon(vals) + " " + errOut(nil) }
	fmtHash := func(h string) string { return fmt.Sprintf("hash=%x ", h) + errOut(nil) }
	k.apply = func(st mstate, o op) []outcome {
		s := st.(valState)
		switch o.N {
		case "SPK":
			i := o.A[0]
			if s.keys[i] {
				return []outcome{{errOut(tmstore.PubKeysAlreadyExistError{ExistingHash: uKeyHashes[i]}), s}}
			}
			s.keys[i] = true
			return []outcome{{fmtHash(uKeyHashes[i]), s}}
		case "SVP":
			i := o.A[0]
			if s.pows[i] {
				return []outcome{{errOut(tmstore.VotePowersAlreadyExistError{ExistingHash: uPowHashes[i]}), s}}
			}
			s.pows[i] = true
			return []outcome{{fmtHash(uPowHashes[i]), s}}
		case "LPK":
			j := o.A[0]
			if j > 2 || !s.keys[j] {
				return []outcome{{errOut(tmstore.NoPubKeyHashError{Want: uKeyHashes[j]}), s}}
			}
			return []outcome{{memo(mk{"val-keys", j, 0, 0, 0}, func() string { return fmtKeys(uKeySets[j]) }), s}}
		case "LVP":
			j := o.A[0]
			if j > 2 || !s.pows[j] {
				return []outcome{{errOut(tmstore.NoVotePowerHashError{Want: uPowHashes[j]}), s}}
			}
			return []outcome{{memo(mk{"val-pows", j, 0, 0, 0}, func() string { return fmtPows(uPowSets[j]) }), s}}
		case "LV":
			j, l := o.A[0], o.A[1]
			var missing []string
			if j > 2 || !s.keys[j] {
				missing = append(missing, canonErr(tmstore.NoPubKeyHashError{Want: uKeyHashes[j]}))
			}
			if l > 2 || !s.pows[l] {
				missing = append(missing, canonErr(tmstore.NoVotePowerHashError{Want: uPowHashes[l]}))
			}
			if len(missing) == 1 {
				return []outcome{{"err=" + missing[0], s}}
			}
			if len(missing) == 2 {
				sort.Strings(missing)
				return []outcome{{"err=join[" + strings.Join(missing, " & ") + "]", s}}
			}
			if len(uKeySets[j]) != len(uPowSets[l]) {
				return []outcome{{errOut(tmstore.PubKeyPowerCountMismatchError{NPubKeys: len(uKeySets[j]), NVotePower: len(uPowSets[l])}), s}}
			}
			return []outcome{{memo(mk{"val-vals", j, l, 0, 0}, func() string {
				vals := make([]tmconsensus.Validator, len(uKeySets[j]))
				for i := range vals {
					vals[i] = tmconsensus.Validator{PubKey: uKeySets[j][i], Power: uPowSets[l][i]}
				}
				return fmtVals(vals)
			}), s}}
		}
		panic("validator model: unknown op " + o.String())
	}
	k.newImpl = func(f *factory) func(context.Context, op, bool) string {
		st := f.validator(harnessHashScheme{})
		return func(ctx context.Context, o op, render bool) string {
			switch o.N {
			case "SPK":
				h, err := st.SavePubKeys(ctx, uKeySets[o.A[0]])
				if !render {
					return ""
				}
				if err != nil {
					return errOut(err)
				}
				return fmtHash(h)
			case "SVP":
				h, err := st.SaveVotePowers(ctx, uPowSets[o.A[0]])
				if !render {
					return ""
				}
				if err != nil {
					return errOut(err)
				}
				return fmtHash(h)
			case "LPK":
				keys, err := st.LoadPubKeys(ctx, uKeyHashes[o.A[0]])
				if !render {
					return ""
				}
				if err != nil {
					return errOut(err)
				}
				return fmtKeys(keys)
			case "LVP":
				pows, err := st.LoadVotePowers(ctx, uPowHashes[o.A[0]])
				if !render {
					return ""
				}
				if err != nil {
					return errOut(err)
				}
				return fmtPows(pows)
			case "LV":
				vals, err := st.LoadValidators(ctx, uKeyHashes[o.A[0]], uPowHashes[o.A[1]])
				if !render {
					return ""
				}
				if err != nil {
					return errOut(err)
				}
				return fmtVals(vals)
			}
			panic("validator impl: unknown op " + o.String())
		}
	}
	kinds[k.name] = k
}
