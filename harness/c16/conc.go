//go:build verif

package c16

import (
	"context"
	"encoding/json"
	"fmt"
	"sort"
	"strconv"
	"strings"
	"testing"
	"testing/synctest"

	"github.com/gordian-engine/gordian/internal/zzverif/vx"
)

// Part 2 — concurrent: caller threads on the sync-shimmed copy of tmmemstore (zzshimstore),
// scheduled cooperatively by vx.Threads inside a synctest bubble. Scheduling points are the
// thread start and every Lock/RLock/Unlock/RUnlock of the store's mutex. ALL interleavings are
// enumerated (vx.ExploreSchedules with bound -1). For every complete execution the history of
// calls and returns (stamped with the scheduler's step counter) must be linearizable with
// respect to the reference model: some total order of the operations that respects real-time
// precedence (a returned before b was called) and program order reproduces every output.

func init() {
	registry.Execs["c16conc"] = execConc
}

// ---------------------------------------------------------------------------
// Scenario families over a store's collision alphabet C.
//   2x1   two threads, one op each          (unordered pairs)
//   2x2   two threads, two ops each         (unordered pairs of ordered pairs)
//   3x1   three threads, one op each        (multisets)
//   3x211 three threads, 2+1+1 ops
//   3x222 three threads, two ops each       (hand-picked per store, see picked222)
// A family name with the suffix "p" ("2x2p") ranges over the store's four most contended
// operations (picked4) instead of the whole collision alphabet.
// ---------------------------------------------------------------------------

type scenario [][]op

func (s scenario) String() string {
	parts := make([]string, len(s))
	for i, th := range s {
		parts[i] = opsString(th)
	}
	return strings.Join(parts, "|")
}

func parseScenario(s string) (scenario, error) {
	var out scenario
	for _, p := range strings.Split(s, "|") {
		ops, err := parseOps(p)
		if err != nil {
			return nil, err
		}
		out = append(out, ops)
	}
	return out, nil
}

func seqsOf(c []op, n int) [][]op {
	out := [][]op{{}}
	for i := 0; i < n; i++ {
		var next [][]op
		for _, s := range out {
			for _, o := range c {
				next = append(next, append(append([]op{}, s...), o))
			}
		}
		out = next
	}
	return out
}

func scenariosOf(kd *kind, family string) []scenario {
	c := kd.collide
	if strings.HasSuffix(family, "p") {
		c = picked4(kd)
		family = strings.TrimSuffix(family, "p")
	}
	var out []scenario
	switch family {
	case "2x1":
		for i := range c {
			for j := i; j < len(c); j++ {
				out = append(out, scenario{{c[i]}, {c[j]}})
			}
		}
	case "2x2":
		s2 := seqsOf(c, 2)
		for i := range s2 {
			for j := i; j < len(s2); j++ {
				out = append(out, scenario{s2[i], s2[j]})
			}
		}
	case "3x1":
		for i := range c {
			for j := i; j < len(c); j++ {
				for k := j; k < len(c); k++ {
					out = append(out, scenario{{c[i]}, {c[j]}, {c[k]}})
				}
			}
		}
	case "3x211":
		for _, a := range seqsOf(c, 2) {
			for j := range c {
				for k := j; k < len(c); k++ {
					out = append(out, scenario{a, {c[j]}, {c[k]}})
				}
			}
		}
	case "3x222":
		for _, s := range picked222[kd.name] {
			sc, err := parseScenario(s)
			if err != nil {
				panic(err)
			}
			out = append(out, sc)
		}
	default:
		panic("unknown scenario family " + family)
	}
	return out
}

// picked4: the four most contended ops of each store.
func picked4(kd *kind) []op {
	var names []string
	switch kd.name {
	case "action":
		names = []string{"SPV:0,0,0", "SPV:0,1,1", "SPC:0,0,0", "LA:0"}
	case "round":
		names = []string{"SPH:0,0,0", "SRH:0,0", "OPC:0,0", "LRS:0"}
	case "finalization":
		names = []string{"SF:0,0,0,0", "SF:0,1,1,1", "LF:0", "SF:1,0,0,0"}
	case "committed":
		names = []string{"SCH:0,0,0", "SCH:0,1,1", "LCH:0", "SCH:1,0,0"}
	case "validator":
		names = []string{"SPK:0", "SVP:0", "LV:0,0", "LPK:0"}
	default:
		return kd.collide[:4]
	}
	var out []op
	for _, n := range names {
		o, err := parseOp(n)
		if err != nil {
			panic(err)
		}
		out = append(out, o)
	}
	return out
}

// picked222: three threads with two colliding ops each (thorough tier; 10^5..10^6 schedules each),
// for the four stores with refusal rules or compound loads.
var picked222 = map[string][]string{
	"action": {
		"SPV:0,0,0;SPC:0,0,0|SPV:0,1,1;SPC:0,1,0|LA:0;LA:0",
		"SPH:0,0;SPV:0,0,0|SPH:0,1;SPC:0,1,0|SPC:0,0,0;LA:0",
	},
	"round": {
		"SPH:0,0,0;LRS:0|SRH:0,0;OPC:0,0|SPH:0,0,0;LRS:0",
	},
	"finalization": {
		"SF:0,0,0,0;LF:0|SF:0,1,1,1;LF:0|SF:0,0,1,0;LF:0",
	},
	"validator": {
		"SPK:0;LV:0,0|SVP:0;LV:0,0|SPK:0;LPK:0",
	},
}

// ---------------------------------------------------------------------------
// One execution under the cooperative scheduler.
// ---------------------------------------------------------------------------

type hrec struct {
	call, ret int
	out       string
	done      bool
}

type execution struct {
	pts      []vx.Point
	recs     [][]hrec
	deadlock string
	panics   []string
	schedule string
}

// wantSchedule: render the schedule as text (only needed for messages and samples).
var wantSchedule bool

func runSchedule(t *testing.T, kd *kind, sc scenario, choices []int) (ex execution) {
	ex.recs = make([][]hrec, len(sc))
	for i := range sc {
		ex.recs[i] = make([]hrec, len(sc[i]))
	}
	synctest.Test(t, func(t *testing.T) {
		ctx, cancel := context.WithCancel(context.Background())
		defer cancel()
		s := vx.NewThreads(ctx, choices)
		exec := kd.newImpl(shimFactory)
		for ti := range sc {
			ti := ti
			s.Go("T"+strconv.Itoa(ti), func(ctx context.Context) {
				for i, o := range sc[ti] {
					r := &ex.recs[ti][i]
					// The step counter identifies the release during which this code runs;
					// exactly one thread runs per step.
					r.call = len(s.Points)
					r.out = exec(ctx, o, true)
					r.ret = len(s.Points)
					r.done = true
				}
			})
		}
		s.Run()
		ex.pts = s.Points
		ex.deadlock = s.Deadlock
		ex.panics = s.Panics()
		if wantSchedule {
			ex.schedule = s.ScheduleString()
		}
		s.Stop()
	})
	return ex
}

// ---------------------------------------------------------------------------
// Linearizability by brute force.
// ---------------------------------------------------------------------------

type hop struct {
	thread, idx int
	o           op
	out         string
	call, ret   int
}

// precedes: a returned before b was called (real-time order), or program order.
func precedes(a, b *hop) bool {
	if a.thread == b.thread {
		return a.idx < b.idx
	}
	return a.ret < b.call
}

// linearize searches a total order consistent with precedes whose outputs the model allows.
func linearize(kd *kind, ops []hop) (ok bool, order []int, tried int) {
	n := len(ops)
	pred := make([]uint32, n) // bitmask of ops that must come before i
	for i := range ops {
		for j := range ops {
			if i != j && precedes(&ops[j], &ops[i]) {
				pred[i] |= 1 << uint(j)
			}
		}
	}
	var rec func(used uint32, st mstate, acc []int) bool
	rec = func(used uint32, st mstate, acc []int) bool {
		if len(acc) == n {
			order = append([]int{}, acc...)
			return true
		}
		for i := 0; i < n; i++ {
			if used&(1<<uint(i)) != 0 || pred[i]&^used != 0 {
				continue
			}
			for _, oc := range kd.apply(st, ops[i].o) {
				tried++
				if oc.out == ops[i].out {
					if rec(used|1<<uint(i), oc.st, append(acc, i)) {
						return true
					}
				}
			}
		}
		return false
	}
	ok = rec(0, kd.init(), nil)
	return
}

func historyOf(sc scenario, recs [][]hrec) (ops []hop, complete bool) {
	complete = true
	for ti := range sc {
		for i := range sc[ti] {
			r := recs[ti][i]
			if !r.done {
				complete = false
				continue
			}
			ops = append(ops, hop{thread: ti, idx: i, o: sc[ti][i], out: r.out, call: r.call, ret: r.ret})
		}
	}
	return
}

// historyKey: outputs plus the precedence relation (not the raw step numbers).
func historyKey(ops []hop) (key string, overlapping bool) {
	var sb strings.Builder
	for i := range ops {
		sb.WriteString(ops[i].out)
		sb.WriteByte(0)
	}
	for i := range ops {
		for j := range ops {
			if i == j {
				continue
			}
			if precedes(&ops[i], &ops[j]) {
				sb.WriteByte('<')
			} else {
				sb.WriteByte('.')
				if ops[i].thread != ops[j].thread && !precedes(&ops[j], &ops[i]) {
					overlapping = true
				}
			}
		}
	}
	return sb.String(), overlapping
}

func describeHistory(kd *kind, ops []hop) string {
	var sb strings.Builder
	for _, h := range ops {
		fmt.Fprintf(&sb, "      T%d.%d %s(%s) called@step %d returned@step %d -> %s\n", h.thread, h.idx, kd.methodOf(h.o), h.o.String(), h.call, h.ret, clip(h.out, 400))
	}
	return sb.String()
}

func methodsSig(kd *kind, sc scenario) string {
	var ms []string
	for _, th := range sc {
		for _, o := range th {
			ms = append(ms, kd.methodOf(o))
		}
	}
	sort.Strings(ms)
	// dedup
	out := ms[:0]
	for i, m := range ms {
		if i == 0 || m != ms[i-1] {
			out = append(out, m)
		}
	}
	return strings.Join(out, "+")
}

// ---------------------------------------------------------------------------
// Exploring one scenario (optionally only the subtree below a fixed choice prefix).
// ---------------------------------------------------------------------------

type concStats struct {
	executions   int64
	steps        int64
	linTried     int64
	histories    map[string]bool // history key -> linearizable
	overlapping  int64           // distinct histories with two overlapping ops of different threads
	resultVecs   map[string]struct{}
	maxPoints    int
	complete     bool
	violObs      map[string]any
	sampleHist   map[string]any
	linCacheHits int64
}

func intsString(v []int) string {
	ss := make([]string, len(v))
	for i, x := range v {
		ss[i] = strconv.Itoa(x)
	}
	return strings.Join(ss, ",")
}

func parseInts(s string) []int {
	if s == "" {
		return nil
	}
	var out []int
	for _, p := range strings.Split(s, ",") {
		n, _ := strconv.Atoi(p)
		out = append(out, n)
	}
	return out
}

// verboseRerun repeats an execution with full-text rendering and the schedule as text.
func verboseRerun(rerun func() execution) execution {
	verbose, wantSchedule = true, true
	defer func() { verbose, wantSchedule = false, false }()
	return rerun()
}

func checkExecution(kd *kind, sc scenario, ex execution, choices []int, st *concStats, res *vx.Result, rerun func() execution) {
	st.executions++
	st.steps += int64(len(ex.pts))
	if len(ex.pts) > st.maxPoints {
		st.maxPoints = len(ex.pts)
	}
	obs := func() {
		if st.violObs == nil {
			st.violObs = map[string]any{"store": kd.name, "threads": sc.String(), "schedule": intsString(choices)}
		}
	}
	ops, complete := historyOf(sc, ex.recs)
	if len(ex.panics) > 0 {
		obs()
		vex := verboseRerun(rerun)
		res.Violate("C16", fmt.Sprintf("conc:%s:panic:%s", kd.name, methodsSig(kd, sc)),
			fmt.Sprintf("store %s (sync-shimmed copy), threads %s\n    schedule: %s\n    choices: %s\n    panic: %s", kd.name, sc.String(), vex.schedule, intsString(choices), strings.Join(ex.panics, "; ")), len(ex.pts))
		return
	}
	if ex.deadlock != "" || !complete {
		obs()
		vex := verboseRerun(rerun)
		vops, _ := historyOf(sc, vex.recs)
		res.Violate("C16", fmt.Sprintf("conc:%s:deadlock:%s", kd.name, methodsSig(kd, sc)),
			fmt.Sprintf("store %s (sync-shimmed copy), threads %s\n    schedule: %s\n    choices: %s\n    no thread can run but not all finished: %s\n    completed operations:\n%s", kd.name, sc.String(), vex.schedule, intsString(choices), ex.deadlock, describeHistory(kd, vops)), len(ex.pts))
		return
	}
	key, overlapping := historyKey(ops)
	if _, seen := st.histories[key]; seen {
		st.linCacheHits++
		return // same outputs and same precedence relation: already judged (and reported)
	}
	ok, order, tried := linearize(kd, ops)
	st.linTried += int64(tried)
	st.histories[key] = ok
	if overlapping {
		st.overlapping++
	}
	var rv strings.Builder
	for i := range ops {
		rv.WriteString(ops[i].out)
		rv.WriteByte(0)
	}
	st.resultVecs[shortHash(rv.String())] = struct{}{}
	if !ok {
		obs()
		vex := verboseRerun(rerun)
		vops, _ := historyOf(sc, vex.recs)
		res.Violate("C16", fmt.Sprintf("conc:%s:not-linearizable:%s", kd.name, methodsSig(kd, sc)),
			fmt.Sprintf("store %s (sync-shimmed copy), threads %s\n    schedule: %s\n    choices: %s\n    history (no order of these operations that respects returned-before-called and program order is allowed by the contract):\n%s",
				kd.name, sc.String(), vex.schedule, intsString(choices), describeHistory(kd, vops)), len(ex.pts))
		return
	}
	if st.sampleHist == nil && overlapping && len(ops) >= 3 && len(st.resultVecs) >= 2 {
		vex := verboseRerun(rerun)
		vops, _ := historyOf(sc, vex.recs)
		var lo []string
		for _, i := range order {
			lo = append(lo, fmt.Sprintf("T%d.%d", ops[i].thread, ops[i].idx))
		}
		var hs []string
		for _, h := range vops {
			hs = append(hs, fmt.Sprintf("T%d.%d %s(%s) call@%d ret@%d -> %s", h.thread, h.idx, kd.methodOf(h.o), h.o.String(), h.call, h.ret, clip(h.out, 160)))
		}
		st.sampleHist = map[string]any{"part": "concurrent", "store": kd.name, "threads": sc.String(), "schedule": vex.schedule, "history": hs, "linearization_found": strings.Join(lo, " < ")}
	}
}

// exploreScenario enumerates every schedule below the fixed choice prefix.
func exploreScenario(t *testing.T, kd *kind, sc scenario, fixed []int, st *concStats, res *vx.Result, stop func() bool) bool {
	run := func(prefix []int) []vx.Point {
		full := append(append([]int{}, fixed...), prefix...)
		ex := runSchedule(t, kd, sc, full)
		choices := make([]int, len(ex.pts))
		for i, p := range ex.pts {
			choices[i] = p.Chosen
		}
		checkExecution(kd, sc, ex, choices, st, res, func() execution { return runSchedule(t, kd, sc, choices) })
		if len(ex.pts) < len(fixed) {
			return nil
		}
		return ex.pts[len(fixed):]
	}
	_, complete := vx.ExploreSchedules(-1, run, stop)
	return complete
}

// prefixesAt enumerates the nodes of the schedule tree at the given depth (or complete
// executions shorter than it). They partition the set of all schedules.
func prefixesAt(t *testing.T, kd *kind, sc scenario, depth int) [][]int {
	var out [][]int
	var rec func(prefix []int)
	rec = func(prefix []int) {
		if len(prefix) == depth {
			out = append(out, append([]int{}, prefix...))
			return
		}
		ex := runSchedule(t, kd, sc, prefix)
		if len(ex.pts) <= len(prefix) {
			out = append(out, append([]int{}, prefix...))
			return
		}
		n := len(ex.pts[len(prefix)].Enabled)
		for alt := 0; alt < n; alt++ {
			rec(append(append([]int{}, prefix...), alt))
		}
	}
	rec(nil)
	return out
}

// execConc. Args:
//   store, family, shard, nshards          — the scenarios i of the family with i % nshards == shard, each explored completely
//   store, threads [, schedule]            — one scenario; with schedule: exactly that choice vector (replay of a violation)
//   store, threads, pshard, npshards, pdepth — one scenario, only the schedule-tree prefixes j (at depth pdepth) with j % npshards == pshard
//   deadline (unix seconds, optional)
func execConc(t *testing.T, job vx.Job) (res vx.Result) {
	if skipLate(job, &res) {
		return
	}
	kd := kinds[job.Args["store"]]
	if kd == nil {
		res.HarnessErr = "unknown store " + job.Args["store"]
		return
	}
	stop := stopper(job)
	st := &concStats{histories: map[string]bool{}, resultVecs: map[string]struct{}{}}
	complete := true
	var nScen, nScenOverlap int64
	var distinctHist, distinctOverlap, distinctVecs int64

	finishScenario := func() {
		distinctHist += int64(len(st.histories))
		distinctOverlap += st.overlapping
		distinctVecs += int64(len(st.resultVecs))
		if st.overlapping > 0 {
			nScenOverlap++
		}
		st.histories = map[string]bool{}
		st.resultVecs = map[string]struct{}{}
		st.overlapping = 0
	}

	if th := job.Args["threads"]; th != "" {
		sc, err := parseScenario(th)
		if err != nil {
			res.HarnessErr = err.Error()
			return
		}
		nScen = 1
		if sched, ok := job.Args["schedule"]; ok {
			choices := parseInts(sched)
			ex := runSchedule(t, kd, sc, choices)
			checkExecution(kd, sc, ex, choices, st, &res, func() execution { return runSchedule(t, kd, sc, choices) })
		} else if job.Args["npshards"] != "" {
			pshard, _ := strconv.Atoi(job.Args["pshard"])
			npshards, _ := strconv.Atoi(job.Args["npshards"])
			pdepth, _ := strconv.Atoi(job.Args["pdepth"])
			for j, p := range prefixesAt(t, kd, sc, pdepth) {
				if j%npshards != pshard {
					continue
				}
				if !exploreScenario(t, kd, sc, p, st, &res, stop) {
					complete = false
					break
				}
			}
		} else {
			complete = exploreScenario(t, kd, sc, nil, st, &res, stop)
		}
		finishScenario()
	} else {
		shard, _ := strconv.Atoi(job.Args["shard"])
		nshards, _ := strconv.Atoi(job.Args["nshards"])
		if nshards <= 0 {
			nshards = 1
		}
		for i, sc := range scenariosOf(kd, job.Args["family"]) {
			if i%nshards != shard {
				continue
			}
			if !complete {
				break
			}
			nScen++
			if !exploreScenario(t, kd, sc, nil, st, &res, stop) {
				complete = false
			}
			finishScenario()
		}
	}
	if universeDigest() != universeAtInit {
		res.HarnessErr = "a store modified the argument values it was given (shared universe changed); results of this job are unreliable"
		return
	}
	res.Count("conc_scenarios", nScen)
	res.Count("conc_scenarios_with_overlap", nScenOverlap)
	res.Count("conc_executions", st.executions)
	res.Count("conc_schedule_steps", st.steps)
	res.Count("conc_distinct_histories", distinctHist)
	res.Count("conc_distinct_overlapping_histories", distinctOverlap)
	res.Count("conc_distinct_result_vectors", distinctVecs)
	res.Count("conc_linearization_candidates_tried", st.linTried)
	if !complete {
		res.Count("incomplete_jobs", 1)
	}
	res.Key = "conc:" + kd.name + ":" + job.Args["family"] + ":" + job.Args["shard"] + ":" + job.Args["threads"] + ":" + job.Args["pshard"]
	res.NonTrivial = distinctOverlap > 0
	res.Outcome = "conc-ok"
	if len(res.Viol) > 0 {
		res.Outcome = "conc-violation"
	}
	o := map[string]any{"max_points": st.maxPoints}
	if st.violObs != nil {
		o["viol"] = st.violObs
	}
	if st.sampleHist != nil {
		o["sample"] = st.sampleHist
	}
	res.Obs, _ = json.Marshal(o)
	return res
}
