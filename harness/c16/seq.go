//go:build verif

package c16

import (
	"context"
	"encoding/json"
	"fmt"
	"os"
	"sort"
	"strconv"
	"strings"
	"testing"
	"time"

	"github.com/gordian-engine/gordian/internal/zzverif/vx"
)

// Part 1 — sequential: every operation sequence of length exactly L over the store's alphabet
// (shorter sequences are its prefixes and are checked on the way) is run on a fresh real
// tmmemstore store; the output of every operation is compared with the reference model.
// After each complete sequence all keys are loaded once more (the "observation"); its rendering
// is the canonical store state, compared with the model as well.

func init() {
	registry.Execs["c16seq"] = execSeq
}

// stopper: true once the run's soft deadline (Args deadline, unix seconds) has passed or the job
// itself has been running for 100 s (the pool kills a job after 120 s).
func stopper(job vx.Job) func() bool {
	if os.Getenv("VERIF_ROLE") == "replay" {
		return func() bool { return false } // a replay runs the recorded job to its end
	}
	var deadline time.Time
	if d, err := strconv.ParseInt(job.Args["deadline"], 10, 64); err == nil && d > 0 {
		deadline = time.Unix(d, 0)
	}
	jobEnd := time.Now().Add(100 * time.Second)
	if deadline.IsZero() || jobEnd.Before(deadline) {
		deadline = jobEnd
	}
	n := 0
	stopped := false
	return func() bool {
		n++
		if !stopped && n%32 == 0 && time.Now().After(deadline) {
			stopped = true
		}
		return stopped
	}
}

// skipLate: a job that is started after the run's soft deadline does nothing and reports itself incomplete.
func skipLate(job vx.Job, res *vx.Result) bool {
	if os.Getenv("VERIF_ROLE") == "replay" {
		return false
	}
	d, err := strconv.ParseInt(job.Args["deadline"], 10, 64)
	if err != nil || d <= 0 || time.Now().Unix() <= d {
		return false
	}
	res.Count("incomplete_jobs", 1)
	res.Count("jobs_not_started_before_deadline", 1)
	res.Outcome = "skipped-after-deadline"
	return true
}

func opsString(ops []op) string {
	ss := make([]string, len(ops))
	for i, o := range ops {
		ss[i] = o.String()
	}
	return strings.Join(ss, ";")
}

func parseOps(s string) ([]op, error) {
	if s == "" {
		return nil, nil
	}
	var out []op
	for _, p := range strings.Split(s, ";") {
		o, err := parseOp(p)
		if err != nil {
			return nil, err
		}
		out = append(out, o)
	}
	return out, nil
}

// stepBelief advances the set of model states compatible with the outputs seen so far.
func stepBelief(kd *kind, belief []mstate, o op, out string) (next []mstate, expected []string) {
	seen := map[mstate]bool{}
	for _, st := range belief {
		for _, oc := range kd.apply(st, o) {
			if oc.out == out {
				if !seen[oc.st] {
					seen[oc.st] = true
					next = append(next, oc.st)
				}
			} else {
				expected = append(expected, oc.out)
			}
		}
	}
	return next, expected
}

type seqRun struct {
	stop       func() bool
	incomplete bool
	alphabet   []op
	kd       *kind
	L        int
	minCheck int // nodes at depth <= minCheck were checked by another job
	res      *vx.Result
	states   map[string]struct{}
	classes  map[string]int64
	nodes    int64
	implOps  int64
	leaves   int64
	sample   map[string]any
	sawErr   bool
	sawLoad  bool
	ctx      context.Context
}

func clip(s string, n int) string {
	if len(s) > n {
		return s[:n] + "…"
	}
	return s
}

// explain repeats the sequence (and the observation loads) on a fresh store in verbose rendering
// mode, following the model, and describes the first operation whose output the contract does
// not allow. It returns "" if everything is allowed (which would mean the digests collided).
func (r *seqRun) explain(seq []op) (text string, failing op, got string, want []string) {
	verbose = true
	defer func() { verbose = false }()
	defer func() {
		if p := recover(); p != nil {
			text = fmt.Sprintf("panic while repeating the sequence: %v", p)
		}
	}()
	exec := r.kd.newImpl(realFactory)
	belief := []mstate{r.kd.init()}
	var sb strings.Builder
	all := append(append([]op{}, seq...), r.kd.observe...)
	for i, o := range all {
		out := exec(r.ctx, o, true)
		tag := fmt.Sprintf("      %d. ", i+1)
		if i >= len(seq) {
			tag = "      observe: "
		}
		nb, expected := stepBelief(r.kd, belief, o, out)
		fmt.Fprintf(&sb, "%s%s(%s) -> %s\n", tag, r.kd.methodOf(o), o.String(), clip(out, 900))
		if len(nb) == 0 {
			sb.WriteString("         the contract allows here:\n")
			for _, e := range expected {
				fmt.Fprintf(&sb, "           %s\n", clip(e, 900))
			}
			return sb.String(), o, out, expected
		}
		belief = nb
	}
	return "", op{}, "", nil
}

func (r *seqRun) violate(seq []op, o op, observing bool) {
	text, failing, got, want := r.explain(seq)
	clause := ""
	if observing {
		clause = "observe-after:"
		if text == "" {
			failing = o
		}
	}
	wc := "none"
	if len(want) > 0 {
		wc = outClass(want[0])
	}
	sig := fmt.Sprintf("seq:%s:%s%s:got=%s:want=%s", r.kd.name, clause, r.kd.methodOf(failing), outClass(got), wc)
	if observing {
		sig = fmt.Sprintf("seq:%s:observe-after:%s:%s", r.kd.name, r.kd.methodOf(o), r.kd.methodOf(failing))
	}
	if text == "" {
		text = "      (the verbose repetition found no difference: digest collision or nondeterministic store)\n"
	}
	msg := fmt.Sprintf("store %s (real tmmemstore), operation sequence [%s] on a fresh store:\n%s", r.kd.name, opsString(seq), text)
	r.res.Violate("C16", sig, msg, len(seq))
}

// run executes seq on a fresh store; outputs are rendered for the last op only.
// With observe set, the observation loads are appended and their outputs returned too.
func (r *seqRun) run(seq []op, observe bool) (out string, obs []string, panicked string) {
	defer func() {
		if p := recover(); p != nil {
			panicked = fmt.Sprint(p)
		}
	}()
	exec := r.kd.newImpl(realFactory)
	for i, o := range seq {
		last := i == len(seq)-1
		s := exec(r.ctx, o, last)
		r.implOps++
		if last {
			out = s
		}
	}
	if observe {
		for _, o := range r.kd.observe {
			obs = append(obs, exec(r.ctx, o, true))
			r.implOps++
		}
	}
	return
}

func (r *seqRun) dfs(seq []op, belief []mstate) {
	if len(seq) == r.L {
		return
	}
	for _, o := range r.alphabet {
		if r.incomplete || r.stop() {
			r.incomplete = true
			return
		}
		next := append(seq[:len(seq):len(seq)], o)
		leaf := len(next) == r.L
		if len(next) <= r.minCheck {
			// Checked by the prefix job; only advance the model.
			nb, _ := stepBeliefModelOnly(r.kd, belief, o)
			r.dfs(next, nb)
			continue
		}
		out, obs, pan := r.run(next, leaf)
		r.nodes++
		if pan != "" {
			r.res.Violate("C16", fmt.Sprintf("seq:%s:panic:%s", r.kd.name, r.kd.methodOf(o)),
				fmt.Sprintf("store %s, sequence [%s]: panic: %s", r.kd.name, opsString(next), pan), len(next))
			continue
		}
		cls := outClass(out)
		r.classes[r.kd.methodOf(o)+"->"+cls]++
		if cls != "ok" {
			r.sawErr = true
		} else if strings.Contains(out, "=") && out != "err=nil" {
			r.sawLoad = true
		}
		nb, _ := stepBelief(r.kd, belief, o, out)
		if len(nb) == 0 {
			r.violate(next, o, false)
			continue
		}
		if leaf {
			r.leaves++
			key := strings.Join(obs, "\x00")
			r.states[shortHash(key)] = struct{}{}
			// The observation must be explained by one of the believed model states.
			okAny := false
			for _, st := range nb {
				cur := []mstate{st}
				ok := true
				for i, oo := range r.kd.observe {
					cur, _ = stepBelief(r.kd, cur, oo, obs[i])
					if len(cur) == 0 {
						ok = false
						break
					}
				}
				if ok {
					okAny = true
					break
				}
			}
			if !okAny {
				r.violate(next, o, true)
			}
			if r.sample == nil && cls != "ok" && len(next) >= 3 {
				r.sample = map[string]any{"part": "sequential", "store": r.kd.name, "sequence": opsString(next), "trace_verbose": r.trace(next)}
			}
			continue
		}
		r.dfs(next, nb)
	}
}

// trace repeats a sequence in verbose mode and lists every output (for evidence samples).
func (r *seqRun) trace(seq []op) []string {
	verbose = true
	defer func() { verbose = false }()
	exec := r.kd.newImpl(realFactory)
	var out []string
	for _, o := range seq {
		out = append(out, fmt.Sprintf("%s(%s) -> %s", r.kd.methodOf(o), o.String(), clip(exec(r.ctx, o, true), 240)))
	}
	for _, o := range r.kd.observe {
		out = append(out, fmt.Sprintf("observe %s(%s) -> %s", r.kd.methodOf(o), o.String(), clip(exec(r.ctx, o, true), 240)))
	}
	return out
}

func stepBeliefModelOnly(kd *kind, belief []mstate, o op) ([]mstate, []string) {
	seen := map[mstate]bool{}
	var next []mstate
	for _, st := range belief {
		for _, oc := range kd.apply(st, o) {
			if !seen[oc.st] {
				seen[oc.st] = true
				next = append(next, oc.st)
			}
		}
	}
	return next, nil
}

// execSeq: Args store, alphabet ("full", "core" or "mini"), prefix ("op;op"), depth, mincheck.
// All sequences of length depth that start with prefix; nodes of depth <= mincheck are not
// checked or counted here (the job with the empty prefix and depth = mincheck does that).
func execSeq(t *testing.T, job vx.Job) (res vx.Result) {
	if skipLate(job, &res) {
		return
	}
	kd := kinds[job.Args["store"]]
	if kd == nil {
		res.HarnessErr = "unknown store " + job.Args["store"]
		return
	}
	prefix, err := parseOps(job.Args["prefix"])
	if err != nil {
		res.HarnessErr = err.Error()
		return
	}
	L, _ := strconv.Atoi(job.Args["depth"])
	minCheck, _ := strconv.Atoi(job.Args["mincheck"])
	r := &seqRun{stop: stopper(job), alphabet: kd.alpha(job.Args["alphabet"]), kd: kd, L: L, minCheck: minCheck, res: &res, states: map[string]struct{}{}, classes: map[string]int64{}, ctx: context.Background()}

	// Walk the prefix on the model (its nodes are checked by the prefix job).
	belief := []mstate{kd.init()}
	for _, o := range prefix {
		belief, _ = stepBeliefModelOnly(kd, belief, o)
	}
	if len(prefix) > minCheck {
		res.HarnessErr = "prefix longer than mincheck"
		return
	}
	r.dfs(prefix, belief)

	if universeDigest() != universeAtInit {
		res.HarnessErr = "a store modified the argument values it was given (shared universe changed); results of this job are unreliable"
		return
	}
	if r.incomplete {
		res.Count("incomplete_jobs", 1)
	}
	res.Count("seq_nodes", r.nodes)
	if job.Args["prefixjob"] == "" {
		res.Count("seq_sequences", r.leaves)
	}
	res.Count("seq_impl_ops", r.implOps)
	for k, v := range r.classes {
		res.Count("seq_outcome:"+kd.name+":"+k, v)
	}
	res.Keys = make([]string, 0, len(r.states))
	for k := range r.states {
		res.Keys = append(res.Keys, k)
	}
	sort.Strings(res.Keys)
	res.Key = "seq:" + kd.name + ":" + job.Args["alphabet"] + ":" + job.Args["prefix"] + ":" + job.Args["depth"]
	res.NonTrivial = r.sawErr && r.sawLoad && len(r.states) >= 2
	res.Outcome = "seq-ok"
	if len(res.Viol) > 0 {
		res.Outcome = "seq-violation"
	}
	if r.sample != nil {
		res.Obs, _ = json.Marshal(map[string]any{"sample": r.sample})
	}
	return res
}
