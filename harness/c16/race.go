//go:build verif

package c16

import (
	"bytes"
	"context"
	"encoding/json"
	"fmt"
	"os"
	"os/exec"
	"path/filepath"
	"regexp"
	"sort"
	"strconv"
	"strings"
	"sync"
	"testing"
	"time"

	"github.com/gordian-engine/gordian/internal/zzverif/vx"
)

// Part 3 — the free-running companion pass. The cooperative scheduler cannot see accesses that
// are not protected by the mutex at all (its hand-offs are happens-before edges). Therefore the
// same thread bodies are run free (real goroutines, real sync, real tmmemstore, started together,
// no synchronisation between them besides the start signal) in a copy of this test binary built
// with -race. A "DATA RACE" report is a violation of "linearizable under concurrent use".
// As a by-product every free run's outputs must be linearizable with program order only.

const raceChildEnv = "C16_RACE_CHILD"

func init() {
	registry.Execs["c16race"] = execRace
}

type raceSpec struct {
	Store   string `json:"store"`
	Family  string `json:"family,omitempty"`
	Shard   int    `json:"shard"`
	NShards int    `json:"nshards"`
	Threads string `json:"threads,omitempty"`
	Reps    int    `json:"reps"`
	// Deadline (unix seconds): the child stops between scenarios after it and reports incomplete.
	Deadline int64 `json:"deadline,omitempty"`
}

type raceChildResult struct {
	Scenarios int64    `json:"scenarios"`
	Runs      int64    `json:"runs"`
	Ops       int64    `json:"ops"`
	Vectors   int64    `json:"distinct_result_vectors"`
	NonLin    []string `json:"nonlin,omitempty"`
	Panics    []string `json:"panics,omitempty"`
	Universe  bool     `json:"universe_intact"`
	Incomplete bool    `json:"incomplete,omitempty"`
}

const raceResultMarker = "C16RACE-RESULT "

// raceChildMain runs in the -race binary.
func raceChildMain(specJSON string) {
	var spec raceSpec
	if err := json.Unmarshal([]byte(specJSON), &spec); err != nil {
		fmt.Println("c16 race child: bad spec:", err)
		os.Exit(3)
	}
	kd := kinds[spec.Store]
	if kd == nil {
		fmt.Println("c16 race child: unknown store", spec.Store)
		os.Exit(3)
	}
	var scs []scenario
	if spec.Threads != "" {
		sc, err := parseScenario(spec.Threads)
		if err != nil {
			fmt.Println("c16 race child:", err)
			os.Exit(3)
		}
		scs = []scenario{sc}
	} else {
		for i, sc := range scenariosOf(kd, spec.Family) {
			if spec.NShards <= 1 || i%spec.NShards == spec.Shard {
				scs = append(scs, sc)
			}
		}
	}
	var out raceChildResult
	ctx := context.Background()
	for _, sc := range scs {
		if spec.Deadline > 0 && time.Now().Unix() > spec.Deadline {
			out.Incomplete = true
			break
		}
		fmt.Fprintf(os.Stderr, "C16RACE-SCENARIO %s %s\n", kd.name, sc.String())
		out.Scenarios++
		vecs := map[string]bool{}
		for rep := 0; rep < spec.Reps; rep++ {
			exec := kd.newImpl(realFactory)
			outs := make([][]string, len(sc))
			pans := make([]string, len(sc))
			start := make(chan struct{})
			var wg sync.WaitGroup
			for ti := range sc {
				ti := ti
				outs[ti] = make([]string, len(sc[ti]))
				wg.Add(1)
				go func() {
					defer wg.Done()
					defer func() {
						if p := recover(); p != nil {
							pans[ti] = fmt.Sprint(p)
						}
					}()
					<-start
					for i, o := range sc[ti] {
						outs[ti][i] = exec(ctx, o, true)
					}
				}()
			}
			close(start)
			wg.Wait()
			out.Runs++
			panicked := false
			for ti, p := range pans {
				if p != "" {
					panicked = true
					if len(out.Panics) < 3 {
						out.Panics = append(out.Panics, fmt.Sprintf("threads %s: T%d panicked: %s", sc.String(), ti, p))
					}
				}
			}
			if panicked {
				continue
			}
			var ops []hop
			var key strings.Builder
			for ti := range sc {
				for i := range sc[ti] {
					out.Ops++
					// call 0 / ret "infinity": no real-time order between threads is claimed.
					ops = append(ops, hop{thread: ti, idx: i, o: sc[ti][i], out: outs[ti][i], call: 0, ret: 1 << 30})
					key.WriteString(outs[ti][i])
					key.WriteByte(0)
				}
			}
			k := key.String()
			if _, seen := vecs[k]; seen {
				continue
			}
			ok, _, _ := linearize(kd, ops)
			vecs[k] = ok
			if !ok && len(out.NonLin) < 3 {
				out.NonLin = append(out.NonLin, fmt.Sprintf("threads %s (free-running, real tmmemstore): outputs not explained by any interleaving of the operations:\n%s", sc.String(), describeHistory(kd, ops)))
			}
		}
		out.Vectors += int64(len(vecs))
	}
	out.Universe = universeDigest() == universeAtInit
	b, _ := json.Marshal(out)
	fmt.Println(raceResultMarker + string(b))
}

var (
	reRaceFrame = regexp.MustCompile(`(?m)^\s+(github\.com/gordian-engine/gordian/\S+)\(\)\s*$`)
	reRaceHead  = regexp.MustCompile(`(?m)^(Write|Read|Previous write|Previous read|Atomic|Previous atomic)[a-z ]* at 0x[0-9a-f]+ by .*$`)
)

// raceSig names the two conflicting store methods of the first report.
func raceSig(store, report string) string {
	heads := reRaceHead.FindAllStringIndex(report, -1)
	var names []string
	for i, h := range heads {
		end := len(report)
		if i+1 < len(heads) {
			end = heads[i+1][0]
		}
		sec := report[h[1]:end]
		if j := strings.Index(sec, "\n\n"); j >= 0 {
			sec = sec[:j]
		}
		name := "?"
		for _, m := range reRaceFrame.FindAllStringSubmatch(sec, -1) {
			f := m[1]
			if strings.Contains(f, "/tmmemstore.") {
				name = f[strings.Index(f, "/tmmemstore.")+len("/tmmemstore."):]
				break
			}
		}
		if name == "?" {
			// e.g. the harness reading a returned value that aliases store-internal memory
			for _, m := range reRaceFrame.FindAllStringSubmatch(sec, -1) {
				if strings.Contains(m[1], "/zzverif/c16.") {
					name = "caller-reading-returned-value"
					break
				}
			}
		}
		names = append(names, name)
		if len(names) == 2 {
			break
		}
	}
	sort.Strings(names)
	return "race:" + store + ":" + strings.Join(names, "~")
}

func findRaceExe() string {
	if p := os.Getenv("VERIF_RACE_EXE"); p != "" {
		if _, err := os.Stat(p); err == nil {
			return p
		}
	}
	if bd := os.Getenv("VERIF_BUILD_DIR"); bd != "" {
		p := filepath.Join(bd, "c16.race.test")
		if _, err := os.Stat(p); err == nil {
			return p
		}
	}
	return ""
}

// execRace: Args store, family, shard, nshards, reps  or  store, threads, reps.
func execRace(t *testing.T, job vx.Job) (res vx.Result) {
	if skipLate(job, &res) {
		return
	}
	exe := findRaceExe()
	if exe == "" {
		res.HarnessErr = "no -race build of the c16 harness available (VERIF_RACE_EXE unset and <build dir>/c16.race.test missing)"
		return
	}
	spec := raceSpec{Store: job.Args["store"], Family: job.Args["family"], Threads: job.Args["threads"]}
	spec.Shard, _ = strconv.Atoi(job.Args["shard"])
	spec.NShards, _ = strconv.Atoi(job.Args["nshards"])
	spec.Reps, _ = strconv.Atoi(job.Args["reps"])
	if spec.Reps <= 0 {
		spec.Reps = 200
	}
	// The child stops by itself at the run's soft deadline or after 90 s; it is killed after 110 s.
	spec.Deadline = time.Now().Add(90 * time.Second).Unix()
	if d, err := strconv.ParseInt(job.Args["deadline"], 10, 64); err == nil && d > 0 && d < spec.Deadline && os.Getenv("VERIF_ROLE") != "replay" {
		spec.Deadline = d
	}
	cctx, ccancel := context.WithTimeout(context.Background(), 110*time.Second)
	defer ccancel()
	sb, _ := json.Marshal(spec)
	cmd := exec.CommandContext(cctx, exe, "-test.run", "^TestVerif$", "-test.timeout", "0")
	var env []string
	for _, e := range os.Environ() {
		if strings.HasPrefix(e, "GOMAXPROCS=") || strings.HasPrefix(e, "GOMEMLIMIT=") || strings.HasPrefix(e, "VERIF_ROLE=") || strings.HasPrefix(e, "GORACE=") {
			continue
		}
		env = append(env, e)
	}
	env = append(env, raceChildEnv+"="+string(sb), "GOMAXPROCS=4", "GORACE=halt_on_error=0")
	cmd.Env = env
	var stdout, stderr bytes.Buffer
	cmd.Stdout = &stdout
	cmd.Stderr = &stderr
	runErr := cmd.Run()
	so, se := stdout.String(), stderr.String()

	var child raceChildResult
	got := false
	for _, line := range strings.Split(so, "\n") {
		if strings.HasPrefix(line, raceResultMarker) {
			if err := json.Unmarshal([]byte(strings.TrimPrefix(line, raceResultMarker)), &child); err == nil {
				got = true
			}
		}
	}
	nRaces := strings.Count(se, "WARNING: DATA RACE")
	if nRaces > 0 {
		i := strings.Index(se, "WARNING: DATA RACE")
		report := se[i:]
		if j := strings.Index(report, "=================="); j >= 0 {
			report = report[:j]
		}
		scen := ""
		if k := strings.LastIndex(se[:i], "C16RACE-SCENARIO "); k >= 0 {
			scen = se[k+len("C16RACE-SCENARIO "):]
			if nl := strings.Index(scen, "\n"); nl >= 0 {
				scen = scen[:nl]
			}
		}
		if len(report) > 5000 {
			report = report[:5000]
		}
		sig := raceSig(spec.Store, report)
		if !strings.Contains(report, "/tmmemstore.") {
			// Both accesses outside the store: a bug of this harness, not a finding.
			res.HarnessErr = "race report without any tmmemstore frame (harness bug?):\n" + report
			return
		}
		res.Violate("C16", sig,
			fmt.Sprintf("race detector, free-running threads on the real tmmemstore (%d reports in this job); first report while running scenario [%s]:\n%s", nRaces, scen, report), 0)
	}
	if !got && cctx.Err() != nil && nRaces == 0 {
		// Killed at the time limit (overloaded machine): not a verdict, the run is marked incomplete.
		res.Count("incomplete_jobs", 1)
		res.Key = "race:" + spec.Store + ":" + spec.Family + ":" + job.Args["shard"] + ":" + spec.Threads
		res.Outcome = "race-timeout"
		return
	}
	if !got {
		if nRaces == 0 {
			tail := se
			if len(tail) > 3000 {
				tail = tail[len(tail)-3000:]
			}
			res.HarnessErr = fmt.Sprintf("race child produced no result (err=%v)\nstdout: %s\nstderr: %s", runErr, clip(so, 1000), tail)
			return
		}
	} else {
		if !child.Universe {
			res.HarnessErr = "a store modified the argument values it was given (race child)"
			return
		}
		for _, m := range child.NonLin {
			res.Violate("C16", "free:"+spec.Store+":not-linearizable", m, 0)
		}
		for _, m := range child.Panics {
			res.Violate("C16", "free:"+spec.Store+":panic", m, 0)
		}
	}
	if child.Incomplete || !got {
		res.Count("incomplete_jobs", 1)
	}
	res.Count("race_scenarios", child.Scenarios)
	res.Count("race_free_runs", child.Runs)
	res.Count("race_ops", child.Ops)
	res.Count("race_distinct_result_vectors", child.Vectors)
	res.Count("race_reports", int64(nRaces))
	res.Key = "race:" + spec.Store + ":" + spec.Family + ":" + job.Args["shard"] + ":" + spec.Threads
	// Non-trivial: for some scenario the free runs produced at least two different output vectors
	// (the threads really interleaved in more than one way).
	res.NonTrivial = child.Vectors > child.Scenarios
	res.Outcome = "race-clean"
	if nRaces > 0 {
		res.Outcome = "race-reported"
	}
	return res
}
