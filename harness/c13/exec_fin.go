//go:build verif

package c13

import (
	"bytes"
	"crypto/ed25519"
	"encoding/binary"
	"fmt"
	"math/big"
	"math/bits"
	"sort"

	"github.com/bits-and-blooms/bitset"
	"github.com/gordian-engine/gordian/gcrypto"
)

// Finalization family.
//
// A case assigns every candidate key to blocks (main, rest-a, rest-b). mode "part": each key is absent or in
// exactly one block (the quantifier's "partitions of signers over main/rest blocks"), main non-empty, rest
// blocks passed only when non-empty (CommitProofFinalizer never passes an empty one). mode "over": each key
// signs any subset of the blocks, at least one key signs twice — decided for the non-aggregating scheme only:
// a finalized BLS proof encodes every rest block in the key space left over by the earlier blocks, so it
// cannot express a double signer at all and gblsminsig's Finalize panics with a documented "BUG:" message
// when given one. That is recorded as an observation (counter), not as a C13 verdict; see doc.go.

type finCase struct {
	sets    [3]set // main, rest-a, rest-b
	overlap bool
}

func (fx *fixture) buildBlock(m int, S set, variant string) gcrypto.CommonMessageSignatureProof {
	p := fx.newProof(m)
	if variant == "sparse" {
		// receive the block as a peer would: leafwise sparse signatures through MergeSparse
		sp := gcrypto.SparseSignatureProof{PubKeyHash: fx.hash}
		for i := 0; i < fx.n; i++ {
			if S&(1<<uint(i)) != 0 {
				sp.Signatures = append(sp.Signatures, gcrypto.SparseSignature{KeyID: be16(i), Sig: bytes.Clone(fx.leaf[m][i])})
			}
		}
		p.MergeSparse(sp)
		return p
	}
	for i := fx.n - 1; i >= 0; i-- { // descending on purpose: aggregation order must not matter
		if S&(1<<uint(i)) != 0 {
			_ = p.AddSignature(fx.leaf[m][i], fx.keys[i])
		}
	}
	return p
}

func cloneFin(f gcrypto.FinalizedCommonMessageSignatureProof) gcrypto.FinalizedCommonMessageSignatureProof {
	g := f
	g.MainMessage = bytes.Clone(f.MainMessage)
	g.MainSignatures = cloneSigs(f.MainSignatures)
	if f.Rest != nil {
		g.Rest = map[string][]gcrypto.SparseSignature{}
		for k, v := range f.Rest {
			g.Rest[k] = cloneSigs(v)
		}
	}
	return g
}

func cloneSigs(s []gcrypto.SparseSignature) []gcrypto.SparseSignature {
	if s == nil {
		return nil
	}
	out := make([]gcrypto.SparseSignature, len(s))
	for i, e := range s {
		out[i] = gcrypto.SparseSignature{KeyID: cloneKeepNil(e.KeyID), Sig: cloneKeepNil(e.Sig)}
	}
	return out
}

func runFinShard(fx *fixture, args map[string]string, col *collector) {
	mode := args["mode"]
	lo, hi := atoiDef(args["lo"], 0), atoiDef(args["hi"], 0)
	withMuts := args["muts"] == "1"
	base := 4
	if mode == "over" {
		base = 8
	}
	for idx := lo; idx < hi; idx++ {
		var fc finCase
		v := idx
		for i := 0; i < fx.n; i++ {
			d := v % base
			v /= base
			if mode == "part" {
				if d > 0 {
					fc.sets[d-1] |= 1 << uint(i)
				}
			} else {
				for b := 0; b < 3; b++ {
					if d&(1<<uint(b)) != 0 {
						fc.sets[b] |= 1 << uint(i)
					}
				}
			}
		}
		if fc.sets[0] == 0 {
			continue
		}
		fc.overlap = fc.sets[0]&fc.sets[1] != 0 || fc.sets[0]&fc.sets[2] != 0 || fc.sets[1]&fc.sets[2] != 0
		if mode == "over" && !fc.overlap {
			continue // partitions are enumerated by mode "part"
		}
		if fx.scheme == "bls" && fc.overlap {
			fx.observeBLSOverlap(fc, col)
			continue
		}
		fx.finCaseRun(fc, withMuts, col)
	}
}

func (fc finCase) String() string {
	return fmt.Sprintf("main=%s rest-a=%s rest-b=%s", setStr(fc.sets[0]), setStr(fc.sets[1]), setStr(fc.sets[2]))
}

func (fx *fixture) finalize(fc finCase, variant string, order []int) (fin gcrypto.FinalizedCommonMessageSignatureProof, pi *panicInfo) {
	main := fx.buildBlock(mMain, fc.sets[0], variant)
	var rest []gcrypto.CommonMessageSignatureProof
	for _, m := range order {
		rest = append(rest, fx.buildBlock(m, fc.sets[m], variant))
	}
	pi = safely(func() { fin = fx.sch.Finalize(main, rest) })
	return fin, pi
}

func (fx *fixture) finCaseRun(fc finCase, withMuts bool, col *collector) {
	var present []int
	for m := 1; m <= 2; m++ {
		if fc.sets[m] != 0 {
			present = append(present, m)
		}
	}
	orders := [][]int{present}
	if len(present) == 2 {
		orders = append(orders, []int{present[1], present[0]})
	}
	variants := []string{"leaf", "sparse"}
	shape := "partition"
	if fc.overlap {
		shape = "double-signer"
	}
	var firstFin *gcrypto.FinalizedCommonMessageSignatureProof
	for _, variant := range variants {
		for _, order := range orders {
			col.count("cases", 1)
			col.count("finalize_roundtrips", 1)
			desc := fmt.Sprintf("%s n=%d %s (blocks built by %s, rest passed in order %v)", fx.scheme, fx.n, fc, variant, order)
			fin, pi := fx.finalize(fc, variant, order)
			if pi != nil {
				col.violate(fmt.Sprintf("panic:%s:Finalize@%s:%s", fx.scheme, pi.frame, shape), fmt.Sprintf("%s: Finalize panics: %s", desc, pi.val))
				continue
			}
			if firstFin == nil {
				f := cloneFin(fin)
				firstFin = &f
			}
			var got map[string]*bitset.BitSet
			var unique bool
			arg := cloneFin(fin)
			if pi := safely(func() { got, unique = fx.sch.ValidateFinalizedProof(arg, fx.hashes) }); pi != nil {
				col.violate(fmt.Sprintf("panic:%s:ValidateFinalizedProof@%s:own-output:%s", fx.scheme, pi.frame, shape), fmt.Sprintf("%s: ValidateFinalizedProof of Finalize's own output panics: %s", desc, pi.val))
				continue
			}
			want := map[string]set{"H0": fc.sets[0]}
			for _, m := range present {
				want[fmt.Sprintf("H%d", m)] = fc.sets[m]
			}
			bad := ""
			if got == nil {
				bad = "returned a nil map"
			} else {
				if len(got) != len(want) {
					bad = fmt.Sprintf("returned %d blocks, want %d", len(got), len(want))
				}
				for h, w := range want {
					s, ok := bitsOfBS(got[h])
					if got[h] == nil || !ok || s != w {
						bad = fmt.Sprintf("block %s has signer set %s, want %s", h, setStr(s), setStr(w))
					}
				}
			}
			if bad != "" {
				col.violate(fmt.Sprintf("finalize:%s:roundtrip-sets:%s", fx.scheme, shape), fmt.Sprintf("%s: ValidateFinalizedProof(Finalize(...)) %s", desc, bad))
			}
			if unique != !fc.overlap {
				col.violate(fmt.Sprintf("finalize:%s:allSignaturesUnique=%v:%s", fx.scheme, unique, shape),
					fmt.Sprintf("%s: allSignaturesUnique=%v, double signers present=%v", desc, unique, fc.overlap))
			}
			col.outcome(fmt.Sprintf("finalize:%s:blocks=%d:unique=%v:ok=%v", shape, len(want), unique, bad == ""))
			col.class(fmt.Sprintf("%s/%d/fin/%x/%x/%x", fx.scheme, fx.n, fc.sets[0], fc.sets[1], fc.sets[2]))
			if col.sample == "" && len(present) == 2 {
				col.sample = fmt.Sprintf("%s => Finalize => ValidateFinalizedProof => %d blocks, allSignaturesUnique=%v", desc, len(got), unique)
			}
		}
	}
	if withMuts && firstFin != nil {
		fx.finMutations(fc, *firstFin, present, col)
	}
}

// observeBLSOverlap records what gblsminsig does with double signers (not a verdict, see the family comment).
func (fx *fixture) observeBLSOverlap(fc finCase, col *collector) {
	var present []int
	for m := 1; m <= 2; m++ {
		if fc.sets[m] != 0 {
			present = append(present, m)
		}
	}
	col.count("bls_double_signer_observations", 1)
	_, pi := fx.finalize(fc, "leaf", present)
	if pi != nil {
		col.count("bls_double_signer_finalize_panics", 1)
		col.outcome("observation:bls-finalize-double-signer:panic@" + pi.frame)
	} else {
		col.count("bls_double_signer_finalize_returns", 1)
		col.outcome("observation:bls-finalize-double-signer:returns")
	}
}

type finMut struct {
	tag   string
	apply func(f *gcrypto.FinalizedCommonMessageSignatureProof)
}

// blockSigs returns a pointer-ish accessor to the signature list of block m in f.
func getBlock(f *gcrypto.FinalizedCommonMessageSignatureProof, fx *fixture, m int) []gcrypto.SparseSignature {
	if m == mMain {
		return f.MainSignatures
	}
	return f.Rest[string(fx.msgs[m])]
}

func setBlock(f *gcrypto.FinalizedCommonMessageSignatureProof, fx *fixture, m int, s []gcrypto.SparseSignature) {
	if m == mMain {
		f.MainSignatures = s
		return
	}
	f.Rest[string(fx.msgs[m])] = s
}

func (fx *fixture) finMutations(fc finCase, fin gcrypto.FinalizedCommonMessageSignatureProof, present []int, col *collector) {
	blocks := append([]int{mMain}, present...)
	// key space of each block in the BLS encoding, by the documented order (count descending, sign content ascending)
	space := map[int]int{mMain: fx.n}
	if fx.scheme == "bls" {
		ord := append([]int{}, present...)
		sort.Slice(ord, func(i, j int) bool {
			ci, cj := bits.OnesCount64(fc.sets[ord[i]]), bits.OnesCount64(fc.sets[ord[j]])
			if ci != cj {
				return ci > cj
			}
			return bytes.Compare(fx.msgs[ord[i]], fx.msgs[ord[j]]) < 0
		})
		left := fx.n - bits.OnesCount64(fc.sets[0])
		for _, m := range ord {
			space[m] = left
			left -= bits.OnesCount64(fc.sets[m])
		}
	}
	infSig := make([]byte, 48)
	infSig[0] = 0xc0

	for _, m := range blocks {
		m := m
		orig := getBlock(&fin, fx, m)
		if len(orig) == 0 {
			continue
		}
		var muts []finMut
		add := func(tag string, f func(s []gcrypto.SparseSignature) []gcrypto.SparseSignature) {
			muts = append(muts, finMut{tag, func(g *gcrypto.FinalizedCommonMessageSignatureProof) {
				setBlock(g, fx, m, f(getBlock(g, fx, m)))
			}})
		}
		// positions mutated: first and last entry
		pos := []int{0}
		if len(orig) > 1 {
			pos = append(pos, len(orig)-1)
		}
		for _, k := range pos {
			k := k
			setID := func(tag string, id []byte) {
				add(tag, func(s []gcrypto.SparseSignature) []gcrypto.SparseSignature { s[k].KeyID = id; return s })
			}
			setSig := func(tag string, sig []byte) {
				add(tag, func(s []gcrypto.SparseSignature) []gcrypto.SparseSignature { s[k].Sig = sig; return s })
			}
			id := orig[k].KeyID
			setID("idshort-nil", nil)
			setID("idshort-len0", []byte{})
			setID("idshort-len1", []byte{id[len(id)-1]})
			setSig("signil", nil)
			setSig("sigempty", []byte{})
			setSig("sigtrunc", bytes.Clone(orig[k].Sig[:len(orig[k].Sig)-1]))
			setSig("sigflip", flipBit(orig[k].Sig))
			for _, m2 := range blocks {
				if m2 != m {
					setSig("sig-of-other-block", bytes.Clone(getBlock(&fin, fx, m2)[0].Sig))
				}
			}
			if fx.scheme == "simple" {
				setID("idlen3", append(bytes.Clone(id), 0))
				setID("idrange", be16(fx.n))
				setID("idffff", []byte{0xff, 0xff})
				for j := 0; j < fx.n; j++ {
					if !bytes.Equal(be16(j), id) {
						setID("idswap", be16(j))
					}
				}
				// same key's signature over another block's message
				i := int(binary.BigEndian.Uint16(id))
				for m2 := 0; m2 < nMsgs; m2++ {
					if m2 != m {
						setSig("sig-over-other-message", bytes.Clone(fx.leaf[m2][i]))
					}
				}
			} else {
				sp := space[m]
				kk := int(binary.BigEndian.Uint16(id[:2]))
				idxBytes := id[2:]
				mk := func(k int, idx []byte) []byte { return append(be16(k), idx...) }
				setID("k=0", mk(0, nil))
				setID("k=0+index", mk(0, []byte{1}))
				setID("k=space+1", mk(sp+1, idxBytes))
				setID("k=ffff", mk(0xffff, idxBytes))
				total := new(big.Int).Binomial(int64(sp), int64(kk))
				setID("index=C(n,k)", mk(kk, total.Bytes()))
				setID("index=huge", mk(kk, []byte{0xff, 0xff, 0xff, 0xff, 0xff}))
				if total.Cmp(big.NewInt(1)) > 0 {
					next := new(big.Int).SetBytes(idxBytes)
					next.Add(next, big.NewInt(1)).Mod(next, total)
					setID("index+1", mk(kk, next.Bytes()))
				}
				setID("index-zero-padded", mk(kk, append([]byte{0}, idxBytes...)))
				if len(idxBytes) > 0 {
					setID("index-truncated", mk(kk, idxBytes[:len(idxBytes)-1]))
				}
				if kk > 1 {
					setID("k-1", mk(kk-1, idxBytes))
				}
				if kk+1 <= sp {
					setID("k+1", mk(kk+1, idxBytes))
				}
				setSig("siginf", infSig)
			}
		}
		add("list-empty", func(s []gcrypto.SparseSignature) []gcrypto.SparseSignature { return []gcrypto.SparseSignature{} })
		add("list-nil", func(s []gcrypto.SparseSignature) []gcrypto.SparseSignature { return nil })
		add("list-duplicated-entry", func(s []gcrypto.SparseSignature) []gcrypto.SparseSignature {
			return append(s, gcrypto.SparseSignature{KeyID: bytes.Clone(s[0].KeyID), Sig: bytes.Clone(s[0].Sig)})
		})
		// the whole list of this block swapped with another block's list
		for _, m2 := range blocks {
			if m2 > m {
				m2 := m2
				muts = append(muts, finMut{"lists-swapped", func(g *gcrypto.FinalizedCommonMessageSignatureProof) {
					a, b := getBlock(g, fx, m), getBlock(g, fx, m2)
					setBlock(g, fx, m, b)
					setBlock(g, fx, m2, a)
				}})
			}
		}

		blockName := "rest"
		if m == mMain {
			blockName = "main"
		}
		for _, mu := range muts {
			g := cloneFin(fin)
			mu.apply(&g)
			col.count("cases", 1)
			col.count("finalized_mutations", 1)
			desc := func() string {
				return fmt.Sprintf("%s n=%d %s, finalized proof with %s block mutated (%s): main=%s rest=%s", fx.scheme, fx.n, fc, blockName, mu.tag, sigsStr(g.MainSignatures), restStr(g.Rest))
			}
			var got map[string]*bitset.BitSet
			var unique bool
			arg := cloneFin(g)
			if pi := safely(func() { got, unique = fx.sch.ValidateFinalizedProof(arg, fx.hashes) }); pi != nil {
				col.violate(fmt.Sprintf("panic:%s:ValidateFinalizedProof@%s:%s:%s", fx.scheme, pi.frame, mu.tag, blockName),
					fmt.Sprintf("%s: ValidateFinalizedProof panics: %s", desc(), pi.val))
				col.outcome("finmut:" + mu.tag + ":panic")
				continue
			}
			col.outcome(fmt.Sprintf("finmut:%s:nilmap=%v:unique=%v", mu.tag, got == nil, unique))
			col.class(fmt.Sprintf("%s/%d/finmut/%s/%s/%v", fx.scheme, fx.n, blockName, mu.tag, got == nil))
			// Soundness: whatever is reported must be backed by signatures that verify (harness's verdict).
			for h, bs := range got {
				var mm int
				if _, err := fmt.Sscanf(h, "H%d", &mm); err != nil || mm < 0 || mm >= nMsgs {
					col.violate(fmt.Sprintf("finalize:%s:unknown-hash-in-result:%s", fx.scheme, mu.tag), fmt.Sprintf("%s: result names block %q", desc(), h))
					continue
				}
				S, ok := bitsOfBS(bs)
				if !ok || S&^fx.full() != 0 {
					col.violate(fmt.Sprintf("finalize:%s:bit-beyond-keys:%s", fx.scheme, mu.tag), fmt.Sprintf("%s: block %s reports signer set %s", desc(), h, setStr(S)))
					continue
				}
				list := getBlock(&g, fx, mm)
				if !fx.backed(mm, S, list) {
					col.violate(fmt.Sprintf("finalize:%s:unverified-signer-reported:%s:%s", fx.scheme, blockName, mu.tag),
						fmt.Sprintf("%s: block %s reports signer set %s which the signatures in the input do not prove", desc(), h, setStr(S)))
				}
			}
		}
	}
}

// backed: the signatures in list prove that exactly the keys of S signed msgs[m].
func (fx *fixture) backed(m int, S set, list []gcrypto.SparseSignature) bool {
	if S == 0 {
		return true
	}
	if fx.scheme == "simple" {
		for i := 0; i < fx.n; i++ {
			if S&(1<<uint(i)) == 0 {
				continue
			}
			found := false
			for _, e := range list {
				if ed25519.Verify(fx.edPub[i], fx.msgs[m], e.Sig) {
					found = true
					break
				}
			}
			if !found {
				return false
			}
		}
		return true
	}
	for _, e := range list {
		if bytes.Equal(e.Sig, fx.agg(m, S)) {
			return true
		}
	}
	return false
}

func sigsStr(s []gcrypto.SparseSignature) string {
	out := "["
	for i, e := range s {
		if i > 0 {
			out += " "
		}
		sg := fmt.Sprintf("%x", e.Sig)
		if len(sg) > 12 {
			sg = sg[:12] + "…"
		}
		out += fmt.Sprintf("{id=%x sig=%s(%dB)}", e.KeyID, sg, len(e.Sig))
	}
	return out + "]"
}

func restStr(r map[string][]gcrypto.SparseSignature) string {
	ks := make([]string, 0, len(r))
	for k := range r {
		ks = append(ks, k)
	}
	sort.Strings(ks)
	out := ""
	for _, k := range ks {
		out += fmt.Sprintf("%q:%s ", k, sigsStr(r[k]))
	}
	return out
}
