//go:build verif

// Package c13 decides property C13 — "signature proofs merge as verified set union and round-trip" —
// by bounded exhaustive enumeration on gcrypto.SimpleCommonMessageSignatureProofScheme (ed25519) and
// gblsminsig.SignatureProofScheme (BLS). Families: seq, cor, clone (exec_merge.go, ops.go) and fin (exec_fin.go);
// bounds per tier in check.go; ground truth in fixture.go.
//
// # Findings on the unchanged tree (known_findings.d/C13.json)
//
// Every item was replayed (./vcheck replay) and traced in the code. The clause of the statement it contradicts is
// "arbitrary sparse or finalized input never panics" (F1-F5) or "the reported merge flags match what happened" (F6).
//
// F1 and F2 were repaired in /repo by commit 6c4582b ("fix: reject sparse signatures whose key id is not two bytes in
// MergeSparse", the fix proposed below) after this check reported them; their entries are status=fixed and suppress nothing.
//
// F1  panic:simple:MergeSparse@gcrypto.SimpleCommonMessageSignatureProof.MergeSparse:idshort-{len0,len1,nil}
//
//	input    n=1, fresh proof, MergeSparse({PubKeyHash ok, Signatures: [{KeyID: nil | []byte{} | 1 byte, Sig: valid}]})
//	observed runtime error: index out of range [1] with length 0 (resp. 1)
//	expected no panic, set unchanged, AllValidSignatures=false (what gblsminsig does with len(KeyID) != 2)
//	code     gcrypto/simplecommonmessagesignatureproof.go:337  binary.BigEndian.Uint16(sparseSig.KeyID), no length check
//	         (HasSparseKeyID and beUint16KeyLenIDChecker in the same file do check len != 2)
//
// F2  panic:simple:ValidateFinalizedProof@gcrypto.SimpleCommonMessageSignatureProof.MergeSparse:idshort-*:{main,rest}
//
//	input    n=3 main={1} rest-a={0}: Finalize, then one KeyID of the main or a rest block made nil/empty/1 byte
//	observed the F1 panic through ValidateFinalizedProof -> MergeSparse (lines 75, 95)
//	reach    tmmirror.(*Mirror).HandleProposedHeader (mirror.go:370) hands a header's PrevCommitProof from the network
//	         to ValidateFinalizedProof; unlike the vote path it does not filter key ids with KeyIDChecker first
//	fix      (F1+F2; tried in a scratch copy: both signatures disappear, gcrypto tests pass)
//	         in MergeSparse's loop, before Uint16:  if len(sparseSig.KeyID) != 2 { res.AllValidSignatures = false; continue }
//
// F3  panic:bls:MergeSparse@gcrypto/gblsminsig.SignatureProof.MergeSparse:sig{empty,nil,trunc,flip}
//
//	input    n=3, proof holding key 0, MergeSparse({KeyID 0x0000, Sig: 0 bytes | 47 bytes | 48 bytes not on the curve})
//	observed runtime error: invalid memory address or nil pointer dereference
//	expected no panic, AllValidSignatures=false
//	code     gcrypto/gblsminsig/signatureproof.go:252-254  sig.Uncompress returns nil, haveSig.Equals(sig) takes &sig.cgo
//	         (AddSignature lines 105-113 has the same pattern; not exercised, it is documented for the local signature only)
//	fix      if sig == nil || !haveSig.Equals(sig) { res.AllValidSignatures = false }     (tried, works)
//	         — the tempting "sig != nil && ..." is mutant M3 and is reported by the check
//
// F4  panic:bls:ValidateFinalizedProof@gcrypto/gblsminsig.decodeCombinationIndex:k=0*
//
//	input    n=2 main={0}: finalized key id 00 01 replaced by 00 00 (or 00 00 01), main or rest block
//	observed BUG: never call decodeCombinationIndex with k=0
//	code     gcrypto/gblsminsig/signatureproofscheme.go:433-446 and 501-514 only reject k > n
//
// F5  panic:bls:ValidateFinalizedProof@gcrypto/gblsminsig.binomialCoefficient:{index=C(n,k),index=huge,k+1,k-1,k=space+1}:{main,rest}
//
//	input    n=2 main={0} (key id 00 01 = k 1, index 0): key id 00 01 02 (index 2 = C(2,1)), 00 01 ff ff ff ff ff,
//	         or the count changed with the index kept (n=2 main={1}: 00 01 01 -> 00 02 01)
//	observed BUG: k(0) > n(-1): caller needs to prevent this case
//	code     decodeCombinationIndex (signatureproofscheme.go:568-600) runs curr up to nKeys when index >= C(nKeys,k),
//	         then calls binomialCoefficient(-1, ..) which panics (655-659); nothing bounds the index before the call
//	fix      (F4+F5; tried: both signatures disappear, gblsminsig tests pass) in ValidateFinalizedProof, main and rest:
//	         if k == 0 || k > n { return nil, false };  binomialCoefficient(n, k, &max); if combIndex.Cmp(&max) >= 0 { return nil, false }
//	reach    HandleProposedHeader, like F2
//
// F6  flag:bls:MergeSparse:WasStrictSuperset=false-want-true:ok
//
//	input    n=3, proof {1}, MergeSparse of a valid sparse proof for {0,1} (any strict superset; also onto an empty proof)
//	observed {AllValid:true Increased:true WasStrictSuperset:false}; Merge of the same sets and the simple scheme say true,
//	         and gordian's compliance suite ("MergeSparse/one element") requires true but is only run for ed25519
//	code     gcrypto/gblsminsig/signatureproof.go:261  "TODO: how to check WasStrictSuperset?"
//	         no non-test caller reads the flag today; no small fix proposed
//
// # Observations recorded but not counted against C13
//
//   - gblsminsig Finalize panics ("BUG: proof that signed ... said it represented original key at index ...",
//     signatureproofscheme.go:253) whenever one key signed two blocks: counters bls_double_signer_*. A finalized BLS proof
//     encodes each rest block in the key space left by earlier blocks and cannot express a double signer. The quantifier of C13
//     says "partitions", DESIGN.md restricts the double-signer clause to the non-aggregating scheme, so no verdict here; but
//     tsi.CommitProofFinalizer.Finalize passes stored precommits on without removing double signers, so a validator that
//     precommits a block and nil crashes the next proposer's state machine under BLS (C09 territory).
//   - Before 6c4582b the simple scheme read an over-long key id by its first two bytes (MergeSparse and ValidateFinalizedProof accepted
//     a 3-byte id) while its own HasSparseKeyID/KeyIDChecker call that id invalid. The statement does not fix the reading; both are accepted.
//   - WasStrictSuperset for two empty proofs (Merge true, MergeSparse false) and for a strict superset containing an invalid entry
//     (Merge false, simple MergeSparse true as the compliance suite demands) are left unchecked as ambiguous.
//
// # Mutants the quick tier was validated against (scratch copies; all reported VIOLATION property=C13; gcrypto tests pass on each)
//
//	M1 simple Clone shares the sigs map                          -> clone:simple:Clone:{origin,copy}-changed-by-*
//	M2 simple MergeSparse IsSuperSet instead of IsStrictSuperSet -> flag:simple:MergeSparse:WasStrictSuperset=true-want-false:ok
//	M3 BLS MergeSparse "sig != nil && !haveSig.Equals(sig)"      -> flag:bls:MergeSparse:AllValidSignatures=true-with-invalid-offer:sig*
//	M4 BLS Finalize orders rest blocks by sign content only      -> finalize:bls:roundtrip-sets:partition
//	M5 simple ValidateFinalizedProof compares double signers with the first block only -> finalize:simple:allSignaturesUnique=true:double-signer
//	M6 BLS Merge IncreasedSignatures=true whenever a signature was stored -> flag:bls:Merge:IncreasedSignatures=true-but-grew=false:ok
//	M7 sigtree.Clone shares SigBits                              -> clone:bls:Clone:*, flag:bls:Merge:IncreasedSignatures=false-but-grew=true:ok
package c13
