//go:build verif

package c13

import (
	"encoding/json"
	"fmt"
	"sort"
	"strconv"

	"github.com/gordian-engine/gordian/internal/zzverif/vx"
)

func init() {
	registry.Checks["C13"] = checkC13
}

// bounds of one tier for one scheme. A zero means "family not run for that n".
type bounds struct {
	seqDepth3  int // sequences of length <= 3 over the full alphabet for n <= this
	seqDepth2  int // sequences of length <= 2 for n <= this (beyond seqDepth3)
	corPre2    int // corrupted offers after every base sequence of length 2 for n <= this
	corPre1    int // ... after every base sequence of length 1 for n <= this
	corPre0    int // ... on receivers holding nothing / the offer's own keys / every key (built both ways) for n <= this
	clonePre2  int
	clonePre1  int
	finPart    int // every partition through Finalize/ValidateFinalizedProof for n <= this
	finMuts    int // ... and every listed mutation of every such finalized proof for n <= this
	finOver    int // every assignment with double signers for n <= this (BLS: observation only)
	seqTarget  int // sequences per shard
	finTarget  int // assignments per shard
	corTarget  int // corrupted offers per shard
}

func tierBounds(quick bool, scheme string) bounds {
	if scheme == "simple" {
		if quick {
			return bounds{seqDepth3: 4, seqDepth2: 5, corPre2: 2, corPre1: 4, corPre0: 5, clonePre2: 2, clonePre1: 5, finPart: 5, finMuts: 4, finOver: 4,
				seqTarget: 8000, finTarget: 64, corTarget: 4000}
		}
		return bounds{seqDepth3: 5, seqDepth2: 7, corPre2: 4, corPre1: 6, corPre0: 7, clonePre2: 4, clonePre1: 7, finPart: 7, finMuts: 6, finOver: 5,
			seqTarget: 30000, finTarget: 256, corTarget: 8000}
	}
	if quick {
		return bounds{seqDepth3: 3, seqDepth2: 4, corPre2: 0, corPre1: 3, corPre0: 4, clonePre2: 0, clonePre1: 3, finPart: 5, finMuts: 4, finOver: 3,
			seqTarget: 1200, finTarget: 16, corTarget: 600}
	}
	return bounds{seqDepth3: 4, seqDepth2: 7, corPre2: 2, corPre1: 4, corPre0: 7, clonePre2: 3, clonePre1: 5, finPart: 7, finMuts: 6, finOver: 4,
		seqTarget: 4000, finTarget: 64, corTarget: 1500}
}

type plannedJob struct {
	job  vx.Job
	cost float64
}

func pow(b, e int) int {
	r := 1
	for i := 0; i < e; i++ {
		r *= b
	}
	return r
}

func checkC13(c *vx.Ctx) {
	c.Level = "exploration"
	c.Rule = "bounded exhaustive enumeration on the real proof schemes (ed25519 simple scheme and BLS min-sig): " +
		"(seq) every sequence of Merge/MergeSparse/AddSignature operations up to the stated length over every signer subset and every way of building the offer, checked step by step against the harness's own set model and flag rules, followed by the sparse round trip; " +
		"(cor) every single-entry corruption of every sparse offer after every state-establishing sequence; (clone) Clone/Derive followed by every operation on either side; " +
		"(fin) every assignment of keys to main/rest blocks through Finalize and ValidateFinalizedProof plus every listed mutation of the finalized proof. " +
		"evaluations = law-checked cases (one sequence, one corrupted offer, one clone case, one finalize round trip or one mutated finalized proof). " +
		"A case is non-trivial when at least one signature was offered and the signer set changed or an invalid offer had to be refused; distinct_nontrivial counts distinct (scheme, n, family, resulting signer sets / op kinds / corruption kind) classes"
	var plan []plannedJob
	extra := map[string]any{}
	for _, scheme := range []string{"bls", "simple"} {
		b := tierBounds(c.Quick(), scheme)
		extra[scheme] = map[string]int{
			"seq_len3_max_n": b.seqDepth3, "seq_len2_max_n": b.seqDepth2, "corrupt_after_len2_max_n": b.corPre2, "corrupt_after_len1_max_n": b.corPre1, "corrupt_on_empty_own_full_receivers_max_n": b.corPre0,
			"clone_after_len2_max_n": b.clonePre2, "clone_after_len1_max_n": b.clonePre1, "finalize_partitions_max_n": b.finPart, "finalized_mutations_max_n": b.finMuts, "finalize_double_signers_max_n": b.finOver,
		}
		// unit costs (seconds per case, rough, only for ordering and shard sizes)
		unit := 0.0004
		if scheme == "bls" {
			unit = 0.006
		}
		maxN := 7
		for n := 1; n <= maxN; n++ {
			fx, err := newFixture(scheme, n)
			if err != nil {
				c.HarnessError(err.Error())
				return
			}
			K := len(fx.baseOps())
			NC := len(fx.corruptOps())
			args := func(fam string, kv ...string) map[string]string {
				m := map[string]string{"fam": fam, "scheme": scheme, "n": strconv.Itoa(n)}
				for i := 0; i+1 < len(kv); i += 2 {
					m[kv[i]] = kv[i+1]
				}
				return m
			}
			// seq
			depth := 0
			if n <= b.seqDepth3 {
				depth = 3
			} else if n <= b.seqDepth2 {
				depth = 2
			}
			if depth > 0 {
				perB := 1
				if depth == 3 {
					perB = K + 1
				}
				chunk := b.seqTarget / perB
				if chunk < 1 {
					chunk = 1
				}
				if depth == 2 {
					chunk = K
				}
				for a := 0; a < K; a++ {
					for b0 := 0; b0 < K; b0 += chunk {
						b1 := b0 + chunk
						if b1 > K {
							b1 = K
						}
						plan = append(plan, plannedJob{vx.Job{Exec: "c13", Args: args("seq", "depth", strconv.Itoa(depth), "a", strconv.Itoa(a), "b0", strconv.Itoa(b0), "b1", strconv.Itoa(b1))},
							unit * float64((b1-b0)*perB)})
					}
				}
			}
			// cor
			pre := 0
			if n <= b.corPre2 {
				pre = 2
			} else if n <= b.corPre1 {
				pre = 1
			}
			if pre == 0 && n <= b.corPre0 {
				chunk := b.corTarget / 6
				for c0 := 0; c0 < NC; c0 += chunk {
					c1 := c0 + chunk
					if c1 > NC {
						c1 = NC
					}
					plan = append(plan, plannedJob{vx.Job{Exec: "c13", Args: args("cor", "pre", "0", "c0", strconv.Itoa(c0), "c1", strconv.Itoa(c1))}, unit * float64(6*(c1-c0))})
				}
			}
			if pre > 0 {
				states := 1
				if pre == 2 {
					states = K
				}
				chunk := b.corTarget / states
				if chunk < 1 {
					chunk = 1
				}
				for a := 0; a < K; a++ {
					for c0 := 0; c0 < NC; c0 += chunk {
						c1 := c0 + chunk
						if c1 > NC {
							c1 = NC
						}
						plan = append(plan, plannedJob{vx.Job{Exec: "c13", Args: args("cor", "pre", strconv.Itoa(pre), "a", strconv.Itoa(a), "c0", strconv.Itoa(c0), "c1", strconv.Itoa(c1))},
							unit * float64(states*(c1-c0))})
					}
				}
			}
			// clone
			pre = 0
			if n <= b.clonePre2 {
				pre = 2
			} else if n <= b.clonePre1 {
				pre = 1
			}
			if pre > 0 {
				states := 1
				if pre == 2 {
					states = K
				}
				for a := 0; a < K; a++ {
					plan = append(plan, plannedJob{vx.Job{Exec: "c13", Args: args("clone", "pre", strconv.Itoa(pre), "a", strconv.Itoa(a))}, unit * float64(states*K*4)})
				}
			}
			// fin
			if n <= b.finPart {
				total := pow(4, n)
				for lo := 0; lo < total; lo += b.finTarget {
					hi := lo + b.finTarget
					if hi > total {
						hi = total
					}
					muts, w := "0", 4.0
					if n <= b.finMuts {
						muts, w = "1", 60.0
					}
					plan = append(plan, plannedJob{vx.Job{Exec: "c13", Args: args("fin", "mode", "part", "muts", muts, "lo", strconv.Itoa(lo), "hi", strconv.Itoa(hi))},
						unit * w * float64(hi-lo)})
				}
			}
			if n <= b.finOver && n >= 1 {
				total := pow(8, n)
				step := b.finTarget * 20
				for lo := 0; lo < total; lo += step {
					hi := lo + step
					if hi > total {
						hi = total
					}
					plan = append(plan, plannedJob{vx.Job{Exec: "c13", Args: args("fin", "mode", "over", "lo", strconv.Itoa(lo), "hi", strconv.Itoa(hi))}, unit * 3 * float64(hi-lo)})
				}
			}
		}
	}
	// most expensive shards first, so that the tail of the run is made of small ones
	sort.SliceStable(plan, func(i, j int) bool { return plan[i].cost > plan[j].cost })
	jobs := make([]vx.Job, len(plan))
	for i := range plan {
		jobs[i] = plan[i].job
	}

	// Run in slices so that the internal deadline can stop the run between them.
	outcomes := map[string]int64{}
	samples := map[string]string{}
	famMs := map[string]int64{} // worker milliseconds per family (informative only, not used by any oracle)
	done := 0
	batch := 64 * 16
	for done < len(jobs) {
		if c.OverBudget() {
			c.Cap(fmt.Sprintf("%d of %d shards not run", len(jobs)-done, len(jobs)))
			break
		}
		end := done + batch
		if end > len(jobs) {
			end = len(jobs)
		}
		part := jobs[done:end]
		rs := c.Pool.Map(part)
		for i, r := range rs {
			if r.Crash != "" {
				// A crash that recover() cannot catch (cgo fault, fatal error): "never panics" is violated all the same.
				c.Violate(vx.Violation{Prop: "C13", Sig: "worker-" + vx.CrashSig(r.Crash) + ":" + part[i].Args["scheme"] + ":" + part[i].Args["fam"],
					Msg: "worker process died while running shard " + fmt.Sprint(part[i].Args) + "\n" + r.Crash}, part[i])
			}
			for _, k := range r.Keys {
				c.NonTrivial(k)
			}
			r.Keys = nil
			if len(r.Obs) > 0 {
				var obs struct {
					Outcomes map[string]int64 `json:"outcomes"`
					Sample   string           `json:"sample"`
					Ms       int64            `json:"ms"`
				}
				if json.Unmarshal(r.Obs, &obs) == nil {
					for k, v := range obs.Outcomes {
						outcomes[k] += v
					}
					fam := part[i].Args["scheme"] + "/" + part[i].Args["fam"]
					famMs[fam+"/n="+part[i].Args["n"]] += obs.Ms
					if obs.Sample != "" && samples[fam] == "" {
						samples[fam] = obs.Sample
					}
				}
			}
			r.Outcome = ""
			r.NonTrivial = false
			c.Absorb(part[i], r)
		}
		done = end
	}
	for _, k := range vx.SortedKeys(outcomes) {
		for i := int64(0); i < 1; i++ {
			c.Outcome(k)
		}
	}
	c.Extra["outcome_counts"] = outcomes
	c.Extra["shards"] = c.Evaluations
	c.Extra["shards_planned"] = len(jobs)
	c.Evaluations = c.Counter("cases")
	c.Extra["bounds"] = extra
	c.Extra["worker_ms_by_family"] = famMs
	for _, k := range vx.SortedKeys(samples) {
		c.Sample(map[string]string{"family": k, "case": samples[k]})
	}
	c.Extra["explanation"] = "exhaustive:true refers to the stated bounds (key-set sizes per family in 'bounds', the operation alphabet and corruption list in harness/c13/ops.go and exec_fin.go); " +
		"double signers are decided for the non-aggregating scheme only, the BLS behaviour is recorded under the bls_double_signer_* counters"
	c.Assume("crypto/ed25519.Verify and blst point addition/compression are correct (they are the harness's independent judges of signature validity)")
	c.Assume("BLS min-sig signatures are unique per (key set, message) and blst accepts only the canonical compressed encoding, so byte equality with the harness's own aggregate decides validity")
	c.Assume("FinalizedCommonMessageSignatureProof.Keys and the hashesBySignContent map come from the caller's own validator set and are not part of the untrusted input")
}
