//go:build verif

package c13

import (
	"encoding/json"
	"fmt"
	"sort"
	"strconv"
	"sync"
	"time"

	"github.com/gordian-engine/gordian/internal/zzverif/vx"
)

func init() {
	registry.Checks["C13"] = checkC13
}

// bounds of one tier for one scheme: the largest key-set size n for which a family is run (0 = not run).
type bounds struct {
	seqDepth3 int // every operation sequence of length <= 3 over the full alphabet
	seqDepth2 int // ... of length <= 2 (for n beyond seqDepth3)
	seqDepth1 int // ... of length 1 (for n beyond seqDepth2)
	corPre2   int // every corrupted offer after every base sequence of length 2
	corPre1   int // ... after every base sequence of length 1 (for n beyond corPre2)
	corPre0   int // ... on receivers holding nothing / the offer's own keys / every key, built both ways (for n beyond corPre1)
	clonePre2 int // Clone/Derive after every base sequence of length 2, then every operation on either side
	clonePre1 int // ... after every base sequence of length 1 (for n beyond clonePre2)
	finPart   int // every partition of the keys over absent/main/rest-a/rest-b through Finalize and ValidateFinalizedProof
	finMuts   int // ... and every listed mutation of every such finalized proof
	finOver   int // every assignment with at least one double signer (BLS: observation only)

	// cases per shard, so that a shard takes a few seconds at most
	seqShard, corShard, cloneShard, finShard, finMutShard, overShard int
}

func tierBounds(quick bool, scheme string) bounds {
	var b bounds
	if scheme == "simple" {
		b = bounds{seqShard: 6000, corShard: 5000, cloneShard: 5000, finShard: 1024, finMutShard: 24, overShard: 2048}
		if quick {
			b.seqDepth3, b.seqDepth2, b.seqDepth1 = 4, 5, 7
			b.corPre2, b.corPre1, b.corPre0 = 2, 4, 5
			b.clonePre2, b.clonePre1 = 2, 5
			b.finPart, b.finMuts, b.finOver = 5, 4, 4
		} else {
			b.seqDepth3, b.seqDepth2, b.seqDepth1 = 5, 7, 7
			b.corPre2, b.corPre1, b.corPre0 = 3, 6, 7
			b.clonePre2, b.clonePre1 = 4, 7
			b.finPart, b.finMuts, b.finOver = 7, 6, 5
		}
		return b
	}
	// BLS: about 1 ms per pairing check, so the bounds are smaller (the alphabet is also twice as large:
	// offers are built leaf by leaf and in aggregated form).
	b = bounds{seqShard: 500, corShard: 500, cloneShard: 500, finShard: 64, finMutShard: 12, overShard: 256}
	if quick {
		b.seqDepth3, b.seqDepth2, b.seqDepth1 = 3, 4, 7
		b.corPre2, b.corPre1, b.corPre0 = 0, 3, 4
		b.clonePre2, b.clonePre1 = 0, 3
		b.finPart, b.finMuts, b.finOver = 5, 4, 3
	} else {
		b.seqDepth3, b.seqDepth2, b.seqDepth1 = 4, 6, 7
		b.corPre2, b.corPre1, b.corPre0 = 2, 4, 6
		b.clonePre2, b.clonePre1 = 2, 4
		b.finPart, b.finMuts, b.finOver = 7, 6, 4
	}
	return b
}

type plannedJob struct {
	job  vx.Job
	cost float64
}

func pow(b, e int) int {
	r := 1
	for i := 0; i < e; i++ {
		r *= b
	}
	return r
}

func ranges(total, chunk int, f func(lo, hi int)) {
	if chunk < 1 {
		chunk = 1
	}
	for lo := 0; lo < total; lo += chunk {
		hi := lo + chunk
		if hi > total {
			hi = total
		}
		f(lo, hi)
	}
}

func checkC13(c *vx.Ctx) {
	c.Level = "exploration"
	c.Rule = "bounded exhaustive enumeration on the real proof schemes (ed25519 simple scheme and BLS min-sig): " +
		"(seq) every sequence of Merge/MergeSparse/AddSignature operations up to the stated length over every signer subset and every way of building the offer, checked step by step against the harness's own set model and flag rules, followed by the sparse round trip and a repetition of the last operation; " +
		"(cor) every single-entry corruption of every sparse offer after every state-establishing sequence; (clone) Clone/Derive followed by every operation on either side; " +
		"(fin) every assignment of keys to main/rest blocks through Finalize and ValidateFinalizedProof plus every listed mutation of the finalized proof. " +
		"evaluations = law-checked cases (one sequence, one corrupted offer, one clone case, one finalize round trip or one mutated finalized proof). " +
		"A case is non-trivial when at least one signature was offered and the signer set changed or an invalid offer had to be refused; distinct_nontrivial counts distinct (scheme, n, family, resulting signer sets / op kinds / corruption kind) classes"
	// Shards are a few seconds long; the generous per-job wall only matters on an overloaded machine.
	c.Pool.JobWall = 10 * time.Minute
	var plan []plannedJob
	extra := map[string]any{}
	itoa := strconv.Itoa
	for _, scheme := range []string{"bls", "simple"} {
		b := tierBounds(c.Quick(), scheme)
		extra[scheme] = map[string]int{
			"seq_len3_max_n": b.seqDepth3, "seq_len2_max_n": b.seqDepth2, "seq_len1_max_n": b.seqDepth1,
			"corrupt_after_len2_max_n": b.corPre2, "corrupt_after_len1_max_n": b.corPre1, "corrupt_on_empty_own_full_receivers_max_n": b.corPre0,
			"clone_after_len2_max_n": b.clonePre2, "clone_after_len1_max_n": b.clonePre1,
			"finalize_partitions_max_n": b.finPart, "finalized_mutations_max_n": b.finMuts, "finalize_double_signers_max_n": b.finOver,
		}
		// rough seconds per case, only used to start the expensive shards first
		unit := 0.0006
		if scheme == "bls" {
			unit = 0.005
		}
		for n := 1; n <= 7; n++ {
			fx, err := newFixture(scheme, n)
			if err != nil {
				c.HarnessError(err.Error())
				return
			}
			K := len(fx.baseOps())
			NC := len(fx.corruptOps())
			add := func(cost float64, fam string, kv ...string) {
				m := map[string]string{"fam": fam, "scheme": scheme, "n": itoa(n)}
				for i := 0; i+1 < len(kv); i += 2 {
					m[kv[i]] = kv[i+1]
				}
				plan = append(plan, plannedJob{vx.Job{Exec: "c13", Args: m}, cost * unit * (1 + float64(n)/4)})
			}
			// seq
			switch {
			case n <= b.seqDepth3:
				for a := 0; a < K; a++ {
					ranges(K, b.seqShard/(K+1), func(lo, hi int) {
						add(float64((hi-lo)*(K+1)), "seq", "depth", "3", "a0", itoa(a), "a1", itoa(a+1), "b0", itoa(lo), "b1", itoa(hi))
					})
				}
			case n <= b.seqDepth2:
				for a := 0; a < K; a++ {
					ranges(K, b.seqShard, func(lo, hi int) {
						add(float64(hi-lo), "seq", "depth", "2", "a0", itoa(a), "a1", itoa(a+1), "b0", itoa(lo), "b1", itoa(hi))
					})
				}
			case n <= b.seqDepth1:
				ranges(K, b.seqShard, func(lo, hi int) {
					add(float64(hi-lo), "seq", "depth", "1", "a0", itoa(lo), "a1", itoa(hi))
				})
			}
			// cor
			switch {
			case n <= b.corPre2:
				for a := 0; a < K; a++ {
					ranges(NC, b.corShard/K, func(lo, hi int) {
						add(float64((hi-lo)*K), "cor", "pre", "2", "a", itoa(a), "c0", itoa(lo), "c1", itoa(hi))
					})
				}
			case n <= b.corPre1:
				for a := 0; a < K; a++ {
					ranges(NC, b.corShard, func(lo, hi int) {
						add(float64(hi-lo), "cor", "pre", "1", "a", itoa(a), "c0", itoa(lo), "c1", itoa(hi))
					})
				}
			case n <= b.corPre0:
				ranges(NC, b.corShard/6, func(lo, hi int) {
					add(float64((hi-lo)*6), "cor", "pre", "0", "c0", itoa(lo), "c1", itoa(hi))
				})
			}
			// clone: 2 (Clone/Derive) x K ops x 2 sides cases per state
			switch {
			case n <= b.clonePre2:
				for a := 0; a < K; a++ {
					ranges(K, b.cloneShard/(4*K), func(lo, hi int) {
						add(float64((hi-lo)*4*K), "clone", "pre", "2", "a", itoa(a), "b0", itoa(lo), "b1", itoa(hi))
					})
				}
			case n <= b.clonePre1:
				for a := 0; a < K; a++ {
					add(float64(4*K), "clone", "pre", "1", "a", itoa(a))
				}
			}
			// fin
			if n <= b.finPart {
				if n <= b.finMuts {
					ranges(pow(4, n), b.finMutShard, func(lo, hi int) {
						add(float64(hi-lo)*40, "fin", "mode", "part", "muts", "1", "lo", itoa(lo), "hi", itoa(hi))
					})
				} else {
					ranges(pow(4, n), b.finShard, func(lo, hi int) {
						add(float64(hi-lo)*6, "fin", "mode", "part", "muts", "0", "lo", itoa(lo), "hi", itoa(hi))
					})
				}
			}
			if n <= b.finOver {
				ranges(pow(8, n), b.overShard, func(lo, hi int) {
					add(float64(hi-lo)*3, "fin", "mode", "over", "lo", itoa(lo), "hi", itoa(hi))
				})
			}
		}
	}
	// most expensive shards first, so that the tail of the run is made of small ones
	sort.SliceStable(plan, func(i, j int) bool { return plan[i].cost > plan[j].cost })
	jobs := make([]vx.Job, len(plan))
	for i := range plan {
		jobs[i] = plan[i].job
	}

	// Submit one by one so that the internal deadline can stop the run at any shard boundary.
	outcomes := map[string]int64{}
	samples := map[string]string{}
	sampleRank := map[string]int{}
	famMs := map[string]int64{} // worker milliseconds per family (informative only, not used by any oracle)
	results := make([]vx.Result, len(jobs))
	var wg sync.WaitGroup
	submitted := 0
	for i := range jobs {
		if c.OverBudget() {
			c.Cap(fmt.Sprintf("%d of %d shards not run", len(jobs)-i, len(jobs)))
			break
		}
		i := i
		jobs[i].ID = i
		wg.Add(1)
		submitted++
		c.Pool.Submit(jobs[i], func(r vx.Result) {
			results[i] = r
			wg.Done()
		})
	}
	wg.Wait()
	for i := 0; i < submitted; i++ {
		r, job := results[i], jobs[i]
		if r.Crash != "" {
			// A crash that recover() cannot catch (cgo fault, fatal error): "never panics" is violated all the same.
			c.Violate(vx.Violation{Prop: "C13", Sig: "worker-" + vx.CrashSig(r.Crash) + ":" + job.Args["scheme"] + ":" + job.Args["fam"],
				Msg: "worker process died while running shard " + fmt.Sprint(job.Args) + "\n" + r.Crash}, job)
		}
		for _, k := range r.Keys {
			c.NonTrivial(k)
		}
		r.Keys = nil
		if len(r.Obs) > 0 {
			var obs struct {
				Outcomes map[string]int64 `json:"outcomes"`
				Sample   string           `json:"sample"`
				Good     bool             `json:"sample_good"`
				Ms       int64            `json:"ms"`
			}
			if json.Unmarshal(r.Obs, &obs) == nil {
				for k, v := range obs.Outcomes {
					outcomes[k] += v
				}
				fam := job.Args["scheme"] + "/" + job.Args["fam"]
				famMs[fam+"/n="+job.Args["n"]] += obs.Ms
				// keep the most telling sample per family: every step changed the signer set, then the longest
				rank := len(obs.Sample)
				if obs.Good {
					rank += 1 << 20
				}
				if obs.Sample != "" && rank > sampleRank[fam] {
					samples[fam] = obs.Sample
					sampleRank[fam] = rank
				}
			}
		}
		r.Outcome = ""
		r.NonTrivial = false
		c.Absorb(job, r)
	}
	for _, k := range vx.SortedKeys(outcomes) {
		for i := int64(0); i < 1; i++ {
			c.Outcome(k)
		}
	}
	c.Extra["outcome_counts"] = outcomes
	c.Extra["shards"] = c.Evaluations
	c.Extra["shards_planned"] = len(jobs)
	c.Evaluations = c.Counter("cases")
	c.Extra["bounds"] = extra
	c.Extra["worker_ms_by_family"] = famMs
	for _, k := range vx.SortedKeys(samples) {
		c.Sample(map[string]string{"family": k, "case": samples[k]})
	}
	c.Extra["explanation"] = "exhaustive:true refers to the stated bounds (key-set sizes per family in 'bounds', the operation alphabet and corruption list in harness/c13/ops.go and exec_fin.go); " +
		"double signers are decided for the non-aggregating scheme only, the BLS behaviour is recorded under the bls_double_signer_* counters"
	c.Assume("crypto/ed25519.Verify and blst point addition/compression are correct (they are the harness's independent judges of signature validity)")
	c.Assume("BLS min-sig signatures are unique per (key set, message) and blst accepts only the canonical compressed encoding, so byte equality with the harness's own aggregate decides validity")
	c.Assume("FinalizedCommonMessageSignatureProof.Keys and the hashesBySignContent map come from the caller's own validator set and are not part of the untrusted input")
}
