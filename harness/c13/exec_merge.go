//go:build verif

package c13

import (
	"bytes"
	"encoding/json"
	"fmt"
	"strconv"
	"strings"
	"testing"
	"time"

	"github.com/gordian-engine/gordian/gcrypto"
	"github.com/gordian-engine/gordian/internal/zzverif/vx"
)

func init() {
	registry.Execs["c13"] = execC13
}

// execC13 runs one shard. Args: fam, scheme, n, plus family specific ones.
func execC13(t *testing.T, job vx.Job) (res vx.Result) {
	col := newCollector()
	t0 := time.Now()
	defer func() {
		if r := recover(); r != nil {
			// Only harness failures get here: every call into the code under test is wrapped by safely().
			res = vx.Result{HarnessErr: fmt.Sprintf("harness panic: %v", r)}
		}
	}()
	scheme := job.Args["scheme"]
	n, _ := strconv.Atoi(job.Args["n"])
	fx, err := newFixture(scheme, n)
	if err != nil {
		return vx.Result{HarnessErr: err.Error()}
	}
	switch job.Args["fam"] {
	case "seq":
		runSeqShard(fx, job.Args, col)
	case "cor":
		runCorShard(fx, job.Args, col)
	case "clone":
		runCloneShard(fx, job.Args, col)
	case "fin":
		runFinShard(fx, job.Args, col)
	default:
		return vx.Result{HarnessErr: "unknown family " + job.Args["fam"]}
	}
	for _, v := range col.viol {
		res.Violate("C13", v.sig, v.msg, 0)
	}
	for k, v := range col.counters {
		res.Count(k, v)
	}
	res.Keys = sortedKeys(col.classes)
	res.NonTrivial = len(col.classes) > 0
	res.Key = fmt.Sprint(job.Args)
	res.HarnessErr = col.harness
	obs := map[string]any{"outcomes": col.outcomes, "sample": col.sample, "sample_good": col.sampleGood, "ms": time.Since(t0).Milliseconds()}
	res.Obs, _ = json.Marshal(obs)
	res.Outcome = job.Args["fam"] + ":" + scheme
	return res
}

func atoiDef(s string, d int) int {
	if s == "" {
		return d
	}
	v, err := strconv.Atoi(s)
	if err != nil {
		return d
	}
	return v
}

// seqRunner replays op sequences on fresh proofs.
type seqRunner struct {
	fx  *fixture
	ops []op
	od  *operands
	col *collector

	grewSteps int // steps of the last run in which the signer set grew
}

func (r *seqRunner) describe(seq []int) string {
	if len(seq) == 0 {
		return "fresh proof"
	}
	ls := make([]string, len(seq))
	for i, k := range seq {
		ls[i] = r.ops[k].label
	}
	return "after " + strings.Join(ls, "; ")
}

// run replays seq from a fresh proof, checking the laws at every step; returns the proof, the model set,
// and false when the sequence had to stop (panic).
func (r *seqRunner) run(seq []int) (gcrypto.CommonMessageSignatureProof, set, bool) {
	p := r.fx.newProof(mMain)
	var M set
	r.grewSteps = 0
	for i, k := range seq {
		sr := r.fx.apply(p, M, &r.ops[k], r.od, r.col, func() string { return r.describe(seq[:i]) })
		if sr.paniced {
			return p, M, false
		}
		if sr.grew {
			r.grewSteps++
		}
		// Follow the implementation's set from here on so that one defect is reported once, at its source.
		M = sr.after & r.fx.full()
	}
	return p, M, true
}

// runSeqShard enumerates every sequence of length 1..depth over the base alphabet whose first op is `a`
// (and, when given, whose second op is in [b0,b1)).
func runSeqShard(fx *fixture, args map[string]string, col *collector) {
	ops := fx.baseOps()
	r := &seqRunner{fx: fx, ops: ops, od: newOperands(fx), col: col}
	depth := atoiDef(args["depth"], 3)
	a0 := atoiDef(args["a0"], 0)
	a1 := atoiDef(args["a1"], a0+1)
	b0, b1 := atoiDef(args["b0"], 0), atoiDef(args["b1"], len(ops))
	var rec func(seq []int)
	rec = func(seq []int) {
		p, M, ok := r.run(seq)
		col.count("cases", 1)
		col.count("sequences", 1)
		col.count("merge_steps_checked", int64(len(seq)))
		if ok {
			fx.roundTrip(p, M, col, func() string { return r.describe(seq) })
			// Idempotence, explicitly: the last operation once more changes nothing and reports no increase
			// (apply's IncreasedSignatures <=> grew rule and the union rule decide).
			last := &ops[seq[len(seq)-1]]
			sr := fx.apply(p, M, last, r.od, col, func() string { return r.describe(seq) + " (repeating the last operation)" })
			if !sr.paniced && sr.after != M {
				col.violate(fmt.Sprintf("idempotence:%s:%s:%s", fx.scheme, last.kind, last.tag),
					fmt.Sprintf("%s n=%d, %s: repeating %s changed the signer set %s -> %s", fx.scheme, fx.n, r.describe(seq), last.label, setStr(M), setStr(sr.after)))
			}
			col.count("idempotence_repeats", 1)
		}
		grew := 0
		rep := false
		for i := range seq {
			if i > 0 && seq[i] == seq[i-1] {
				rep = true
			}
		}
		if rep {
			col.count("sequences_with_immediate_repetition", 1)
		}
		if M != 0 {
			grew = 1
		}
		// distinct class: scheme, n, final signer set, sequence length, kinds of the ops used
		kinds := ""
		for _, k := range seq {
			kinds += ops[k].kind[:1+len(ops[k].kind)/6] // "M", "Me", "Ad" style short kind
		}
		if grew == 1 {
			col.class(fmt.Sprintf("%s/%d/seq/%x/%s", fx.scheme, fx.n, M, kinds))
		}
		if (col.sample == "" || (!col.sampleGood && r.grewSteps == len(seq))) && len(seq) == depth && M != 0 {
			col.sampleGood = r.grewSteps == len(seq)
			col.sample = fmt.Sprintf("%s n=%d: %s => signer set %s", fx.scheme, fx.n, r.describe(seq), setStr(M))
		}
		if len(seq) >= depth || !ok {
			return
		}
		lo, hi := 0, len(ops)
		if len(seq) == 1 {
			lo, hi = b0, b1
		}
		for k := lo; k < hi && k < len(ops); k++ {
			rec(append(seq, k))
		}
	}
	for a := a0; a < a1 && a < len(ops); a++ {
		// The length-1 sequence (a) is counted by the shard with b0 == 0 only.
		if b0 == 0 {
			rec([]int{a})
		} else {
			for k := b0; k < b1 && k < len(ops); k++ {
				rec([]int{a, k})
			}
		}
	}
}

// runCorShard: state = every base sequence of length `pre` starting with op a; then every corrupted offer;
// then one honest MergeSparse of all keys (the proof must still work and end with every key) and the round trip.
func runCorShard(fx *fixture, args map[string]string, col *collector) {
	base := fx.baseOps()
	cor := fx.corruptOps()
	ops := append(append([]op{}, base...), cor...)
	r := &seqRunner{fx: fx, ops: ops, od: newOperands(fx), col: col}
	pre := atoiDef(args["pre"], 1)
	a := atoiDef(args["a"], 0)
	c0, c1 := atoiDef(args["c0"], 0), atoiDef(args["c1"], len(cor))
	// the honest closing offer: leafwise sparse of all keys
	closing := -1
	for k := range base {
		if base[k].kind == "MergeSparse" && len(base[k].entries) == fx.n && strings.Contains(base[k].label, "leafwise") {
			closing = k
		}
	}
	var prefixes [][]int
	switch {
	case pre == 1:
		prefixes = [][]int{{a}}
	case pre >= 2:
		for b := range base {
			prefixes = append(prefixes, []int{a, b})
		}
	}
	mergeIdx := map[string]int{}
	for k := range base {
		if base[k].kind == "Merge" {
			mergeIdx[fmt.Sprintf("%s/%x", base[k].variant, base[k].T)] = k
		}
	}
	for ci := c0; ci < c1 && ci < len(cor); ci++ {
		pfs := prefixes
		if pre == 0 {
			// Large key sets: the receiver holds nothing, exactly the keys the offer was made from, or every key,
			// built both ways — the states in which the offered ids are unknown, already held, or covered by aggregates.
			seen := map[int]bool{}
			for _, S := range []set{0, cor[ci].T, fx.full()} {
				for _, v := range []string{"leaf", "sparse"} {
					if k, ok := mergeIdx[fmt.Sprintf("%s/%x", v, S)]; ok && !seen[k] {
						seen[k] = true
						pfs = append(pfs, []int{k})
					}
				}
			}
		}
		for _, pf := range pfs {
			seq := append(append([]int{}, pf...), len(base)+ci)
			p, M, ok := r.run(seq)
			col.count("cases", 1)
			col.count("corrupted_offers", 1)
			if !ok {
				continue
			}
			o := &cor[ci]
			col.class(fmt.Sprintf("%s/%d/cor/%s/%s/%x", fx.scheme, fx.n, o.kind, o.tag, M))
			// the proof is still a working proof
			sr := fx.apply(p, M, &ops[closing], r.od, col, func() string { return r.describe(seq) })
			if !sr.paniced {
				fx.roundTrip(p, sr.after&fx.full(), col, func() string { return r.describe(append(seq, closing)) })
			}
			if col.sample == "" && o.tag == "sigflip" {
				col.sample = fmt.Sprintf("%s n=%d: %s => signer set %s, then all keys offered => %s", fx.scheme, fx.n, r.describe(seq), setStr(M), setStr(sr.after))
			}
		}
	}
}

// runCloneShard: state = base sequence (a) [or (a,b) for pre=2]; c = Clone / d = Derive;
// for every base op X: X on the copy leaves the origin untouched, X on the origin leaves the copy untouched,
// and the mutated side follows the merge laws.
func runCloneShard(fx *fixture, args map[string]string, col *collector) {
	ops := fx.baseOps()
	r := &seqRunner{fx: fx, ops: ops, od: newOperands(fx), col: col}
	pre := atoiDef(args["pre"], 1)
	a := atoiDef(args["a"], 0)
	var prefixes [][]int
	if pre <= 1 {
		prefixes = [][]int{{a}}
	} else {
		b0, b1 := atoiDef(args["b0"], 0), atoiDef(args["b1"], len(ops))
		for b := b0; b < b1 && b < len(ops); b++ {
			prefixes = append(prefixes, []int{a, b})
		}
	}
	type snap struct {
		bits   set
		ok     bool
		sparse string
		msg    []byte
		hash   []byte
	}
	take := func(p gcrypto.CommonMessageSignatureProof) snap {
		b, ok := bitsOf(p)
		return snap{b, ok, sparseString(p.AsSparse()), bytes.Clone(p.Message()), bytes.Clone(p.PubKeyHash())}
	}
	same := func(x, y snap) bool {
		return x.bits == y.bits && x.ok == y.ok && x.sparse == y.sparse && bytes.Equal(x.msg, y.msg) && bytes.Equal(x.hash, y.hash)
	}
	for _, pf := range prefixes {
		for _, how := range []string{"Clone", "Derive"} {
			for x := range ops {
				for _, side := range []string{"copy", "origin"} {
					col.count("cases", 1)
					col.count("clone_cases", 1)
					p, M, ok := r.run(pf)
					if !ok {
						continue
					}
					var c gcrypto.CommonMessageSignatureProof
					if pi := safely(func() {
						if how == "Clone" {
							c = p.Clone()
						} else {
							c = p.Derive()
						}
					}); pi != nil {
						col.violate(fmt.Sprintf("panic:%s:%s@%s", fx.scheme, how, pi.frame), fmt.Sprintf("%s n=%d %s: %s panics: %s", fx.scheme, fx.n, r.describe(pf), how, pi.val))
						continue
					}
					sp, sc := take(p), take(c)
					CM := M
					if how == "Derive" {
						CM = 0
					}
					// the copy starts as documented
					if sc.bits != CM || !sc.ok || !bytes.Equal(sc.msg, sp.msg) || !bytes.Equal(sc.hash, sp.hash) || (how == "Clone" && sc.sparse != sp.sparse) ||
						(how == "Derive" && sc.sparse != fx.hash) {
						col.violate(fmt.Sprintf("clone:%s:%s:initial-state", fx.scheme, how),
							fmt.Sprintf("%s n=%d %s: %s() has signer set %s (want %s), sparse equal=%v", fx.scheme, fx.n, r.describe(pf), how, setStr(sc.bits), setStr(CM), sc.sparse == sp.sparse))
					}
					desc := func() string { return r.describe(pf) + "; " + how + "(); op on the " + side }
					if side == "copy" {
						sr := fx.apply(c, CM, &ops[x], r.od, col, desc)
						if now := take(p); !same(now, sp) {
							col.violate(fmt.Sprintf("clone:%s:%s:origin-changed-by-%s-on-copy", fx.scheme, how, ops[x].kind),
								fmt.Sprintf("%s n=%d %s: %s on the %s changed the origin: signer set %s -> %s, sparse form changed=%v", fx.scheme, fx.n, r.describe(pf), ops[x].label, how, setStr(sp.bits), setStr(now.bits), now.sparse != sp.sparse))
						}
						if !sr.paniced {
							fx.roundTrip(c, sr.after&fx.full(), col, desc)
						}
						if sr.grew {
							col.class(fmt.Sprintf("%s/%d/%s/copy/%x/%x", fx.scheme, fx.n, how, M, sr.after))
						}
					} else {
						sr := fx.apply(p, M, &ops[x], r.od, col, desc)
						if now := take(c); !same(now, sc) {
							col.violate(fmt.Sprintf("clone:%s:%s:copy-changed-by-%s-on-origin", fx.scheme, how, ops[x].kind),
								fmt.Sprintf("%s n=%d %s: %s on the origin changed the %s: signer set %s -> %s, sparse form changed=%v", fx.scheme, fx.n, r.describe(pf), ops[x].label, how, setStr(sc.bits), setStr(now.bits), now.sparse != sc.sparse))
						}
						if sr.grew {
							col.class(fmt.Sprintf("%s/%d/%s/origin/%x/%x", fx.scheme, fx.n, how, M, sr.after))
						}
						// the copy still works after the origin moved on
						sr2 := fx.apply(c, CM, &ops[x], r.od, col, desc)
						_ = sr2
					}
					if col.sample == "" && M != 0 && how == "Clone" && side == "copy" && ops[x].kind == "MergeSparse" && len(ops[x].entries) > 0 {
						col.sample = fmt.Sprintf("%s n=%d: %s; Clone(); %s on the copy; origin unchanged", fx.scheme, fx.n, r.describe(pf), ops[x].label)
					}
				}
			}
		}
	}
}
