//go:build verif

package c13

import (
	"bytes"
	"context"
	"crypto/ed25519"
	"crypto/sha256"
	"encoding/binary"
	"encoding/hex"
	"fmt"
	"math/bits"
	"runtime"
	"sort"
	"strings"

	"github.com/bits-and-blooms/bitset"
	"github.com/gordian-engine/gordian/gcrypto"
	"github.com/gordian-engine/gordian/gcrypto/gblsminsig"
	blst "github.com/supranational/blst/bindings/go"
)

// C13 — signature proofs merge as verified set union and round-trip.
//
// Ground truth in this package never comes from the code under test:
//   - who signed what is the harness's own bookkeeping (signature tables made
//     at fixture time, one signature per (message, key));
//   - ed25519 validity of an offered signature is decided by crypto/ed25519
//     directly; BLS validity by byte equality with the aggregate the harness
//     computed itself with blst point additions (BLS min-sig signatures are
//     unique per (key set, message), and blst only accepts the canonical
//     compressed encoding);
//   - the BLS tree layout (which leaves an aggregate key id covers) is
//     recomputed here from the layout documented on SignatureProofScheme.

// set is a set of key indices, bit i = candidate key i.
type set = uint64

const (
	mMain    = 0 // message of the receiver in the merge families, main block when finalizing
	mRestA   = 1
	mRestB   = 2
	mForeign = 3 // signed by every key but never the message of a proof: "valid signature, wrong message"
	nMsgs    = 4
)

type fixture struct {
	scheme string // "simple" or "bls"
	n      int
	sch    gcrypto.CommonMessageSignatureProofScheme
	keys   []gcrypto.PubKey
	edPub  []ed25519.PublicKey
	hash   string
	msgs   [nMsgs][]byte
	hashes map[string]string // sign content -> block hash, for ValidateFinalizedProof

	leaf [nMsgs][][]byte // leaf[m][i]: signature of key i over msgs[m]

	// A key outside the candidate set and its signature over msgs[mMain].
	foreignKey gcrypto.PubKey
	foreignSig []byte

	// BLS only.
	width  int   // padded number of leaves (power of two)
	nodes  int   // 2*width-1 key ids of the aggregation tree
	cover  []set // cover[id] = candidate keys aggregated under tree node id (harness's own layout computation)
	aggMem map[string][]byte

	rtSeen map[string]bool // round trips already evaluated in this job, by (signer set, sparse form)
}

func newFixture(scheme string, n int) (*fixture, error) {
	fx := &fixture{scheme: scheme, n: n, hash: fmt.Sprintf("c13-keyhash-%s-%d", scheme, n), aggMem: map[string][]byte{}, rtSeen: map[string]bool{}}
	fx.msgs[mMain] = []byte("c13|precommit|block-main")
	fx.msgs[mRestA] = []byte("c13|precommit|block-rest-a")
	fx.msgs[mRestB] = []byte("c13|precommit|nil")
	fx.msgs[mForeign] = []byte("c13|some other message")
	fx.hashes = map[string]string{}
	for m := 0; m < nMsgs; m++ {
		fx.hashes[string(fx.msgs[m])] = fmt.Sprintf("H%d", m)
	}
	ctx := context.Background()
	switch scheme {
	case "simple":
		fx.sch = gcrypto.SimpleCommonMessageSignatureProofScheme{}
		for i := 0; i <= n; i++ {
			seed := sha256.Sum256([]byte(fmt.Sprintf("c13-ed25519-key-%d", i)))
			priv := ed25519.NewKeyFromSeed(seed[:])
			pub := priv.Public().(ed25519.PublicKey)
			if i == n {
				fx.foreignKey = gcrypto.Ed25519PubKey(pub)
				fx.foreignSig = ed25519.Sign(priv, fx.msgs[mMain])
				break
			}
			fx.edPub = append(fx.edPub, pub)
			fx.keys = append(fx.keys, gcrypto.Ed25519PubKey(pub))
			for m := 0; m < nMsgs; m++ {
				fx.leaf[m] = append(fx.leaf[m], ed25519.Sign(priv, fx.msgs[m]))
			}
		}
	case "bls":
		fx.sch = gblsminsig.SignatureProofScheme{}
		for i := 0; i <= n; i++ {
			ikm := sha256.Sum256([]byte(fmt.Sprintf("c13-bls-key-%d", i)))
			s, err := gblsminsig.NewSigner(ikm[:])
			if err != nil {
				return nil, err
			}
			pk := s.PubKey().(gblsminsig.PubKey)
			p2 := blst.P2Affine(pk)
			if i == n {
				fx.foreignKey = pk
				fx.foreignSig, _ = s.Sign(ctx, fx.msgs[mMain])
				break
			}
			fx.keys = append(fx.keys, pk)
			for m := 0; m < nMsgs; m++ {
				sig, err := s.Sign(ctx, fx.msgs[m])
				if err != nil {
					return nil, err
				}
				// The fixture's signatures are checked once with blst itself (not through gordian's Verify).
				if m == mMain {
					a := new(blst.P1Affine).Uncompress(sig)
					if a == nil || !a.Verify(true, &p2, true, blst.Message(fx.msgs[m]), gblsminsig.DomainSeparationTag) {
						return nil, fmt.Errorf("fixture: BLS signature of key %d does not verify with blst", i)
					}
				}
				fx.leaf[m] = append(fx.leaf[m], sig)
			}
		}
		// Tree layout as documented on gblsminsig.SignatureProofScheme: ids 0..width-1 are the single keys
		// (padded to a power of two), then each following layer pairs neighbours, the last id is the root.
		fx.width = 1
		for fx.width < n {
			fx.width <<= 1
		}
		fx.nodes = 2*fx.width - 1
		fx.cover = make([]set, fx.nodes)
		id := 0
		for span := 1; span <= fx.width; span <<= 1 {
			for off := 0; off*span < fx.width; off++ {
				var c set
				for l := off * span; l < (off+1)*span && l < n; l++ {
					c |= 1 << uint(l)
				}
				fx.cover[id] = c
				id++
			}
		}
		if id != fx.nodes {
			return nil, fmt.Errorf("fixture: layout computation produced %d nodes, want %d", id, fx.nodes)
		}
	default:
		return nil, fmt.Errorf("unknown scheme %q", scheme)
	}
	return fx, nil
}

func (fx *fixture) full() set { return (set(1) << uint(fx.n)) - 1 }

// agg returns the harness's own aggregate signature of the keys in s over msgs[m] (BLS).
func (fx *fixture) agg(m int, s set) []byte {
	if s == 0 {
		return nil
	}
	if bits.OnesCount64(s) == 1 {
		return fx.leaf[m][bits.TrailingZeros64(s)]
	}
	k := fmt.Sprintf("%d/%x", m, s)
	if b, ok := fx.aggMem[k]; ok {
		return b
	}
	acc := new(blst.P1)
	for i := 0; i < fx.n; i++ {
		if s&(1<<uint(i)) != 0 {
			a := new(blst.P1Affine).Uncompress(fx.leaf[m][i])
			acc = acc.Add(a)
		}
	}
	b := acc.ToAffine().Compress()
	fx.aggMem[k] = b
	return b
}

// sigValid is the oracle's verdict on "sig is the signature of exactly the keys in claim over msgs[m]".
func (fx *fixture) sigValid(m int, claim set, sig []byte) bool {
	if claim == 0 {
		return false
	}
	if fx.scheme == "simple" {
		if bits.OnesCount64(claim) != 1 {
			return false
		}
		i := bits.TrailingZeros64(claim)
		if bytes.Equal(sig, fx.leaf[m][i]) {
			return true // the fixture's own crypto/ed25519.Sign output
		}
		return ed25519.Verify(fx.edPub[i], fx.msgs[m], sig)
	}
	return bytes.Equal(sig, fx.agg(m, claim))
}

func be16(v int) []byte {
	var b [2]byte
	binary.BigEndian.PutUint16(b[:], uint16(v))
	return b[:]
}

// claimOf is the set of keys a well-formed two-byte key id names (0 = none: out of range or padding).
func (fx *fixture) claimOf(id []byte) set {
	if len(id) != 2 {
		return 0
	}
	v := int(binary.BigEndian.Uint16(id))
	if fx.scheme == "simple" {
		if v >= fx.n {
			return 0
		}
		return 1 << uint(v)
	}
	if v >= fx.nodes {
		return 0
	}
	return fx.cover[v]
}

// idFor returns the key id naming exactly the keys in s, if the scheme has one.
func (fx *fixture) idFor(s set) ([]byte, bool) {
	if fx.scheme == "simple" {
		if bits.OnesCount64(s) != 1 {
			return nil, false
		}
		return be16(bits.TrailingZeros64(s)), true
	}
	// Prefer the highest node with that cover (n=3: key 2 is both id 2 and id 5).
	for id := fx.nodes - 1; id >= 0; id-- {
		if fx.cover[id] == s && s != 0 {
			return be16(id), true
		}
	}
	return nil, false
}

func (fx *fixture) newProof(m int) gcrypto.CommonMessageSignatureProof {
	p, err := fx.sch.New(fx.msgs[m], fx.keys, fx.hash)
	if err != nil {
		panic(harnessPanic{"scheme.New failed: " + err.Error()})
	}
	return p
}

type harnessPanic struct{ msg string }

// bitsOf reads the proof's signer set. ok=false when a bit at or beyond 64 is set.
func bitsOf(p gcrypto.CommonMessageSignatureProof) (s set, ok bool) {
	var bs bitset.BitSet
	p.SignatureBitSet(&bs)
	return bitsOfBS(&bs)
}

func bitsOfBS(bs *bitset.BitSet) (s set, ok bool) {
	ok = true
	if bs == nil {
		return 0, true
	}
	for u, more := bs.NextSet(0); more; u, more = bs.NextSet(u + 1) {
		if u >= 64 {
			ok = false
			break
		}
		s |= 1 << u
	}
	return s, ok
}

func sparseString(sp gcrypto.SparseSignatureProof) string {
	var sb strings.Builder
	sb.WriteString(sp.PubKeyHash)
	for _, e := range sp.Signatures {
		sb.WriteString("|")
		sb.WriteString(hex.EncodeToString(e.KeyID))
		sb.WriteString(":")
		sb.WriteString(hex.EncodeToString(e.Sig))
	}
	return sb.String()
}

func setStr(s set) string { return fmt.Sprintf("%b", s) }

// ---- panic capture ----

type panicInfo struct {
	val   string
	frame string // first frame inside the gordian module that is not harness code
}

func safely(f func()) (pi *panicInfo) {
	defer func() {
		if r := recover(); r != nil {
			if hp, ok := r.(harnessPanic); ok {
				panic(hp)
			}
			pi = &panicInfo{val: fmt.Sprint(r), frame: firstRepoFrame()}
		}
	}()
	f()
	return nil
}

func firstRepoFrame() string {
	pcs := make([]uintptr, 64)
	n := runtime.Callers(3, pcs)
	frames := runtime.CallersFrames(pcs[:n])
	const mod = "github.com/gordian-engine/gordian/"
	for {
		fr, more := frames.Next()
		if strings.HasPrefix(fr.Function, mod) && !strings.Contains(fr.Function, "/zzverif/") {
			return strings.TrimPrefix(fr.Function, mod)
		}
		if !more {
			break
		}
	}
	return "?"
}

// ---- per-job collector ----

type collector struct {
	viol     []violation
	seen     map[string]bool
	counters map[string]int64
	outcomes map[string]int64
	classes  map[string]struct{}
	harness  string
	sample   string

	sampleGood bool
}

type violation struct{ sig, msg string }

func newCollector() *collector {
	return &collector{seen: map[string]bool{}, counters: map[string]int64{}, outcomes: map[string]int64{}, classes: map[string]struct{}{}}
}

func (c *collector) violate(sig, msg string) {
	if c.seen[sig] {
		c.counters["violating_cases"]++
		return
	}
	c.seen[sig] = true
	c.counters["violating_cases"]++
	c.viol = append(c.viol, violation{sig, msg})
}

func (c *collector) count(name string, n int64) { c.counters[name] += n }
func (c *collector) outcome(o string)           { c.outcomes[o]++ }
func (c *collector) class(k string) {
	if len(c.classes) < 4096 {
		c.classes[k] = struct{}{}
	}
}
func (c *collector) harnessErr(s string) {
	if c.harness == "" {
		c.harness = s
	}
}

func sortedKeys[V any](m map[string]V) []string {
	ks := make([]string, 0, len(m))
	for k := range m {
		ks = append(ks, k)
	}
	sort.Strings(ks)
	return ks
}
