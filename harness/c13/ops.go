//go:build verif

package c13

import (
	"bytes"
	"fmt"
	"math/bits"

	"github.com/gordian-engine/gordian/gcrypto"
)

// entry is one sparse signature offered to MergeSparse, with the harness's verdict on it.
type entry struct {
	id, sig []byte
	// claim: keys named by the id when it is a well-formed two-byte id in range (0 otherwise).
	claim set
	// valid: the id is well formed and the signature verifies for exactly the claimed keys over the receiver's message.
	valid bool
	// amb: the key id has more than two bytes. The statement does not say whether such an id is rejected
	// or read by its first two bytes; both readings are accepted (claim/valid describe the prefix reading).
	amb bool
}

// op is one operation applied to a receiver proof over msgs[mMain].
type op struct {
	kind  string // "Merge", "MergeSparse", "AddSignature"
	tag   string // "ok" for uncorrupted offers, otherwise the corruption kind
	label string

	// Merge: the offered signer set. Corrupted offers: the signer set the uncorrupted offer was made from.
	T       set
	variant string // how the offered full proof was built: "leaf" (AddSignature per key) or "sparse" (rebuilt from minimal sparse form)

	// MergeSparse
	hash    string
	entries []entry

	// AddSignature
	key      gcrypto.PubKey
	sig      []byte
	addClaim set
	addValid bool
}

func (fx *fixture) mkEntry(id, sig []byte) entry {
	e := entry{id: id, sig: sig}
	switch {
	case len(id) == 2:
		e.claim = fx.claimOf(id)
		e.valid = fx.sigValid(mMain, e.claim, sig)
	case len(id) > 2:
		e.amb = true
		e.claim = fx.claimOf(id[:2])
		e.valid = fx.sigValid(mMain, e.claim, sig)
	}
	return e
}

// leafEntries: one sparse entry per key of T, each with its own two-byte id.
func (fx *fixture) leafEntries(T set) []entry {
	var es []entry
	for i := 0; i < fx.n; i++ {
		if T&(1<<uint(i)) != 0 {
			es = append(es, fx.mkEntry(be16(i), fx.leaf[mMain][i]))
		}
	}
	return es
}

// minimalEntries (BLS): the maximal aligned subtrees whose in-range leaves all belong to T,
// each offered as one aggregated signature — what a peer holding exactly T would transmit.
func (fx *fixture) minimalEntries(T set) []entry {
	var es []entry
	var covered set
	for id := fx.nodes - 1; id >= 0; id-- {
		c := fx.cover[id]
		if c == 0 || c&^T != 0 || c&covered != 0 {
			continue
		}
		// Skip a node when a higher node with the same cover was taken (n=3: id 5 and id 2).
		covered |= c
		es = append(es, fx.mkEntry(be16(id), fx.agg(mMain, c)))
	}
	// ascending id order, like AsSparse does not promise but peers would plausibly send
	for i, j := 0, len(es)-1; i < j; i, j = i+1, j-1 {
		es[i], es[j] = es[j], es[i]
	}
	return es
}

// baseOps is the uncorrupted alphabet of the sequence families.
func (fx *fixture) baseOps() []op {
	var ops []op
	full := fx.full()
	for T := set(0); T <= full; T++ {
		ops = append(ops, op{kind: "Merge", tag: "ok", T: T, variant: "leaf", label: fmt.Sprintf("Merge(leaf:%s)", setStr(T))})
		if fx.scheme == "bls" {
			ops = append(ops, op{kind: "Merge", tag: "ok", T: T, variant: "sparse", label: fmt.Sprintf("Merge(collapsed:%s)", setStr(T))})
		}
	}
	for T := set(0); T <= full; T++ {
		ops = append(ops, op{kind: "MergeSparse", tag: "ok", hash: fx.hash, entries: fx.leafEntries(T), label: fmt.Sprintf("MergeSparse(leafwise:%s)", setStr(T))})
		if fx.scheme == "bls" {
			ops = append(ops, op{kind: "MergeSparse", tag: "ok", hash: fx.hash, entries: fx.minimalEntries(T), label: fmt.Sprintf("MergeSparse(minimal:%s)", setStr(T))})
		}
	}
	for i := 0; i < fx.n; i++ {
		ops = append(ops, op{kind: "AddSignature", tag: "ok", key: fx.keys[i], sig: fx.leaf[mMain][i], addClaim: 1 << uint(i), addValid: true,
			label: fmt.Sprintf("AddSignature(%d)", i)})
	}
	return ops
}

func flipBit(b []byte) []byte {
	c := bytes.Clone(b)
	if len(c) > 10 {
		c[10] ^= 0x04
	}
	return c
}

// corruptOps: every sparse offer of the alphabet with exactly one entry corrupted in every listed way,
// the wrong-hash offers, and the failing AddSignature calls.
func (fx *fixture) corruptOps() []op {
	var ops []op
	full := fx.full()
	infSig := make([]byte, 48) // compressed point at infinity of G1
	infSig[0] = 0xc0
	type form struct {
		name string
		es   func(set) []entry
	}
	forms := []form{{"leafwise", fx.leafEntries}}
	if fx.scheme == "bls" {
		forms = append(forms, form{"minimal", fx.minimalEntries})
	}
	for _, f := range forms {
		for T := set(1); T <= full; T++ {
			base := f.es(T)
			// wrong key hash on an otherwise valid offer
			ops = append(ops, op{kind: "MergeSparse", tag: "wronghash", hash: fx.hash + "x", entries: base, T: T,
				label: fmt.Sprintf("MergeSparse(%s:%s,hash=wrong)", f.name, setStr(T))})
			for k := range base {
				e := base[k]
				type mut struct {
					tag     string
					id, sig []byte
				}
				var muts []mut
				muts = append(muts,
					mut{"sigflip", e.id, flipBit(e.sig)},
					mut{"sigtrunc", e.id, e.sig[:len(e.sig)-1]},
					mut{"sigempty", e.id, []byte{}},
					mut{"signil", e.id, nil},
					mut{"idshort-len0", []byte{}, e.sig},
					mut{"idshort-nil", nil, e.sig},
					mut{"idshort-len1", e.id[1:], e.sig},
					mut{"idlen3", append(bytes.Clone(e.id), 0), e.sig},
					mut{"idlen3hi", append([]byte{0}, e.id...), e.sig},
					mut{"idffff", []byte{0xff, 0xff}, e.sig},
				)
				// signature of the same keys over another message
				muts = append(muts, mut{"sigothermsg", e.id, fx.agg(mForeign, e.claim)})
				if fx.scheme == "simple" {
					muts = append(muts, mut{"idrange", be16(fx.n), e.sig})
					for j := 0; j < fx.n; j++ {
						if e.claim != 1<<uint(j) {
							muts = append(muts, mut{"idswap", be16(j), e.sig})
						}
					}
				} else {
					muts = append(muts, mut{"idrange", be16(fx.nodes), e.sig})
					muts = append(muts, mut{"siginf", e.id, infSig})
					for id := 0; id < fx.nodes; id++ {
						switch {
						case fx.cover[id] == e.claim:
							// same keys (possibly through padding): not a corruption
						case fx.cover[id] == 0:
							muts = append(muts, mut{"idpadding", be16(id), e.sig}, mut{"idpadding-siginf", be16(id), infSig})
						default:
							muts = append(muts, mut{"idswap", be16(id), e.sig})
						}
					}
				}
				for _, m := range muts {
					es := append([]entry(nil), base...)
					es[k] = fx.mkEntry(m.id, m.sig)
					ops = append(ops, op{kind: "MergeSparse", tag: m.tag, hash: fx.hash, entries: es, T: T,
						label: fmt.Sprintf("MergeSparse(%s:%s,entry%d:%s id=%x siglen=%d)", f.name, setStr(T), k, m.tag, m.id, len(m.sig))})
				}
			}
		}
	}
	for i := 0; i < fx.n; i++ {
		ops = append(ops,
			op{kind: "AddSignature", tag: "othermsg", key: fx.keys[i], sig: fx.leaf[mForeign][i], addClaim: 1 << uint(i), T: 1 << uint(i),
				label: fmt.Sprintf("AddSignature(%d,sig over other message)", i)},
			op{kind: "AddSignature", tag: "otherkey", key: fx.keys[i], sig: fx.leaf[mMain][(i+1)%fx.n], addClaim: 1 << uint(i), addValid: fx.n == 1, T: 1 << uint(i),
				label: fmt.Sprintf("AddSignature(%d,sig of key %d)", i, (i+1)%fx.n)},
		)
	}
	ops = append(ops, op{kind: "AddSignature", tag: "unknownkey", key: fx.foreignKey, sig: fx.foreignSig, label: "AddSignature(key outside the candidate set, its own valid signature)"})
	return ops
}

// operands caches the full proofs offered to Merge within one job.
// Merge is documented not to modify its argument; the harness checks that after every use
// (a modified operand would invalidate later cases, so it is reported as a harness error, not as a verdict).
type operands struct {
	fx     *fixture
	proofs map[string]gcrypto.CommonMessageSignatureProof
	sparse map[string]string
}

func newOperands(fx *fixture) *operands {
	return &operands{fx: fx, proofs: map[string]gcrypto.CommonMessageSignatureProof{}, sparse: map[string]string{}}
}

func (od *operands) build(T set, variant string) gcrypto.CommonMessageSignatureProof {
	fx := od.fx
	p := fx.newProof(mMain)
	if variant == "sparse" {
		sp := gcrypto.SparseSignatureProof{PubKeyHash: fx.hash}
		for _, e := range fx.minimalEntries(T) {
			sp.Signatures = append(sp.Signatures, gcrypto.SparseSignature{KeyID: e.id, Sig: e.sig})
		}
		p.MergeSparse(sp)
	} else {
		for i := 0; i < fx.n; i++ {
			if T&(1<<uint(i)) != 0 {
				_ = p.AddSignature(fx.leaf[mMain][i], fx.keys[i])
			}
		}
	}
	return p
}

func (od *operands) get(T set, variant string, col *collector) gcrypto.CommonMessageSignatureProof {
	k := fmt.Sprintf("%s/%x", variant, T)
	if p, ok := od.proofs[k]; ok {
		return p
	}
	p := od.build(T, variant)
	if got, ok := bitsOf(p); !ok || got != T {
		col.harnessErr(fmt.Sprintf("operand %s for %s n=%d has signer set %s (the same defect is reported by the length-1 sequences)", k, od.fx.scheme, od.fx.n, setStr(got)))
	}
	od.proofs[k] = p
	od.sparse[k] = sparseString(p.AsSparse())
	return p
}

func (od *operands) checkUntouched(T set, variant string, col *collector) {
	k := fmt.Sprintf("%s/%x", variant, T)
	p := od.proofs[k]
	if p == nil {
		return
	}
	got, ok := bitsOf(p)
	if !ok || got != T || sparseString(p.AsSparse()) != od.sparse[k] {
		col.harnessErr(fmt.Sprintf("Merge modified its argument (operand %s, %s n=%d)", k, od.fx.scheme, od.fx.n))
		delete(od.proofs, k)
	}
}

// stepResult is what one applied op looked like.
type stepResult struct {
	after   set
	grew    bool
	viol    bool
	paniced bool
}

// apply runs o on p (model set M) and checks every clause of the merge laws.
// ctx describes the sequence so far, for messages.
func (fx *fixture) apply(p gcrypto.CommonMessageSignatureProof, M set, o *op, od *operands, col *collector, ctx func() string) stepResult {
	// signature = clause : scheme : operation : what went wrong : kind of offer ("ok" = uncorrupted)
	sigp := func(clause, detail string) string {
		return fmt.Sprintf("%s:%s:%s%s:%s", clause, fx.scheme, o.kind, detail, o.tag)
	}
	where := func() string {
		return fmt.Sprintf("%s n=%d, %s, then %s on signer set %s", fx.scheme, fx.n, ctx(), o.label, setStr(M))
	}
	var res gcrypto.SignatureProofMergeResult
	var err error
	var pi *panicInfo
	switch o.kind {
	case "Merge":
		other := od.get(o.T, o.variant, col)
		pi = safely(func() { res = p.Merge(other) })
		od.checkUntouched(o.T, o.variant, col)
	case "MergeSparse":
		sp := gcrypto.SparseSignatureProof{PubKeyHash: o.hash}
		for _, e := range o.entries {
			// fresh slices every time: the code under test may keep or modify them
			sp.Signatures = append(sp.Signatures, gcrypto.SparseSignature{KeyID: cloneKeepNil(e.id), Sig: cloneKeepNil(e.sig)})
		}
		pi = safely(func() { res = p.MergeSparse(sp) })
	case "AddSignature":
		pi = safely(func() { err = p.AddSignature(cloneKeepNil(o.sig), o.key) })
	}
	if pi != nil {
		col.violate(fmt.Sprintf("panic:%s:%s@%s:%s", fx.scheme, o.kind, pi.frame, o.tag),
			fmt.Sprintf("%s: panic %q in %s", where(), pi.val, pi.frame))
		col.outcome("panic:" + o.kind + ":" + o.tag)
		return stepResult{after: M, viol: true, paniced: true}
	}
	got, inRange := bitsOf(p)
	sr := stepResult{after: got}
	if !inRange || got&^fx.full() != 0 {
		col.violate(sigp("union", ":bit-beyond-keys"), fmt.Sprintf("%s: a bit at or beyond the number of candidate keys is set (%s)", where(), setStr(got)))
		sr.viol = true
	}

	// Expected signer set.
	must, may := M, M
	offeredAll := set(0) // every key named by a well-formed id, valid or not
	anyInvalid, anyAmbValid, anyAmb := false, false, false
	switch o.kind {
	case "Merge":
		must, may = M|o.T, M|o.T
		offeredAll = o.T
	case "MergeSparse":
		if o.hash == fx.hash {
			for _, e := range o.entries {
				switch {
				case e.amb:
					anyAmb = true
					if e.valid {
						anyAmbValid = true
						may |= e.claim
					} else {
						anyInvalid = true
					}
				case e.valid:
					must |= e.claim
					may |= e.claim
					offeredAll |= e.claim
				default:
					anyInvalid = true
					offeredAll |= e.claim
				}
			}
		}
	case "AddSignature":
		if o.addValid {
			must, may = M|o.addClaim, M|o.addClaim
		}
	}
	if got&must != must || got&^may != 0 {
		clause := "union"
		detail := ""
		if got&^may != 0 {
			detail = ":unverified-bit-set"
		} else {
			detail = ":verified-signer-missing"
		}
		if got&M != M {
			detail = ":prior-signer-lost"
		}
		col.violate(sigp(clause, detail), fmt.Sprintf("%s: signer set afterwards is %s, want %s (prior ∪ offered signers that verify)", where(), setStr(got), setStr(must)))
		sr.viol = true
	}
	sr.grew = got != M

	switch o.kind {
	case "AddSignature":
		if o.addValid && err != nil {
			col.violate(sigp("flag", ":error-on-valid"), fmt.Sprintf("%s: AddSignature returned %v for a valid signature of a candidate key", where(), err))
			sr.viol = true
		}
		if !o.addValid && err == nil {
			col.violate(sigp("flag", ":nil-error-on-invalid"), fmt.Sprintf("%s: AddSignature returned nil for a signature that does not verify / an unknown key", where()))
			sr.viol = true
		}
		col.outcome(fmt.Sprintf("AddSignature:%s:err=%v:grew=%v", o.tag, err != nil, sr.grew))
		return sr
	}

	col.outcome(fmt.Sprintf("%s:%s:valid=%v,incr=%v,superset=%v,grew=%v", o.kind, o.tag, res.AllValidSignatures, res.IncreasedSignatures, res.WasStrictSuperset, sr.grew))

	// IncreasedSignatures <=> the set grew (checked against what actually happened).
	if res.IncreasedSignatures != sr.grew {
		col.violate(sigp("flag", fmt.Sprintf(":IncreasedSignatures=%v-but-grew=%v", res.IncreasedSignatures, sr.grew)),
			fmt.Sprintf("%s: IncreasedSignatures=%v but the signer set went %s -> %s", where(), res.IncreasedSignatures, setStr(M), setStr(got)))
		sr.viol = true
	}
	if o.kind == "MergeSparse" && o.hash != fx.hash {
		// Offer for another key set: nothing may change (checked above). The statement does not fix the other flags.
		return sr
	}
	// AllValidSignatures <=> nothing offered failed.
	switch {
	case anyInvalid && res.AllValidSignatures:
		col.violate(sigp("flag", ":AllValidSignatures=true-with-invalid-offer"),
			fmt.Sprintf("%s: AllValidSignatures=true although an offered signature does not verify", where()))
		sr.viol = true
	case !anyInvalid && !anyAmbValid && !res.AllValidSignatures:
		col.violate(sigp("flag", ":AllValidSignatures=false-with-all-valid"),
			fmt.Sprintf("%s: AllValidSignatures=false although every offered signature verifies", where()))
		sr.viol = true
	}
	// WasStrictSuperset, only where its meaning is unambiguous:
	//   offered (as named by the ids) is not a superset of prior          => false
	//   all offered valid, offered is a strict superset of prior, and not both empty => true
	//   all offered valid, offered == prior, prior non-empty               => false
	// Left unchecked: both empty (the code's own comment doubts its choice), strict superset with some invalid
	// offers (Merge and MergeSparse of the simple scheme differ, gordian's compliance test expects true),
	// and offers containing an over-long key id.
	if !anyAmb {
		want, known := false, false
		switch {
		case offeredAll&M != M:
			want, known = false, true
		case !anyInvalid && offeredAll != M:
			want, known = true, true // offeredAll ⊋ M
		case !anyInvalid && offeredAll == M && M != 0:
			want, known = false, true
		}
		if known && res.WasStrictSuperset != want {
			col.violate(sigp("flag", fmt.Sprintf(":WasStrictSuperset=%v-want-%v", res.WasStrictSuperset, want)),
				fmt.Sprintf("%s: WasStrictSuperset=%v, offered %s (all valid=%v) against prior %s", where(), res.WasStrictSuperset, setStr(offeredAll), !anyInvalid, setStr(M)))
			sr.viol = true
		}
	}
	return sr
}

func cloneKeepNil(b []byte) []byte {
	if b == nil {
		return nil
	}
	return append([]byte{}, b...)
}

// roundTrip: a fresh proof fed with p's own sparse form has p's signer set,
// every transmitted signature verifies (harness's verdict), and the merge reports all valid.
func (fx *fixture) roundTrip(p gcrypto.CommonMessageSignatureProof, M set, col *collector, ctx func() string) {
	var sp gcrypto.SparseSignatureProof
	if pi := safely(func() { sp = p.AsSparse() }); pi != nil {
		col.violate(fmt.Sprintf("panic:%s:AsSparse@%s", fx.scheme, pi.frame), fmt.Sprintf("%s n=%d, %s: AsSparse panics: %s", fx.scheme, fx.n, ctx(), pi.val))
		return
	}
	// What follows is a function of (sparse form, signer set) only — a fresh proof is fed the sparse form —
	// so one evaluation per distinct pair and job is enough.
	memoKey := fmt.Sprintf("%x/%s", M, sparseString(sp))
	if fx.rtSeen[memoKey] {
		col.count("roundtrips_same_sparse_form_already_checked", 1)
		return
	}
	fx.rtSeen[memoKey] = true
	var named set
	for _, e := range sp.Signatures {
		c := fx.claimOf(e.KeyID)
		if !fx.sigValid(mMain, c, e.Sig) {
			col.violate(fmt.Sprintf("roundtrip:%s:sparse-entry-does-not-verify", fx.scheme),
				fmt.Sprintf("%s n=%d, %s: AsSparse entry id=%x names keys %s but its signature is not theirs", fx.scheme, fx.n, ctx(), e.KeyID, setStr(c)))
		}
		named |= c
	}
	if named != M {
		col.violate(fmt.Sprintf("roundtrip:%s:sparse-names-other-set", fx.scheme),
			fmt.Sprintf("%s n=%d, %s: AsSparse names %s, signer set is %s", fx.scheme, fx.n, ctx(), setStr(named), setStr(M)))
	}
	q := fx.newProof(mMain)
	var res gcrypto.SignatureProofMergeResult
	if pi := safely(func() { res = q.MergeSparse(sp) }); pi != nil {
		col.violate(fmt.Sprintf("panic:%s:MergeSparse:own-sparse@%s", fx.scheme, pi.frame), fmt.Sprintf("%s n=%d, %s: MergeSparse of own sparse form panics: %s", fx.scheme, fx.n, ctx(), pi.val))
		return
	}
	got, ok := bitsOf(q)
	if !ok || got != M {
		col.violate(fmt.Sprintf("roundtrip:%s:rebuilt-set-differs", fx.scheme),
			fmt.Sprintf("%s n=%d, %s: proof rebuilt from its sparse form has signer set %s, original %s", fx.scheme, fx.n, ctx(), setStr(got), setStr(M)))
	}
	if !res.AllValidSignatures || res.IncreasedSignatures != (M != 0) {
		col.violate(fmt.Sprintf("roundtrip:%s:flags", fx.scheme),
			fmt.Sprintf("%s n=%d, %s: merging own sparse form into a fresh proof reported %+v (signer set %s)", fx.scheme, fx.n, ctx(), res, setStr(M)))
	}
	col.count("roundtrips", 1)
	col.count("sparse_entries_verified_by_harness", int64(len(sp.Signatures)))
	if fx.scheme == "bls" && len(sp.Signatures) < bits.OnesCount64(M) {
		col.count("roundtrips_with_aggregated_entries", 1)
	}
}
