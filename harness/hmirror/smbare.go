//go:build verif

package hmirror

import (
	"context"
	"encoding/json"
	"fmt"
	"log/slog"
	"os"
	"runtime"
	"strconv"
	"strings"
	"testing"
	"testing/synctest"

	"github.com/gordian-engine/gordian/gassert/gasserttest"
	"github.com/gordian-engine/gordian/gcrypto"
	"github.com/gordian-engine/gordian/gwatchdog"
	"github.com/gordian-engine/gordian/internal/zzverif/vx"
	"github.com/gordian-engine/gordian/tm/tmconsensus"
	"github.com/gordian-engine/gordian/tm/tmengine/internal/tmeil"
	"github.com/gordian-engine/gordian/tm/tmengine/internal/tmstate"
)

// The bare state machine harness: the real tmstate.StateMachine (with its consensus manager) alone, the harness
// playing the mirror on the two channels of the state machine's interface (round entrances in, round views out)
// besides strategy, timer, driver, signer and stores as in the engine harness. Unlike the engine harness, the views
// are made by the explorer, so that every order the channel interface permits is reachable - views that grow in any
// order, repeated views, views of a round or height the state machine has left (a send that was already in
// flight), jump-ahead views, committed headers - and the same trace monitors (C02, C08, C12a) run.

type bareEnv struct {
	sm     *tmstate.StateMachine
	viewCh chan tmeil.StateMachineRoundView
	entCh  chan tmeil.StateMachineRoundEntrance
	ent    *tmeil.StateMachineRoundEntrance // received, not yet answered
	cur    *tmeil.StateMachineRoundEntrance // last answered
	views  map[[2]uint64]*tmconsensus.VersionedRoundView
	last   *tmeil.StateMachineRoundView // last view sent
	lastOf map[uint64][2]uint64         // per height: the last round answered
	shown  map[[2]uint64]uint32         // per round: the highest version handed to the state machine
	catchUp bool                        // the last entrance was answered with a committed header: no round views until the next entrance
	sent   int

	// Controlled main select of the state machine (harness/tools/selxform): the kernel is held at the entry of its
	// main select (gate) until the harness has applied one event - or, for a BATCH, several - and then polls its
	// inputs in natural order, or with one preferred case first.
	gated      bool
	gate       chan struct{}
	atGate     bool
	lastPicked int
	pref       int // case polled first in the next pass (-1: natural order)
	batch      int // events still to be applied before the kernel is released
	dirty      bool                          // the current round's model view changed since the last delivery
	explicit   *tmeil.StateMachineRoundView  // a specific (stale) view waiting to be delivered
	sending    bool
	cancelSend chan struct{}
	passes     int
	onPass     func() // called after every pass of the controlled select
	multiReady int
}

func (n *node) up() bool {
	if n.bare != nil {
		return n.bare.sm != nil
	}
	return n.e != nil
}

func (n *node) startBare() {
	b := n.bare
	w := n.w
	b.viewCh = make(chan tmeil.StateMachineRoundView)
	b.entCh = make(chan tmeil.StateMachineRoundEntrance)
	b.ent, b.cur, b.last = nil, nil, nil
	wd, wctx := gwatchdog.NewNopWatchdog(n.ctx, discardLog)
	signer := hSigner{n: n, inner: tmconsensus.PassthroughSigner{Signer: w.keys[n.keyIdx].Signer, SignatureScheme: w.ss}}
	gen := tmconsensus.Genesis{ChainID: "verif-chain", InitialHeight: initialH, CurrentAppStateHash: []byte("app-0"), ValidatorSet: w.VS(initialH)}
	if _, _, _, _, err := n.st.fs.LoadFinalizationByHeight(n.ctx, initialH-1); err != nil {
		// What the engine does when it initializes the chain.
		gh, err := gen.Header(w.hs)
		if err != nil {
			n.startErr = "genesis header: " + err.Error()
			return
		}
		if err := n.st.fs.SaveFinalization(n.ctx, initialH-1, 0, string(gh.Hash), gen.ValidatorSet, "app-0"); err != nil {
			n.startErr = "genesis finalization: " + err.Error()
			return
		}
	}
	cfg := tmstate.StateMachineConfig{
		Signer:                            signer,
		HashScheme:                        w.hs,
		SignatureScheme:                   w.ss,
		CommonMessageSignatureProofScheme: w.cs,
		Genesis:                           gen,
		ActionStore:                       fActionStore{n.st.as, n},
		FinalizationStore:                 fFinStore{n.st.fs, n},
		StateMachineStore:                 fSMStore{n.st.ss, n},
		RoundTimer:                        hRoundTimer{n},
		ConsensusStrategy:                 hStrategy{n},
		RoundViewInCh:                     b.viewCh,
		RoundEntranceOutCh:                b.entCh,
		BlockDataArrivalCh:                n.bda,
		FinalizeBlockRequestCh:            n.finCh,
		Watchdog:                          wd,
		AssertEnv:                         gasserttest.DefaultEnv(),
	}
	b.gated = tmstate.VerifSelectCountStatemachine > 0
	if b.gated {
		b.gate = make(chan struct{})
		b.atGate, b.pref, b.sending = false, -1, false
		ctx := n.ctx
		tmstate.VerifSetSelectHooks(func(name string, cases int) []int {
			if !strings.HasPrefix(name, "handleLiveEvent") {
				return nil
			}
			b.atGate = true
			select {
			case <-b.gate:
			case <-ctx.Done():
			}
			b.atGate = false
			order := make([]int, 0, cases)
			if b.pref >= 0 && b.pref < cases {
				order = append(order, b.pref)
			}
			for i := 0; i < cases; i++ {
				if i != b.pref {
					order = append(order, i)
				}
			}
			b.pref = -1
			return order
		}, func(name string, i int) {
			if strings.HasPrefix(name, "handleLiveEvent") {
				b.lastPicked = i
			}
		}, func(name string) bool {
			return strings.HasPrefix(name, "handleLiveEvent") && ctx.Err() == nil
		})
	}
	sm, err := tmstate.NewStateMachine(wctx, slog.New(capLog{n}), cfg)
	if err != nil {
		n.startErr = "error: " + err.Error()
		return
	}
	b.sm = sm
	synctest.Wait()
}

func (n *node) stopBare() {
	b := n.bare
	if b.cancelSend != nil {
		close(b.cancelSend)
		b.cancelSend = nil
	}
	n.cancel()
	synctest.Wait()
	if b.sm != nil {
		b.sm.Wait()
	}
	b.sm = nil
	if b.gated {
		tmstate.VerifSetSelectHooks(nil, nil, nil)
	}
}

// view returns the model mirror's view of h/r, creating an empty one.
func (b *bareEnv) view(w *world, h uint64, r uint32) *tmconsensus.VersionedRoundView {
	k := [2]uint64{h, uint64(r)}
	if v, ok := b.views[k]; ok {
		return v
	}
	vs := w.VS(h)
	sum := tmconsensus.NewVoteSummary()
	sum.SetAvailablePower(vs.Validators)
	v := &tmconsensus.VersionedRoundView{
		RoundView: tmconsensus.RoundView{
			Height: h, Round: r, ValidatorSet: vs,
			PrevCommitProof: w.commitProofFor(h - 1),
			PrevoteProofs:   map[string]gcrypto.CommonMessageSignatureProof{},
			PrecommitProofs: map[string]gcrypto.CommonMessageSignatureProof{},
			VoteSummary:     sum,
		},
		Version: 1, PrevoteVersion: 1, PrecommitVersion: 1,
		PrevoteBlockVersions:   map[string]uint32{},
		PrecommitBlockVersions: map[string]uint32{},
	}
	b.views[k] = v
	return v
}

// addVote merges one signature into the model view; it reports whether the view grew.
func (b *bareEnv) addVote(w *world, kind byte, h uint64, r uint32, target string, sg gcrypto.SparseSignature) bool {
	v := b.view(w, h, r)
	proofs, vers := v.PrevoteProofs, v.PrevoteBlockVersions
	if kind == 'c' {
		proofs, vers = v.PrecommitProofs, v.PrecommitBlockVersions
	}
	p := proofs[target]
	if p == nil {
		var err error
		p, err = w.cs.New(w.voteContent(kind, h, r, target), v.ValidatorSet.PubKeys, string(v.ValidatorSet.PubKeyHash))
		if err != nil {
			panic(err)
		}
		proofs[target] = p
	}
	res := p.MergeSparse(gcrypto.SparseSignatureProof{PubKeyHash: string(v.ValidatorSet.PubKeyHash), Signatures: []gcrypto.SparseSignature{sg}})
	if !res.IncreasedSignatures {
		return false
	}
	vers[target]++
	v.Version++
	if kind == 'p' {
		v.PrevoteVersion++
		v.VoteSummary.SetPrevotePowers(v.ValidatorSet.Validators, v.PrevoteProofs)
	} else {
		v.PrecommitVersion++
		v.VoteSummary.SetPrecommitPowers(v.ValidatorSet.Validators, v.PrecommitProofs)
	}
	return true
}

// noteShown records every vote of a view as delivered to the state machine (the monitors' notion of what it may act on).
func (s *sys) noteShown(v *tmconsensus.VersionedRoundView) {
	var bs = func(kind byte, proofs map[string]gcrypto.CommonMessageSignatureProof) {
		for target, p := range proofs {
			for _, sg := range p.AsSparse().Signatures {
				if len(sg.KeyID) == 2 {
					s.noteDelivered(kind, v.Height, v.Round, target, int(sg.KeyID[0])<<8|int(sg.KeyID[1]))
				}
			}
		}
	}
	bs('p', v.PrevoteProofs)
	bs('c', v.PrecommitProofs)
}

// send hands one round view to the state machine if it is receiving.
func (b *bareEnv) send(s *sys, rv tmeil.StateMachineRoundView) string {
	if b.sm == nil {
		return "node-down"
	}
	if b.gated {
		// Delivered when the kernel is released (pump): the current round's view is rebuilt then, a specific view
		// (of a round or height already left) is kept as it is.
		if b.cur != nil && (rv.VRV.Height == 0 || (rv.VRV.Height == b.cur.H && rv.VRV.Round == b.cur.R)) {
			b.dirty = true
		} else {
			c := rv
			b.explicit = &c
		}
		return "posted"
	}
	s.noteShown(&rv.VRV)
	if rv.JumpAheadRoundView != nil {
		s.noteShown(rv.JumpAheadRoundView)
	}
	synctest.Wait()
	select {
	case b.viewCh <- rv:
		b.sent++
		if rv.VRV.Height > 0 {
			b.shown[[2]uint64{rv.VRV.Height, uint64(rv.VRV.Round)}] = rv.VRV.Version
		}
		b.last = &rv
		if b.cur != nil && rv.VRV.Height == b.cur.H && rv.VRV.Round == b.cur.R {
			s.eng.lastVoting = rv.VRV.Clone()
		}
		synctest.Wait()
		return "sent"
	default:
		return "n/a:state-machine-not-receiving"
	}
}

// delivered: bookkeeping at the moment the state machine took a view.
func (b *bareEnv) delivered(s *sys, rv tmeil.StateMachineRoundView) {
	s.noteShown(&rv.VRV)
	if rv.JumpAheadRoundView != nil {
		s.noteShown(rv.JumpAheadRoundView)
	}
	b.sent++
	b.last = &rv
	if rv.VRV.Height > 0 {
		b.shown[[2]uint64{rv.VRV.Height, uint64(rv.VRV.Round)}] = rv.VRV.Version
	}
	if b.cur != nil && rv.VRV.Height == b.cur.H && rv.VRV.Round == b.cur.R {
		s.eng.lastVoting = rv.VRV.Clone()
	}
}

// offer makes the view the mirror would send now ready on the channel (a sender blocked in the send, as the
// mirror kernel's select is); a newer view replaces an offered one that was not taken.
func (b *bareEnv) offer(s *sys) {
	var rv tmeil.StateMachineRoundView
	if b.catchUp {
		b.explicit, b.dirty = nil, false
		return
	}
	switch {
	case b.explicit != nil:
		rv = *b.explicit
	case b.dirty:
		v, ok := b.curView(s)
		if !ok {
			b.dirty = false
			return
		}
		rv = v
	default:
		return
	}
	if b.sending {
		close(b.cancelSend)
		synctest.Wait()
	}
	wasExplicit := b.explicit != nil
	b.explicit = nil
	if !wasExplicit {
		b.dirty = false
	}
	b.sending = true
	cancel := make(chan struct{})
	b.cancelSend = cancel
	go func() {
		select {
		case b.viewCh <- rv:
			b.sending = false
			b.delivered(s, rv)
		case <-cancel:
			b.sending = false
		}
	}()
	synctest.Wait()
}

// pump releases the gated kernel pass by pass until a pass finds nothing ready or the kernel waits elsewhere (for an
// entrance response, a strategy answer).
func (b *bareEnv) pump(s *sys) {
	if !b.gated {
		b.drain(s)
		return
	}
	for i := 0; i < 64; i++ {
		b.drain(s)
		if b.sm == nil || !b.atGate {
			return
		}
		b.offer(s)
		b.lastPicked = -1
		select {
		case b.gate <- struct{}{}:
		default:
			return
		}
		b.passes++
		synctest.Wait()
		if b.lastPicked < 0 {
			return
		}
		if b.onPass != nil {
			b.onPass()
		}
	}
}

// curView builds the message a mirror would send for the state machine's current round now.
func (b *bareEnv) curView(s *sys) (tmeil.StateMachineRoundView, bool) {
	if b.cur == nil || b.catchUp {
		// A state machine that was handed the committed header of its height replays it; the mirror has no round
		// view for it until it enters the next height.
		return tmeil.StateMachineRoundView{}, false
	}
	w := s.w
	v := b.view(w, b.cur.H, b.cur.R).Clone()
	out := tmeil.StateMachineRoundView{VRV: v}
	if v.Version <= b.shown[[2]uint64{b.cur.H, uint64(b.cur.R)}] {
		// Versions handed to the state machine increase strictly (it terminates the process otherwise): an unchanged
		// round view is left out, as the mirror does when only the jump-ahead signal is new.
		out.VRV = tmconsensus.VersionedRoundView{}
	}
	// Jump ahead: a later round of this height holds votes of at least a third of the power. A mirror that has seen
	// the height commit votes on the next height and signals no further rounds of this one.
	committed := false
	for k, rvw := range b.views {
		if k[0] == b.cur.H {
			for target, pow := range rvw.VoteSummary.PrecommitBlockPower {
				if target != "" && pow >= majority(w.total(b.cur.H)) {
					committed = true
				}
			}
		}
	}
	// Nor does it signal a later round together with a view that itself ends the current round (nil quorum or every
	// validator's precommit present): a mirror that saw that has moved its own voting round on before, so later-round
	// votes are votes of its voting round, not grounds for a jump.
	if cv := b.views[[2]uint64{b.cur.H, uint64(b.cur.R)}]; cv != nil {
		tot := w.total(b.cur.H)
		if cv.VoteSummary.PrecommitBlockPower[""] >= majority(tot) || cv.VoteSummary.TotalPrecommitPower == tot {
			committed = true
		}
	}
	for r := b.cur.R + 1; r < b.cur.R+4 && !committed; r++ {
		lv, ok := b.views[[2]uint64{b.cur.H, uint64(r)}]
		if !ok {
			continue
		}
		if lv.VoteSummary.TotalPrevotePower >= minority(w.total(b.cur.H)) || lv.VoteSummary.TotalPrecommitPower >= minority(w.total(b.cur.H)) {
			c := lv.Clone()
			out.JumpAheadRoundView = &c
		}
	}
	if out.VRV.Height == 0 && out.JumpAheadRoundView == nil {
		return out, false
	}
	return out, true
}

func (b *bareEnv) apply(s *sys, ev string) (string, bool) {
	n, w := s.eng, s.w
	parts := strings.Split(ev, ":")
	switch parts[0] {
	case "ENT":
		if b.ent == nil {
			return "n/a:no-entrance-pending", true
		}
		e := b.ent
		var resp tmeil.RoundEntranceResponse
		desc := "vrv"
		if len(parts) > 1 && parts[1] == "ch" {
			// The network has already committed this height: the mirror answers with the committed header.
			if e.H >= w.H {
				return "n/a:height-not-committed-by-the-network", true
			}
			hd := w.header("A", e.H)
			resp.CH = tmconsensus.CommittedHeader{Header: hd, Proof: w.commitProofFor(e.H)}
			_ = n.st.hs.SaveCommittedHeader(context.Background(), resp.CH)
			desc = "ch"
		} else {
			v := b.view(w, e.H, e.R).Clone()
			s.noteShown(&v)
			resp.VRV = v
			b.shown[[2]uint64{e.H, uint64(e.R)}] = v.Version
			n.lastVoting = v.Clone()
		}
		b.ent = nil
		b.cur = e
		b.catchUp = desc == "ch"
		b.lastOf[e.H] = [2]uint64{e.H, uint64(e.R)}
		select {
		case e.Response <- resp:
		default:
			return "response-channel-full", true
		}
		synctest.Wait()
		return "entered:" + desc + fmt.Sprintf(":%d/%d", e.H, e.R), true
	case "PH":
		if b.cur == nil {
			return "n/a:not-entered", true
		}
		h, r := b.cur.H, b.cur.R
		hd := w.header(parts[1], h)
		ph := w.proposal(hd, r, w.proposerIdx(parts[1], r))
		v := b.view(w, h, r)
		for _, have := range v.ProposedHeaders {
			if string(have.Header.Hash) == string(ph.Header.Hash) {
				return "n/a:already-in-view", true
			}
		}
		v.ProposedHeaders = append(v.ProposedHeaders, ph)
		v.Version++
		rv, ok := b.curView(s)
		if !ok {
			return "n/a:nothing-new", true
		}
		return b.send(s, rv), true
	case "V":
		if b.cur == nil {
			return "n/a:not-entered", true
		}
		kind := parts[1][0]
		tgt, pos := parsePos(parts[3])
		h, r := b.cur.H, b.cur.R
		if pos.dh != 0 || int(r)+pos.dr < 0 {
			return "n/a", true
		}
		r = uint32(int(r) + pos.dr)
		target := s.targetHash(tgt, h)
		me := w.idxOf(h, n.keyIdx)
		var others []int
		for i := 0; i < byzIdx; i++ {
			if i != me {
				others = append(others, i)
			}
		}
		var idxs []int
		switch parts[2] {
		case "oh":
			idxs = others
		case "o1":
			idxs = others[:1]
		case "o2":
			idxs = others[1:2]
		default:
			i, _ := strconv.Atoi(parts[2])
			idxs = []int{i}
		}
		grew := false
		for _, i := range idxs {
			if i != byzIdx && !w.honestMay(kind, h, r, i, target) {
				continue
			}
			if b.addVote(w, kind, h, r, target, w.voteSig(kind, h, r, target, i)) {
				grew = true
				if kind == 'c' {
					w.noteHonestPrecommit(h, r, target, i)
				}
			}
		}
		if !grew {
			return "n/a:nothing-new", true
		}
		rv, ok := b.curView(s)
		if !ok || (r != b.cur.R && rv.JumpAheadRoundView == nil) {
			return "noted:later-round", true // a mirror sends nothing to a state machine in another round
		}
		return b.send(s, rv), true
	case "VW":
		if b.cur == nil {
			return "n/a:not-entered", true
		}
		switch parts[1] {
		case "old":
			// A view of the round the state machine has just left (same height), grown since: such a send may already
			// have been on its way when the state machine moved on.
			if b.cur.R == 0 {
				return "n/a:no-earlier-round", true
			}
			h, r := b.cur.H, b.cur.R-1
			// It grows by the Byzantine validator's nil precommit, then by the other validators' nil precommits.
			grew := b.addVote(w, 'c', h, r, "", w.voteSig('c', h, r, "", byzIdx))
			for i := 0; i < byzIdx && !grew; i++ {
				if i != w.idxOf(h, n.keyIdx) && w.honestMay('c', h, r, i, "") {
					grew = b.addVote(w, 'c', h, r, "", w.voteSig('c', h, r, "", i))
				}
			}
			v := b.view(w, h, r)
			if !grew {
				v.Version++
			}
			return b.send(s, tmeil.StateMachineRoundView{VRV: v.Clone()}), true
		case "oldfull":
			// The same with every other validator's nil precommit: a nil quorum for the round already left.
			if b.cur.R == 0 {
				return "n/a:no-earlier-round", true
			}
			h, r := b.cur.H, b.cur.R-1
			for i := 0; i < nVals; i++ {
				if i == w.idxOf(h, n.keyIdx) {
					continue
				}
				if i == byzIdx || w.honestMay('c', h, r, i, "") {
					b.addVote(w, 'c', h, r, "", w.voteSig('c', h, r, "", i))
				}
			}
			v := b.view(w, h, r)
			v.Version++
			return b.send(s, tmeil.StateMachineRoundView{VRV: v.Clone()}), true
		case "oldheight":
			if b.cur.H <= initialH {
				return "n/a:no-earlier-height", true
			}
			k, ok := b.lastOf[b.cur.H-1]
			if !ok {
				return "n/a:no-earlier-height", true
			}
			v := b.view(w, k[0], uint32(k[1]))
			v.Version++
			return b.send(s, tmeil.StateMachineRoundView{VRV: v.Clone()}), true
		}
		return "n/a", true
	case "NCHC":
		// The rest of the network commits this height without waiting for this validator (the other validators' and
		// the Byzantine validator's precommits for A in the current round, with A's proposal), and the mirror's
		// height-committed signal follows at once: the view showing the commit and the signal are ready together.
		if b.cur == nil || b.cur.HeightCommitted == nil || b.catchUp {
			return "n/a", true
		}
		h, r := b.cur.H, b.cur.R
		if w.H != h {
			return "n/a:network-not-at-this-height", true
		}
		v := b.view(w, h, r)
		hd := w.header("A", h)
		have := false
		for _, ph := range v.ProposedHeaders {
			if string(ph.Header.Hash) == string(hd.Hash) {
				have = true
			}
		}
		if !have {
			v.ProposedHeaders = append(v.ProposedHeaders, w.proposal(hd, r, w.proposerIdx("A", r)))
			v.Version++
		}
		me := w.idxOf(h, n.keyIdx)
		for i := 0; i < nVals; i++ {
			if i == me {
				continue
			}
			if i != byzIdx && !w.honestMay('c', h, r, i, string(hd.Hash)) {
				continue
			}
			if b.addVote(w, 'c', h, r, string(hd.Hash), w.voteSig('c', h, r, string(hd.Hash), i)) {
				w.noteHonestPrecommit(h, r, string(hd.Hash), i)
			}
		}
		if w.H <= h {
			return "n/a:no-majority-without-this-validator", true
		}
		b.dirty = true
		func() {
			defer func() { _ = recover() }()
			close(b.cur.HeightCommitted)
		}()
		return "network-committed+signalled", true
	case "HC":
		if b.cur == nil || b.cur.HeightCommitted == nil {
			return "n/a", true
		}
		if w.H <= b.cur.H {
			// The mirror closes it when the committing view of this height is shifted out: the height is committed.
			return "n/a:height-not-committed-by-the-network", true
		}
		func() {
			defer func() { _ = recover() }()
			close(b.cur.HeightCommitted)
		}()
		synctest.Wait()
		return "height-committed-signalled", true
	}
	return "", false
}

// drain: what a mirror does continuously - take the state machine's actions into the round view (and send the grown
// view), receive a round entrance, collect finalization requests.
func (b *bareEnv) drain(s *sys) {
	n, w := s.eng, s.w
	for i := 0; i < 16; i++ {
		synctest.Wait()
		any := false
		if b.ent == nil {
			select {
			case e := <-b.entCh:
				b.ent = &e
				any = true
			default:
			}
		}
		if b.cur != nil && b.cur.Actions != nil {
			select {
			case a := <-b.cur.Actions:
				any = true
				h, r := b.cur.H, b.cur.R
				me := w.idxOf(h, n.keyIdx)
				v := b.view(w, h, r)
				switch {
				case len(a.PH.Header.Hash) > 0:
					v.ProposedHeaders = append(v.ProposedHeaders, a.PH)
					v.Version++
				case a.Prevote.Sig != nil && me >= 0:
					b.addVote(w, 'p', h, r, a.Prevote.TargetHash, gcrypto.SparseSignature{KeyID: keyID(me), Sig: a.Prevote.Sig})
				case a.Precommit.Sig != nil && me >= 0:
					b.addVote(w, 'c', h, r, a.Precommit.TargetHash, gcrypto.SparseSignature{KeyID: keyID(me), Sig: a.Precommit.Sig})
				}
				if rv, ok := b.curView(s); ok {
					b.send(s, rv)
				}
			default:
			}
		}
		select {
		case req := <-n.finCh:
			n.pendingFin = append(n.pendingFin, req)
			n.t("fin-req", "", req.Header.Height, req.Round, string(req.Header.Hash), "")
			any = true
		default:
		}
		if !any {
			return
		}
	}
}

func bareRound(target string) []string {
	if target == "nil" {
		return []string{"ENT", "SR", "TF", "SR", "V:p:oh:nil", "SR", "V:c:oh:nil"}
	}
	return []string{"ENT", "SR", "PH:A", "SR", "V:p:oh:A", "SR", "V:c:oh:A", "DR", "TF"}
}

// bareScript: three heights, the second with a nil round first.
func bareScript() []string {
	var s []string
	s = append(s, bareRound("A")...)
	s = append(s, bareRound("nil")...)
	s = append(s, bareRound("A")...)
	s = append(s, bareRound("A")...)
	s = append(s, "ENT")
	return s
}

func bareAlphabet() []string {
	var a []string
	for _, p := range []string{"", "@0,1", "@0,2"} {
		for _, who := range []string{"o1", "oh", "3"} {
			for _, t := range []string{"A", "B", "nil"} {
				a = append(a, fmt.Sprintf("V:p:%s:%s%s", who, t, p))
			}
			for _, t := range []string{"A", "nil"} {
				a = append(a, fmt.Sprintf("V:c:%s:%s%s", who, t, p))
			}
		}
	}
	a = append(a, "PH:A", "PH:B", "ENT", "ENT:ch", "VW:old", "VW:oldfull", "VW:oldheight", "HC", "NCHC",
		"SR", "SR:propose", "SR:A", "SR:B", "SR:nil", "SR:notready", "TF", "DR", "PROP", "BDA", "Restart")
	return a
}

func init() {
	registry.Execs["smbare"] = execBare
}

func execBare(t *testing.T, job vx.Job) (res vx.Result) {
	props := strings.Split(job.Args["props"], ",")
	script := bareScript()
	var events []string
	switch job.Args["mode"] {
	case "raw":
		seed, _ := strconv.Atoi(job.Args["seed"])
		events = append(append([]string{}, script[:seed]...), job.Hist...)
	default:
		events = buildEvents(script, job.Hist)
	}
	synctest.Test(t, func(t *testing.T) {
		res = runBare(events, props, job.Args)
	})
	return res
}

func runBare(events []string, props []string, args map[string]string) (res vx.Result) {
	w := newWorld()
	w.exclKey = nodeKey
	n := &node{w: w, keyIdx: nodeKey, name: "sm"}
	n.bare = &bareEnv{views: map[[2]uint64]*tmconsensus.VersionedRoundView{}, lastOf: map[uint64][2]uint64{}, shown: map[[2]uint64]uint32{}}
	n.st = newNodeStores(w)
	n.start()
	b := n.bare
	s := &sys{w: w, eng: n, st: &n.st.stores, rhr: n.rhr, recrash: -1}
	s.sm.acted = map[string]bool{}
	n.sys = s
	o := newOracles(s, &res, props)
	mon := newNodeMonitor(o, n)
	defer func() { n.stop() }()
	if n.startErr != "" {
		res.HarnessErr = "fresh state machine failed to start: " + n.startErr
		return
	}
	check := func() {
		o.prevSnap = s.snapshot()
		mon.check()
	}
	b.onPass = func() {
		// At rest between two passes; what was delivered so far is what the state machine has seen.
		b.drain(s)
		mon.partial = true
		check()
		mon.partial = false
	}
	b.pump(s)
	check()
	for i, ev := range events {
		s.step, n.step = i, i
		s.curEvent = ev
		var result string
		if ev == "Restart" {
			result = n.restart()
			s.results = append(s.results, fmt.Sprintf("%3d %-28s %s", i, ev, result))
			if strings.HasPrefix(result, "restart-failed") {
				o.violate("C10", "restart-failed:"+normRestartErr(result), result)
				break
			}
		} else if strings.HasPrefix(ev, "BATCH:") {
			// BATCH:<n>:<case>: the next n events reach the state machine's inputs before its kernel looks at any of
			// them; it then takes the named select case first if that one is ready.
			p := strings.Split(ev, ":")
			cnt, _ := strconv.Atoi(p[1])
			pc, _ := strconv.Atoi(p[2])
			result = "n/a:not-gated"
			if b.gated && b.batch == 0 && cnt >= 1 {
				b.batch, b.pref = cnt+1, pc
				result = "batching"
			}
			s.results = append(s.results, fmt.Sprintf("%3d %-28s %s", i, ev, result))
		} else if r, ok := b.apply(s, ev); ok {
			result = r
			s.results = append(s.results, fmt.Sprintf("%3d %-28s %s", i, ev, result))
		} else {
			a := s.apply(ev)
			result = a.result
		}
		if b.batch > 0 {
			b.batch--
		}
		if b.batch == 0 {
			b.pump(s)
			check()
		} else {
			// Inputs are piling up in front of a held kernel: not a point at which the monitors' "at rest" clauses apply.
			b.drain(s)
		}
		res.Keys = append(res.Keys, vx.ShortHash(b.key(s)+mon.key())[:12])
	}
	s.step = len(events)
	n.step = s.step
	s.curEvent = "final"
	b.batch = 0
	b.pump(s)
	o.prevSnap = s.snapshot()
	if os.Getenv("VERIF_STACK") != "" {
		buf := make([]byte, 1<<20)
		buf = buf[:runtime.Stack(buf, true)]
		for _, g := range strings.Split(string(buf), "\n\n") {
			if strings.Contains(g, "tmstate") {
				fmt.Fprintln(os.Stderr, "STACK", g)
			}
		}
	}
	mon.check()
	mon.final()
	res.Key = b.key(s) + mon.key()
	res.Trace = events
	res.Obs, _ = json.Marshal(map[string]any{"sm": fmt.Sprintf("%d/%d", mon.smH, mon.smR), "views_sent": b.sent})
	res.Outcome = fmt.Sprintf("sm%d/%d fin=%d r%d", mon.smH, mon.smR, len(mon.finSaved), n.restarts)
	res.NonTrivial = mon.signed > 0
	res.Count("events_applied", int64(len(events)))
	res.Count("views_sent_to_state_machine", int64(b.sent))
	res.Count("state_machine_select_passes", int64(b.passes))
	if args["results"] == "1" {
		res.Next = s.results
		for _, e := range n.trace {
			res.Next = append(res.Next, fmt.Sprintf("TRACE step=%d %s %s %d/%d %s %s", e.step, e.kind, e.a, e.h, e.r, h8([]byte(e.hash)), strings.ReplaceAll(e.x, "\n", " ")[:min(len(e.x), 20)]))
		}
	}
	vx.EarlyResult(&res) // the verdict is complete; what follows is teardown
	return res
}

// key: canonical state of the bare harness (the model views and what is pending).
func (b *bareEnv) key(s *sys) string {
	var sb strings.Builder
	ks := make([][2]uint64, 0, len(b.views))
	for k := range b.views {
		ks = append(ks, k)
	}
	sortPairs(ks)
	for _, k := range ks {
		sb.WriteString(vrvString(*b.views[k], false))
		sb.WriteByte('\n')
	}
	if b.ent != nil {
		fmt.Fprintf(&sb, "ent %d/%d\n", b.ent.H, b.ent.R)
	}
	if b.cur != nil {
		fmt.Fprintf(&sb, "cur %d/%d\n", b.cur.H, b.cur.R)
	}
	fmt.Fprintf(&sb, "W %d/%d up=%v\n", s.w.H, s.w.R, b.sm != nil)
	return sb.String()
}

func sortPairs(ks [][2]uint64) {
	for i := 1; i < len(ks); i++ {
		for j := i; j > 0 && (ks[j][0] < ks[j-1][0] || (ks[j][0] == ks[j-1][0] && ks[j][1] < ks[j-1][1])); j-- {
			ks[j], ks[j-1] = ks[j-1], ks[j]
		}
	}
}
