//go:build verif

package hmirror

import (
	"context"
	"fmt"
	"sort"
	"strconv"
	"strings"
	"testing"
	"testing/synctest"

	"github.com/gordian-engine/gordian/gassert/gasserttest"
	"github.com/gordian-engine/gordian/gwatchdog"
	"github.com/gordian-engine/gordian/internal/zzverif/vx"
	"github.com/gordian-engine/gordian/tm/tmconsensus"
	"github.com/gordian-engine/gordian/tm/tmdriver"
	"github.com/gordian-engine/gordian/tm/tmengine"
	"github.com/gordian-engine/gordian/tm/tmengine/tmelink"
	"github.com/gordian-engine/gordian/tm/tmstore/tmmemstore"
)

// C09(a): constructor configurations. Every option is absent, valid, or one of its invalid variants; all option
// sets within a Hamming distance of the empty set and of the complete valid set, in several orders.

type ctorOpt struct {
	name string
	// what the error text must contain when this option is what was rejected / missing
	mention string
	valid   func(env *ctorEnv) tmengine.Opt
	// invalid variants: an option value the option itself rejects (returns an error for)
	invalid []func(env *ctorEnv) tmengine.Opt
	// required by validateSettings of the engine / the standalone mirror
	reqEngine, reqMirror bool
	// the option configures the mirror (a standalone mirror accepts it)
	forMirror bool
}

type ctorEnv struct {
	w      *world
	ctx    context.Context
	initCh chan tmdriver.InitChainRequest
	finCh  chan tmdriver.FinalizeBlockRequest
	n      *node // carrier for the harness strategy/timer/gossip implementations
}

func ctorOptions() []ctorOpt {
	return []ctorOpt{
		{name: "WithGenesis", mention: "WithGenesis", reqEngine: true, reqMirror: true, forMirror: true, valid: func(e *ctorEnv) tmengine.Opt {
			return tmengine.WithGenesis(&tmconsensus.ExternalGenesis{ChainID: "c", InitialHeight: initialH, InitialAppState: strings.NewReader(""), GenesisValidatorSet: e.w.VS(initialH)})
		}},
		{name: "WithHashScheme", mention: "WithHashScheme", reqEngine: true, reqMirror: true, forMirror: true, valid: func(e *ctorEnv) tmengine.Opt { return tmengine.WithHashScheme(e.w.hs) }},
		{name: "WithSignatureScheme", mention: "WithSignatureScheme", reqEngine: true, reqMirror: true, forMirror: true, valid: func(e *ctorEnv) tmengine.Opt { return tmengine.WithSignatureScheme(e.w.ss) }},
		{name: "WithCommonMessageSignatureProofScheme", mention: "WithCommonMessageSignatureProofScheme", reqEngine: true, reqMirror: true, forMirror: true, valid: func(e *ctorEnv) tmengine.Opt {
			return tmengine.WithCommonMessageSignatureProofScheme(e.w.cs)
		}},
		{name: "WithMirrorStore", mention: "WithMirrorStore", reqEngine: true, reqMirror: true, forMirror: true, valid: func(e *ctorEnv) tmengine.Opt { return tmengine.WithMirrorStore(tmmemstore.NewMirrorStore()) }},
		{name: "WithRoundStore", mention: "WithRoundStore", reqEngine: true, reqMirror: true, forMirror: true, valid: func(e *ctorEnv) tmengine.Opt { return tmengine.WithRoundStore(tmmemstore.NewRoundStore()) }},
		{name: "WithValidatorStore", mention: "WithValidatorStore", reqEngine: true, reqMirror: true, forMirror: true, valid: func(e *ctorEnv) tmengine.Opt {
			return tmengine.WithValidatorStore(tmmemstore.NewValidatorStore(e.w.hs))
		}},
		{name: "WithCommittedHeaderStore", mention: "WithCommittedHeaderStore", reqMirror: true, forMirror: true, valid: func(e *ctorEnv) tmengine.Opt {
			return tmengine.WithCommittedHeaderStore(tmmemstore.NewCommittedHeaderStore())
		}},
		{name: "WithWatchdog", mention: "WithWatchdog", reqEngine: true, forMirror: true, valid: func(e *ctorEnv) tmengine.Opt {
			wd, _ := gwatchdog.NewNopWatchdog(e.ctx, discardLog)
			return tmengine.WithWatchdog(wd)
		}},
		{name: "WithAssertEnv", mention: "WithAssertEnv", forMirror: true, valid: func(e *ctorEnv) tmengine.Opt { return tmengine.WithAssertEnv(gasserttest.DefaultEnv()) }},
		{name: "WithLagStateChannel", mention: "WithLagStateChannel", forMirror: true,
			valid:   func(e *ctorEnv) tmengine.Opt { return tmengine.WithLagStateChannel(make(chan tmelink.LagState)) },
			invalid: []func(e *ctorEnv) tmengine.Opt{func(e *ctorEnv) tmengine.Opt { return tmengine.WithLagStateChannel(make(chan tmelink.LagState, 1)) }}},
		{name: "WithReplayedHeaderRequestChannel", mention: "WithReplayedHeaderRequestChannel", forMirror: true, valid: func(e *ctorEnv) tmengine.Opt {
			return tmengine.WithReplayedHeaderRequestChannel(make(chan tmelink.ReplayedHeaderRequest))
		}},
		{name: "WithMetricsChannel", mention: "WithMetricsChannel",
			valid: func(e *ctorEnv) tmengine.Opt { return tmengine.WithMetricsChannel(make(chan tmengine.Metrics)) },
			invalid: []func(e *ctorEnv) tmengine.Opt{func(e *ctorEnv) tmengine.Opt {
				ch := make(chan tmengine.Metrics, 1)
				ch <- tmengine.Metrics{}
				return tmengine.WithMetricsChannel(ch)
			}}},
		{name: "WithGossipStrategy", mention: "WithGossipStrategy", reqEngine: true, valid: func(e *ctorEnv) tmengine.Opt { return tmengine.WithGossipStrategy(hGossip{e.n}) }},
		{name: "WithConsensusStrategy", mention: "WithConsensusStrategy", reqEngine: true, valid: func(e *ctorEnv) tmengine.Opt { return tmengine.WithConsensusStrategy(hStrategy{e.n}) }},
		{name: "WithInternalRoundTimer", mention: "WithTimeoutStrategy", reqEngine: true, valid: func(e *ctorEnv) tmengine.Opt { return tmengine.WithInternalRoundTimer(hRoundTimer{e.n}) }},
		{name: "WithActionStore", mention: "WithActionStore", valid: func(e *ctorEnv) tmengine.Opt { return tmengine.WithActionStore(tmmemstore.NewActionStore()) }},
		{name: "WithFinalizationStore", mention: "WithFinalizationStore", reqEngine: true, valid: func(e *ctorEnv) tmengine.Opt { return tmengine.WithFinalizationStore(tmmemstore.NewFinalizationStore()) }},
		{name: "WithStateMachineStore", mention: "WithStateMachineStore", reqEngine: true, valid: func(e *ctorEnv) tmengine.Opt { return tmengine.WithStateMachineStore(tmmemstore.NewStateMachineStore()) }},
		{name: "WithSigner", mention: "WithSigner", valid: func(e *ctorEnv) tmengine.Opt {
			return tmengine.WithSigner(tmconsensus.PassthroughSigner{Signer: e.w.keys[0].Signer, SignatureScheme: e.w.ss})
		}},
		{name: "WithInitChainChannel", mention: "WithInitChainChannel", valid: func(e *ctorEnv) tmengine.Opt { return tmengine.WithInitChainChannel(e.initCh) }},
		{name: "WithBlockFinalizationChannel", mention: "WithBlockFinalizationChannel", reqEngine: true, valid: func(e *ctorEnv) tmengine.Opt { return tmengine.WithBlockFinalizationChannel(e.finCh) }},
		{name: "WithBlockDataArrivalChannel", mention: "WithBlockDataArrivalChannel", valid: func(e *ctorEnv) tmengine.Opt {
			return tmengine.WithBlockDataArrivalChannel(make(chan tmelink.BlockDataArrival))
		}},
	}
}

func init() {
	registry.Execs["ctor"] = execCtor
}

// execCtor: Args: target (engine|mirror), spec = comma separated "<idx>:<v>" with v = "v" (valid) or "i<k>" (invalid variant k),
// in the order in which the options are passed.
func execCtor(t *testing.T, job vx.Job) (res vx.Result) {
	synctest.Test(t, func(t *testing.T) {
		res = runCtor(job)
	})
	return res
}

func runCtor(job vx.Job) (res vx.Result) {
	target := job.Args["target"]
	all := ctorOptions()
	w := newWorld()
	ctx, cancel := context.WithCancel(context.Background())
	defer cancel()
	env := &ctorEnv{w: w, ctx: ctx, initCh: make(chan tmdriver.InitChainRequest, 1), finCh: make(chan tmdriver.FinalizeBlockRequest, 4)}
	env.n = &node{w: w, keyIdx: 0, name: "ctor"}
	present := map[int]string{}
	var opts []tmengine.Opt
	var names []string
	if job.Args["spec"] != "" {
		for _, it := range strings.Split(job.Args["spec"], ",") {
			p := strings.SplitN(it, ":", 2)
			idx, _ := strconv.Atoi(p[0])
			present[idx] = p[1]
			o := all[idx]
			if p[1] == "v" {
				opts = append(opts, o.valid(env))
			} else {
				k, _ := strconv.Atoi(p[1][1:])
				opts = append(opts, o.invalid[k](env))
			}
			names = append(names, o.name+"="+p[1])
		}
	}
	// Expected rejections.
	var mustMention []string
	usable := true // every option passed is meaningful for the target
	anyInvalid := false
	var missingReq []string
	for i, o := range all {
		if v, ok := present[i]; ok && strings.HasPrefix(v, "i") {
			anyInvalid = true
			mustMention = append(mustMention, o.mention)
		}
		if _, ok := present[i]; ok && target == "mirror" && !o.forMirror {
			usable = false
		}
	}
	has := func(name string) bool {
		for i, o := range all {
			if o.name == name {
				v, ok := present[i]
				return ok && v == "v"
			}
		}
		return false
	}
	if !anyInvalid {
		// Missing required options are reported by the constructors' own validation (when no option was rejected:
		// the statement only promises that every *rejected* option is reported).
		for _, o := range all {
			req := o.reqEngine
			if target == "mirror" {
				req = o.reqMirror
			}
			if o.name == "WithActionStore" && target == "engine" && has("WithSigner") {
				req = true
			}
			if o.name == "WithInitChainChannel" && target == "engine" {
				req = true // fresh stores: the chain must be initialised
			}
			if o.name == "WithWatchdog" && target == "mirror" {
				req = true
			}
			if req && !has(o.name) {
				// A missing required option must make construction fail with an error; which of several
				// missing options the text names is not part of the statement.
				missingReq = append(missingReq, o.mention)
			}
		}
	}
	if target == "mirror" && !usable {
		// Options that configure only the state machine are not "its documented options" for a standalone mirror (weaker reading).
		res.Outcome = "skipped:state-machine-option-for-mirror"
		return res
	}
	type built struct {
		e   *tmengine.Engine
		m   tmengine.Mirror
		err error
	}
	var b built
	done := false
	panicked := ""
	go func() {
		defer func() {
			if r := recover(); r != nil {
				panicked = fmt.Sprint(r)
			}
			done = true
		}()
		if target == "engine" {
			b.e, b.err = tmengine.New(ctx, discardLog, opts...)
		} else {
			b.m, b.err = tmengine.NewMirror(ctx, discardLog, opts...)
		}
	}()
	synctest.Wait()
	select {
	case req, ok := <-env.initCh:
		if ok {
			req.Resp <- tmdriver.InitChainResponse{AppStateHash: []byte("app-0")}
			synctest.Wait()
		}
	default:
	}
	desc := target + " [" + strings.Join(names, " ") + "]"
	switch {
	case panicked != "":
		first := panicked
		if i := strings.IndexByte(first, '\n'); i > 0 {
			first = first[:i]
		}
		res.Violate("C09", "constructor-panic:"+target+":"+normaliseMsg(first), desc+" panicked: "+first, 0)
		res.Outcome = "panic"
	case !done:
		res.Violate("C09", "constructor-blocked:"+target, desc+" did not return", 0)
		res.Outcome = "blocked"
	case b.err != nil:
		res.Outcome = "error"
		msg := b.err.Error()
		var missing []string
		for _, m := range mustMention {
			if !strings.Contains(msg, m) {
				missing = append(missing, m)
			}
		}
		if len(mustMention) == 0 && len(missingReq) == 0 {
			res.Violate("C09", "constructor-rejected-valid-configuration:"+target, desc+" returned an error although every required option is present and valid: "+msg, 0)
		}
		if len(missing) > 0 {
			sort.Strings(missing)
			kind := "missing-option-not-reported"
			for i, o := range all {
				if v, ok := present[i]; ok && strings.HasPrefix(v, "i") {
					for _, m := range missing {
						if m == o.mention {
							kind = "rejected-option-error-dropped"
						}
					}
				}
			}
			res.Violate("C09", "constructor-error-incomplete:"+target+":"+kind, desc+" returned an error that does not mention "+strings.Join(missing, ", ")+": "+msg, 0)
		}
	default:
		res.Outcome = "instance"
		if target == "engine" && !has("WithCommittedHeaderStore") {
			res.Violate("C09", "engine-accepts-missing-committed-header-store", desc+" returned a running engine although no committed header store was set: the mirror kernel calls SaveCommittedHeader on a nil store at the first commit", 0)
		}
		if len(missingReq) > 0 {
			sort.Strings(missingReq)
			res.Violate("C09", "constructor-accepted-missing-required-option:"+target, desc+" returned a running instance although these required options are missing: "+strings.Join(missingReq, ", "), 0)
		}
		if len(mustMention) > 0 {
			sort.Strings(mustMention)
			res.Violate("C09", "constructor-accepted-rejected-option:"+target, desc+" returned a running instance although these options were rejected or missing: "+strings.Join(mustMention, ", "), 0)
		}
		// The instance keeps running: it answers a probe message.
		var h tmconsensus.FineGrainedConsensusHandler
		if target == "engine" {
			h = b.e
		} else {
			h = b.m
		}
		probed := false
		probeRes := ""
		go func() {
			defer func() {
				if r := recover(); r != nil {
					probeRes = "panic: " + fmt.Sprint(r)
				}
				probed = true
			}()
			probeRes = h.HandlePrevoteProofs(ctx, tmconsensus.PrevoteSparseProof{Height: 1}).String()
		}()
		synctest.Wait()
		if !probed || probeRes != "Empty" {
			res.Violate("C09", "constructed-instance-not-serving:"+target, fmt.Sprintf("%s: probe message returned %q (answered=%v)", desc, probeRes, probed), 0)
		}
	}
	cancel()
	synctest.Wait()
	if done && panicked == "" && b.err == nil {
		if target == "engine" && b.e != nil {
			b.e.Wait()
		} else if b.m != nil {
			b.m.Wait()
		}
	}
	res.NonTrivial = len(present) > 0
	res.Key = desc
	return res
}

func normaliseMsg(s string) string {
	if len(s) > 70 {
		s = s[:70]
	}
	return s
}

// exploreCtor enumerates option sets within the given Hamming distance of the empty set and of the complete valid set.
func exploreCtor(c *vx.Ctx, dist int) {
	all := ctorOptions()
	type item struct {
		idx int
		v   string
	}
	variants := func(i int) []string {
		vs := []string{"v"}
		for k := range all[i].invalid {
			vs = append(vs, fmt.Sprintf("i%d", k))
		}
		return vs
	}
	var jobs []vx.Job
	seen := map[string]bool{}
	emit := func(target string, set []item) {
		orders := [][]item{set}
		rev := make([]item, len(set))
		for i := range set {
			rev[len(set)-1-i] = set[i]
		}
		orders = append(orders, rev)
		// rejected options first / last
		var bad, good []item
		for _, it := range set {
			if strings.HasPrefix(it.v, "i") {
				bad = append(bad, it)
			} else {
				good = append(good, it)
			}
		}
		if len(bad) > 0 {
			orders = append(orders, append(append([]item{}, bad...), good...), append(append([]item{}, good...), bad...))
		}
		for _, o := range orders {
			var parts []string
			for _, it := range o {
				parts = append(parts, fmt.Sprintf("%d:%s", it.idx, it.v))
			}
			spec := strings.Join(parts, ",")
			if seen[target+spec] {
				continue
			}
			seen[target+spec] = true
			jobs = append(jobs, vx.Job{Exec: "ctor", Args: map[string]string{"target": target, "spec": spec}})
		}
	}
	for _, target := range []string{"engine", "mirror"} {
		// Near the empty set.
		var rec func(start int, cur []item)
		rec = func(start int, cur []item) {
			emit(target, cur)
			if len(cur) == dist {
				return
			}
			for i := start; i < len(all); i++ {
				for _, v := range variants(i) {
					rec(i+1, append(append([]item{}, cur...), item{i, v}))
				}
			}
		}
		rec(0, nil)
		// Near the complete valid set: change up to dist options (remove, or make invalid).
		full := make([]item, len(all))
		for i := range all {
			full[i] = item{i, "v"}
		}
		var rec2 func(start int, cur []item, changed int)
		rec2 = func(start int, cur []item, changed int) {
			var set []item
			for _, it := range cur {
				if it.v != "-" {
					set = append(set, it)
				}
			}
			if target == "mirror" {
				var ms []item
				for _, it := range set {
					if all[it.idx].forMirror {
						ms = append(ms, it)
					}
				}
				set = ms
			}
			emit(target, set)
			if changed == dist {
				return
			}
			for i := start; i < len(all); i++ {
				alts := []string{"-"}
				for k := range all[i].invalid {
					alts = append(alts, fmt.Sprintf("i%d", k))
				}
				for _, a := range alts {
					nc := append([]item{}, cur...)
					nc[i] = item{i, a}
					rec2(i+1, nc, changed+1)
				}
			}
		}
		rec2(0, full, 0)
	}
	c.Extra["constructor_configurations"] = len(jobs)
	n := 0
	st := &exploreStats{keys: map[string]struct{}{}}
	runJobs(c, jobs, st, []string{"C09"}, func(j vx.Job, r vx.Result) {
		n++
		if n%701 == 1 {
			c.Sample(map[string]any{"constructor": j.Args["target"], "options_in_order": r.Key, "outcome": r.Outcome})
		}
	})
}
