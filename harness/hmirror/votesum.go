//go:build verif

package hmirror

import (
	"context"
	"fmt"
	"strconv"
	"testing"

	"github.com/gordian-engine/gordian/gcrypto"
	"github.com/gordian-engine/gordian/internal/zzverif/vx"
	"github.com/gordian-engine/gordian/tm/tmconsensus"
	"github.com/gordian-engine/gordian/tm/tmconsensus/tmconsensustest"
	"github.com/gordian-engine/gordian/tm/tmengine/internal/tmstate"
)

// C06(a): VoteSummary on ALL vote assignments (E-SEQ): n validators, every power vector over a small domain,
// every validator signing any subset of the targets {nil, A, B} (equivocation included).

var vsTargets = []string{"", "block-A-hash", "block-B-hash"}
var vsPowers = []uint64{1, 2, 3, 1_000_000}

func init() {
	registry.Execs["votesum"] = execVoteSum
	_ = tmstate.NewStandardRoundTimer
}

func execVoteSum(t *testing.T, job vx.Job) (res vx.Result) {
	n, _ := strconv.Atoi(job.Args["n"])
	pvIdx, _ := strconv.Atoi(job.Args["pv"])
	keys := tmconsensustest.DeterministicValidatorsEd25519(n)
	vals := make([]tmconsensus.Validator, n)
	x := pvIdx
	for i := 0; i < n; i++ {
		vals[i] = tmconsensus.Validator{PubKey: keys[i].Val.PubKey, Power: vsPowers[x%len(vsPowers)]}
		x /= len(vsPowers)
	}
	pubKeys := tmconsensus.ValidatorsToPubKeys(vals)
	// Proofs per (target, signer subset), built once with real signatures.
	proofs := make([][]gcrypto.CommonMessageSignatureProof, len(vsTargets))
	for ti, tgt := range vsTargets {
		proofs[ti] = make([]gcrypto.CommonMessageSignatureProof, 1<<n)
		msg := []byte("vote for " + tgt)
		sigs := make([][]byte, n)
		for i := 0; i < n; i++ {
			sigs[i], _ = keys[i].Signer.Sign(context.Background(), msg)
		}
		for sub := 1; sub < 1<<n; sub++ {
			p, _ := gcrypto.NewSimpleCommonMessageSignatureProof(msg, pubKeys, "pkh")
			for i := 0; i < n; i++ {
				if sub&(1<<i) != 0 {
					if err := p.AddSignature(sigs[i], pubKeys[i]); err != nil {
						res.HarnessErr = err.Error()
						return
					}
				}
			}
			proofs[ti][sub] = p
		}
	}
	var avail uint64
	for _, v := range vals {
		avail += v.Power
	}
	nAssign := 1
	for i := 0; i < n; i++ {
		nAssign *= 8
	}
	var evals int64
	for a := 0; a < nAssign; a++ {
		// Validator i signs target t iff bit t of its 3-bit digit is set.
		subs := make([]int, len(vsTargets))
		y := a
		for i := 0; i < n; i++ {
			d := y % 8
			y /= 8
			for ti := range vsTargets {
				if d&(1<<ti) != 0 {
					subs[ti] |= 1 << i
				}
			}
		}
		var wantTotal uint64
		union := 0
		want := map[string]uint64{}
		var maxPow uint64
		for ti, tgt := range vsTargets {
			if subs[ti] == 0 {
				continue
			}
			union |= subs[ti]
			var p uint64
			for i := 0; i < n; i++ {
				if subs[ti]&(1<<i) != 0 {
					p += vals[i].Power
				}
			}
			want[tgt] = p
			if p > maxPow {
				maxPow = p
			}
		}
		for i := 0; i < n; i++ {
			if union&(1<<i) != 0 {
				wantTotal += vals[i].Power
			}
		}
		wantMost := ""
		firstMost := true
		for _, tgt := range vsTargets { // lexicographic order: "" < block-A < block-B
			if p, ok := want[tgt]; ok && p == maxPow && firstMost {
				wantMost, firstMost = tgt, false
			}
		}
		for rep := 0; rep < 2; rep++ {
			m := map[string]gcrypto.CommonMessageSignatureProof{}
			order := []int{0, 1, 2}
			if rep == 1 {
				order = []int{2, 1, 0}
			}
			for _, ti := range order {
				if subs[ti] != 0 {
					m[vsTargets[ti]] = proofs[ti][subs[ti]]
				}
			}
			for kind := 0; kind < 2; kind++ {
				vs := tmconsensus.NewVoteSummary()
				vs.SetAvailablePower(vals)
				var total uint64
				var bp map[string]uint64
				var most string
				if kind == 0 {
					vs.SetPrevotePowers(vals, m)
					total, bp, most = vs.TotalPrevotePower, vs.PrevoteBlockPower, vs.MostVotedPrevoteHash
				} else {
					vs.SetPrecommitPowers(vals, m)
					total, bp, most = vs.TotalPrecommitPower, vs.PrecommitBlockPower, vs.MostVotedPrecommitHash
				}
				evals++
				kn := []string{"prevote", "precommit"}[kind]
				desc := func() string {
					return fmt.Sprintf("n=%d powers=%v signer subsets per target {nil,A,B}=%v", n, tmconsensus.ValidatorsToVotePowers(vals), subs)
				}
				if vs.AvailablePower != avail {
					res.Violate("C06", "pure:available-power", fmt.Sprintf("%s: AvailablePower=%d want %d", desc(), vs.AvailablePower, avail), 0)
				}
				if total != wantTotal {
					res.Violate("C06", "pure:total-power-double-count:"+kn, fmt.Sprintf("%s: total %s power %d, distinct validators present hold %d", desc(), kn, total, wantTotal), 0)
				}
				for tgt, p := range want {
					if bp[tgt] != p {
						res.Violate("C06", "pure:block-power:"+kn, fmt.Sprintf("%s: power for %q reported %d want %d", desc(), tgt, bp[tgt], p), 0)
					}
				}
				if len(bp) != len(want) {
					res.Violate("C06", "pure:phantom-block-power:"+kn, fmt.Sprintf("%s: %d targets reported, %d voted", desc(), len(bp), len(want)), 0)
				}
				if len(want) > 0 && most != wantMost {
					res.Violate("C06", "pure:most-voted-not-deterministic-max:"+kn, fmt.Sprintf("%s: most voted %q, want %q (maximum power, ties to the lexicographically smaller hash)", desc(), most, wantMost), 0)
				}
				// The state machine's step derived from the summary must depend on distinct power only.
				if kind == 1 && n >= 1 {
					full := tmconsensus.NewVoteSummary()
					full.SetAvailablePower(vals)
					full.SetPrecommitPowers(vals, m)
					maj := majority(avail)
					if full.TotalPrecommitPower >= maj && wantTotal < maj {
						res.Violate("C06", "pure:precommit-majority-from-sub-majority", desc(), 0)
					}
				}
			}
		}
	}
	res.Count("summaries_evaluated", evals)
	res.NonTrivial = true
	res.Key = job.Args["n"] + "/" + job.Args["pv"]
	res.Outcome = "ok"
	return res
}

func exploreVoteSum(c *vx.Ctx, maxN int) {
	var jobs []vx.Job
	for n := 1; n <= maxN; n++ {
		nv := 1
		for i := 0; i < n; i++ {
			nv *= len(vsPowers)
		}
		for pv := 0; pv < nv; pv++ {
			jobs = append(jobs, vx.Job{Exec: "votesum", Args: map[string]string{"n": fmt.Sprint(n), "pv": fmt.Sprint(pv)}})
		}
	}
	rs := c.Pool.Map(jobs)
	for i, r := range rs {
		c.Absorb(jobs[i], r, "C06")
	}
	c.Extra["pure_vote_summary_power_vectors"] = len(jobs)
	c.Extra["pure_vote_summary_evaluations"] = c.Counter("summaries_evaluated")
	c.Sample(map[string]any{"pure": "n=3 powers from {1,2,3,1e6}^3, each validator signs any subset of {nil,A,B}: 512 assignments x 2 map orders x 2 kinds"})
}
