//go:build verif

package hmirror

import (
	"testing"

	"github.com/gordian-engine/gordian/internal/zzverif/vx"
)

var registry = vx.Registry{
	Pkg:    "hmirror",
	Execs:  map[string]vx.Executor{},
	Checks: map[string]func(*vx.Ctx){},
}

func TestVerif(t *testing.T) {
	dbgT = t
	vx.Main(t, registry)
}
