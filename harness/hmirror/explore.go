//go:build verif

package hmirror

import (
	"fmt"
	"strings"

	"github.com/gordian-engine/gordian/internal/zzverif/vx"
)

var voteVariants = []string{"flip", "wrongkey", "crosskind", "otherround", "othertarget", "zerosig", "emptysig", "idrange", "idN", "idmax", "idlen0", "idlen1", "idlen3", "badpkh", "oldset", "mix", "dupid", "emptymap"}
var phVariants = []string{"forgedNext", "forgedCur", "forgedNextPK", "forgedCurPK", "badhash", "nonval", "badsig", "nokey", "badpcp", "shortpcp", "foreignpcp", "duppcp", "pcpnil3", "pcponlynil3", "emptypcp", "pcpidN", "pcpidlen1", "prevlinkB"}
var replayVariants = []string{"ok", "lowpower", "byzonly", "nextround", "prevH", "nextH", "badhash", "badprev", "foreign", "blockB", "nosigs", "pvsigs"}

// alphabet lists the environment events. "full" is used for single deviations, "core" where the space is squared or cubed.
func alphabet(level string) []string {
	var a []string
	add := func(s ...string) { a = append(a, s...) }
	positions := []string{"", "@0,1", "@0,2", "@0,-1", "@1,0", "@-1,0", "@2,0", "@-2,0"}
	if level == "core" {
		positions = []string{"", "@0,1", "@-1,0"}
	}
	for _, p := range positions {
		// Honest validators: any prevote, precommit only for the honest block or nil.
		whos := []string{"0", "1", "2", "h"}
		if level == "core" {
			whos = []string{"0", "h"}
		}
		for _, who := range whos {
			for _, t := range []string{"A", "B", "nil"} {
				if level == "core" && t == "B" {
					continue
				}
				add(fmt.Sprintf("V:p:%s:%s%s", who, t, p))
			}
			for _, t := range []string{"A", "nil"} {
				add(fmt.Sprintf("V:c:%s:%s%s", who, t, p))
			}
		}
		// The Byzantine validator signs anything.
		for _, k := range []string{"p", "c"} {
			for _, t := range []string{"A", "B", "nil", "X"} {
				if level == "core" && (t == "A" || (t == "X" && p != "")) {
					continue
				}
				add(fmt.Sprintf("V:%s:3:%s%s", k, t, p))
			}
		}
		for _, b := range []string{"A", "B"} {
			if level == "core" && p == "@-1,0" {
				continue
			}
			add("PH:" + b + p)
		}
	}
	for _, k := range []string{"p", "c"} {
		for _, v := range voteVariants {
			if level == "core" && !(v == "zerosig" || v == "flip" || v == "mix") {
				continue
			}
			add(fmt.Sprintf("V:%s:3:A:%s", k, v))
			if level != "core" {
				add(fmt.Sprintf("V:%s:3:X:%s", k, v))
				add(fmt.Sprintf("V:%s:0:A@0,1:%s", k, v))
				add(fmt.Sprintf("V:%s:3:B@0,2:%s", k, v))
				add(fmt.Sprintf("V:%s:0:A@0,2:%s", k, v))
			}
		}
	}
	for _, v := range phVariants {
		if level == "core" && !(v == "forgedNext" || v == "forgedNextPK" || v == "badsig" || v == "pcpnil3" || v == "pcponlynil3" || v == "prevlinkB") {
			continue
		}
		add("PH:A:" + v)
		if level != "core" {
			add("PH:A@0,1:" + v)
		}
		if v == "prevlinkB" || v == "pcpnil3" {
			// ... arriving at a node that is one height behind (the proof first backfills the commit)
			add("PH:A@1,0:" + v)
		}
	}
	for _, v := range replayVariants {
		if level == "core" && !(v == "ok" || v == "foreign" || v == "lowpower" || v == "nosigs") {
			continue
		}
		add("RP:" + v)
	}
	add("FE:A", "FE:B")
	add("VZ:p", "VZ:c")
	add("MAPREV")
	// the caller of the next message gives up at its k-th kernel round-trip point
	add("CANCEL:2")
	if level != "core" {
		// Even points only (just before the caller waits for a reply: the kernel has not answered yet, so giving up
		// is the only ready branch); at the odd points (just before a request is sent) both the send and the
		// cancellation are ready and Go's select picks at random.
		add("CANCEL:4", "CANCEL:6")
	}
	if level != "core" {
		add("VZ:p:pkh", "VZ:c:pkh")
	}
	add("SME", "SMN:h", "SMN:r")
	add("SMA:ph", "SMA:pv:A", "SMA:pv:nil", "SMA:pc:A", "SMA:pc:nil")
	if level != "core" {
		add("SMA:pv:B")
	}
	add("StallG", "StallS", "Restart")
	if level != "core" {
		add("ResumeG", "ResumeS", "RG", "RS")
	}
	return a
}

// singleDeviations: every insertion of an alphabet event at every script position, every drop,
// and every corruption of a scripted network vote.
func singleDeviations(script []string, alpha []string) []string {
	var out []string
	for pos := 0; pos <= len(script); pos++ {
		for _, ev := range alpha {
			out = append(out, fmt.Sprintf("%d:+%s", pos, ev))
		}
	}
	for pos, ev := range script {
		out = append(out, fmt.Sprintf("%d:-", pos))
		if strings.HasPrefix(ev, "V:") {
			for _, v := range voteVariants {
				out = append(out, fmt.Sprintf("%d:~%s:%s", pos, ev, v))
			}
		}
		if strings.HasPrefix(ev, "PH:") {
			for _, v := range phVariants {
				out = append(out, fmt.Sprintf("%d:~%s:%s", pos, ev, v))
			}
		}
	}
	return out
}

type exploreStats struct {
	keys map[string]struct{}
}

// runJobs executes jobs in batches, absorbs them and counts states/transitions.
func runJobs(c *vx.Ctx, jobs []vx.Job, st *exploreStats, props []string, each func(j vx.Job, r vx.Result)) bool {
	const batch = 4096
	for i := 0; i < len(jobs); i += batch {
		if c.OverBudget() {
			c.Extra["jobs_not_run"] = len(jobs) - i
			return false
		}
		end := min(i+batch, len(jobs))
		rs := c.Pool.Map(jobs[i:end])
		// Determinism: a sample of the explored histories is executed twice and must give the same canonical state.
		var dup []vx.Job
		var dupIdx []int
		for k := range rs {
			if (i+k+int(c.Seed))%41 == 7 && rs[k].Crash == "" && rs[k].HarnessErr == "" {
				dup = append(dup, jobs[i+k])
				dupIdx = append(dupIdx, k)
			}
		}
		if len(dup) > 0 {
			drs := c.Pool.Map(dup)
			for n, dr := range drs {
				c.AddCounter("determinism_replays", 1)
				if dr.Key != rs[dupIdx[n]].Key || dr.Outcome != rs[dupIdx[n]].Outcome {
					if dup[n].Exec == "net" {
						// Three engines talk to each other inside one bubble: which of several ready select cases a kernel
						// takes is not owned by the harness (DESIGN.md C03). Both runs are real behaviours and both were
						// checked by the agreement oracle; the count is reported.
						c.AddCounter("nondeterministic_executions", 1)
						continue
					}
					c.HarnessError(fmt.Sprintf("nondeterministic execution: %v %v gave two different final states", dup[n].Hist, dup[n].Args))
				}
			}
		}
		for k, r := range rs {
			j := jobs[i+k]
			c.Absorb(j, r, props...)
			for _, key := range r.Keys {
				st.keys[key] = struct{}{}
			}
			if r.Key != "" {
				st.keys[vx.ShortHash(r.Key)] = struct{}{}
			}
			c.Transitions += int64(len(r.Trace))
			c.Transitions += r.Counters["steps"]
			if each != nil {
				each(j, r)
			}
		}
		c.States = int64(len(st.keys))
	}
	return true
}

func devJob(props string, devs ...string) vx.Job {
	return vx.Job{Exec: "mirror", Hist: devs, Args: map[string]string{"props": props, "mode": "dev"}}
}

// exploreDeviations runs the benign script with 0, 1 and (core alphabet) 2 deviations.
func exploreDeviations(c *vx.Ctx, props string, maxDev int, st *exploreStats, each func(j vx.Job, r vx.Result)) {
	pl := strings.Split(props, ",")
	script := benignScript()
	jobs := []vx.Job{devJob(props)}
	singles := singleDeviations(script, alphabet("full"))
	for _, d := range singles {
		jobs = append(jobs, devJob(props, d))
	}
	c.Extra["script_len"] = len(script)
	c.Extra["alphabet_full"] = len(alphabet("full"))
	c.Extra["single_deviations"] = len(singles)
	done := runJobs(c, jobs, st, pl, each)
	completed := 0
	if done {
		completed = 1
	}
	if done && maxDev >= 2 {
		// Pairs: every core deviation combined with every core deviation at the same or one of the next
		// pairWindow script positions (interactions between deviations further apart than a round are covered by BFS seeds).
		core := singleDeviations(script, alphabet("core"))
		c.Extra["alphabet_core"] = len(alphabet("core"))
		c.Extra["pair_window_positions"] = pairWindow
		var pairs []vx.Job
		for i, d1 := range core {
			p1 := devPos(d1)
			for k, d2 := range core {
				p2 := devPos(d2)
				if p2 < p1 || p2 > p1+pairWindow || (p2 == p1 && k == i) {
					continue
				}
				pairs = append(pairs, devJob(props, d1, d2))
			}
		}
		c.Extra["double_deviations"] = len(pairs)
		if runJobs(c, pairs, st, pl, each) {
			completed = 2
		}
	}
	c.Extra["deviation_bound_completed"] = completed
}

const pairWindow = 8

const withSplitSeeds = true

func devPos(d string) int {
	n := 0
	for _, ch := range d {
		if ch < '0' || ch > '9' {
			break
		}
		n = n*10 + int(ch-'0')
	}
	return n
}

// exploreBFS is explicit-state search with canonical-state dedup from the states reached by script prefixes.
func exploreBFS(c *vx.Ctx, props string, seeds []int, depth int, alpha []string, st *exploreStats, each func(j vx.Job, r vx.Result)) {
	pl := strings.Split(props, ",")
	seen := map[string]struct{}{}
	type node struct {
		seed int
		hist []string
	}
	var frontier []node
	for _, sd := range seeds {
		frontier = append(frontier, node{sd, nil})
	}
	// Seeds that the script never passes through: split votes (a vote majority present without consensus).
	if withSplitSeeds && len(seeds) > 1 {
		frontier = append(frontier, node{7, []string{"V:c:3:nil"}}, node{4, []string{"V:p:3:nil"}})
		// ... and: split precommits (the state machine's precommit-delay timer runs), the state machine not reading,
		// the network already voting in the next round (the mirror jumps, a jump-ahead signal is pending).
		frontier = append(frontier, node{7, []string{"V:c:3:nil", "StallS", "V:p:h:A@0,1"}})
		// ... and then the network leaves that round too (nil precommits) while the jump-ahead is still unread.
		frontier = append(frontier, node{7, []string{"V:c:3:nil", "StallS", "V:p:h:A@0,1", "V:c:h:nil@0,1"}})
	}
	if withSplitSeeds {
		// ... and: a height committed with the Byzantine validator's precommit instead of the local validator's (the
		// committing view then still lacks an honest precommit that the next height's proposal will backfill), alone
		// and with the Byzantine validator's nil precommit for the same round on top (two targets in the committing view).
		frontier = append(frontier, node{7, []string{"V:c:3:A"}}, node{7, []string{"V:c:3:A", "V:c:3:nil@-1,0"}})
	}
	levelDone := -1
	for d := 0; d <= depth && len(frontier) > 0; d++ {
		jobs := make([]vx.Job, len(frontier))
		for i, n := range frontier {
			jobs[i] = vx.Job{Exec: "mirror", Hist: n.hist, Args: map[string]string{"props": props, "mode": "raw", "seed": fmt.Sprint(n.seed)}}
		}
		var next []node
		ok := runJobs(c, jobs, st, pl, func(j vx.Job, r vx.Result) {
			if each != nil {
				each(j, r)
			}
			if r.Crash != "" || r.HarnessErr != "" || r.Key == "" {
				return
			}
			k := vx.ShortHash(r.Key)
			if _, dup := seen[k]; dup {
				return
			}
			seen[k] = struct{}{}
			if d == depth {
				return
			}
			var sd int
			fmt.Sscan(j.Args["seed"], &sd)
			for _, ev := range alpha {
				h := append(append([]string{}, j.Hist...), ev)
				next = append(next, node{sd, h})
			}
		})
		if !ok {
			break
		}
		levelDone = d
		frontier = next
	}
	c.Extra["bfs_depth_completed"] = levelDone
	c.Extra["bfs_distinct_states"] = len(seen)
	c.Extra["bfs_seeds"] = seeds
}

// nodeAlphabet lists the environment events of the engine harness.
func nodeAlphabet(level string) []string {
	var a []string
	add := func(s ...string) { a = append(a, s...) }
	positions := []string{"", "@0,1", "@0,2", "@0,-1", "@1,0", "@-1,0", "@2,0"}
	if level == "core" {
		positions = []string{"", "@0,1"}
	}
	for _, p := range positions {
		whos := []string{"o1", "o2", "oh"}
		if level == "core" {
			whos = []string{"o1", "oh"}
		}
		for _, who := range whos {
			for _, t := range []string{"A", "B", "nil"} {
				if level == "core" && t == "B" {
					continue
				}
				add(fmt.Sprintf("V:p:%s:%s%s", who, t, p))
			}
			for _, t := range []string{"A", "nil"} {
				add(fmt.Sprintf("V:c:%s:%s%s", who, t, p))
			}
		}
		for _, k := range []string{"p", "c"} {
			for _, t := range []string{"A", "B", "nil", "X"} {
				if level == "core" && (t == "A" || t == "X") {
					continue
				}
				add(fmt.Sprintf("V:%s:3:%s%s", k, t, p))
			}
		}
		for _, b := range []string{"A", "B"} {
			add("PH:" + b + p)
		}
	}
	if level != "core" {
		for _, k := range []string{"p", "c"} {
			for _, v := range []string{"flip", "zerosig", "idlen1", "mix", "badpkh"} {
				add(fmt.Sprintf("V:%s:3:A:%s", k, v))
			}
		}
		for _, v := range []string{"forgedNext", "forgedCur", "forgedNextPK", "forgedCurPK", "badsig", "nokey", "badpcp"} {
			add("PH:A:" + v)
		}
		for _, v := range replayVariants {
			add("RP:" + v)
		}
	} else {
		add("PH:A:forgedNext", "RP:ok")
	}
	add("VZ:p", "VZ:c", "MAPREV")
	add("SR", "SR:propose", "SR:A", "SR:B", "SR:nil", "SR:notready", "TF", "DR", "Tick", "BDA", "PROP", "Restart")
	if level != "core" {
		add("SR:X", "SR:N")
	}
	return a
}

func nodeSingleDeviations(script []string, alpha []string) []string {
	var out []string
	for pos := 0; pos <= len(script); pos++ {
		for _, ev := range alpha {
			out = append(out, fmt.Sprintf("%d:+%s", pos, ev))
		}
	}
	for pos, ev := range script {
		out = append(out, fmt.Sprintf("%d:-", pos))
		if ev == "SR" {
			for _, ans := range []string{"propose", "A", "B", "nil", "notready", "N"} {
				out = append(out, fmt.Sprintf("%d:~SR:%s", pos, ans))
			}
		}
	}
	return out
}

func nodeJob(props string, devs ...string) vx.Job {
	return vx.Job{Exec: "node", Hist: devs, Args: map[string]string{"props": props, "mode": "dev"}}
}

// exploreNode runs the engine's benign script with 0, 1 and (core alphabet, thorough) 2 deviations, then BFS from seeds.
func exploreNode(c *vx.Ctx, props string, maxDev int, bfsDepth int, st *exploreStats, each func(j vx.Job, r vx.Result)) {
	pl := strings.Split(props, ",")
	script := nodeScript()
	jobs := []vx.Job{nodeJob(props)}
	singles := nodeSingleDeviations(script, nodeAlphabet("full"))
	for _, d := range singles {
		jobs = append(jobs, nodeJob(props, d))
	}
	// Duplicate strategy answer (C02 "late or duplicate"): the strategy proposes when the round is entered and sends a
	// second, different proposal within the next events.
	for pos, ev := range script {
		if ev != "SR" || (pos > 0 && script[pos-1] != "TF" && script[pos-1] != "V:c:oh:nil") {
			continue
		}
		for q := pos + 1; q <= pos+5 && q <= len(script); q++ {
			jobs = append(jobs, nodeJob(props, fmt.Sprintf("%d:~SR:propose", pos), fmt.Sprintf("%d:+PROP", q)))
		}
	}
	// Simultaneously ready inputs of the state machine (controlled main select): the next 2 or 3 scripted events all
	// happen before its kernel looks at any input, and each select case is tried as the one taken first.
	nb := 0
	for pos := 0; pos < len(script) && pos < 30; pos++ {
		for pref := 1; pref <= 8; pref++ {
			for cnt := 2; cnt <= 3; cnt++ {
				jobs = append(jobs, nodeJob(props, fmt.Sprintf("%d:+BATCH:%d:%d", pos, cnt, pref)))
				nb++
			}
		}
	}
	c.Extra["engine_batched_input_executions"] = nb
	// A slow strategy (see exploreBare): the scripted answer does not come, one core-alphabet event happens meanwhile.
	nSlow := 0
	coreAlpha := nodeAlphabet("core")
	for pos, ev := range script {
		if ev != "SR" || pos >= 30 {
			continue
		}
		for q := pos + 1; q <= pos+2 && q <= len(script); q++ {
			for _, ins := range coreAlpha {
				if strings.HasPrefix(ins, "SR") {
					continue
				}
				jobs = append(jobs, nodeJob(props, fmt.Sprintf("%d:-", pos), fmt.Sprintf("%d:+%s", q, ins)))
				nSlow++
			}
		}
	}
	c.Extra["engine_slow_strategy_executions"] = nSlow
	// Two stops in consecutive heights: the process is stopped once the commit of a height is in (before the driver
	// answered, in commit wait with the finalization stored, or after the commit-wait timer), restarted, taken through
	// the next height to one of the same three points, stopped and restarted again, and then runs two more heights
	// (a restart that meets what the previous restart left behind: heights skipped because their finalization is
	// stored, positions never recorded). The script after a restart is written out afresh, because the restarted
	// state machine re-enters its round and the scripted answers would otherwise be off by one.
	nRR := 0
	var rrJobs []vx.Job
	round := nodeRound("A")
	stops := []int{6, 7, 8} // events of a round delivered before the stop: ...V:c:oh:A | ...DR | ...TF
	for pos, ev := range script {
		if ev != "DR" {
			continue
		}
		start := pos - 6 // the round's first event
		if start < 0 || script[start] != "SR" {
			continue
		}
		for _, s1 := range stops {
			for _, s2 := range stops {
				h := append([]string{}, script[:start+s1]...)
				h = append(h, "Restart")
				h = append(h, round[:s2]...)
				h = append(h, "Restart")
				h = append(h, round...)
				h = append(h, round...)
				rrJobs = append(rrJobs, vx.Job{Exec: "node", Hist: h, Args: map[string]string{"props": props, "mode": "raw", "seed": "0"}})
				nRR++
			}
		}
	}
	jobs = append(jobs, rrJobs...)
	c.Extra["engine_double_restart_executions"] = nRR
	c.Extra["engine_script_len"] = len(script)
	c.Extra["engine_alphabet_full"] = len(nodeAlphabet("full"))
	c.Extra["engine_single_deviations"] = len(singles)
	done := runJobs(c, jobs, st, pl, each)
	completed := 0
	if done {
		completed = 1
	}
	if done && maxDev >= 2 {
		core := nodeSingleDeviations(script[:24], nodeAlphabet("core"))
		var pairs []vx.Job
		for i, d1 := range core {
			p1 := devPos(d1)
			for k, d2 := range core {
				p2 := devPos(d2)
				if p2 < p1 || p2 > p1+pairWindow || (p2 == p1 && k == i) {
					continue
				}
				pairs = append(pairs, nodeJob(props, d1, d2))
			}
		}
		c.Extra["engine_double_deviations"] = len(pairs)
		if runJobs(c, pairs, st, pl, each) {
			completed = 2
		}
	}
	c.Extra["engine_deviation_bound_completed"] = completed
	// Second script (missing-header commit wait): itself and every single deviation inside its special round.
	{
		s2 := nodeScript2()
		js := []vx.Job{{Exec: "node", Args: map[string]string{"props": props, "mode": "dev", "script": "2"}}}
		for pos := 8; pos <= 19; pos++ {
			for _, ev := range nodeAlphabet("full") {
				js = append(js, vx.Job{Exec: "node", Hist: []string{fmt.Sprintf("%d:+%s", pos, ev)}, Args: map[string]string{"props": props, "mode": "dev", "script": "2"}})
			}
			js = append(js, vx.Job{Exec: "node", Hist: []string{fmt.Sprintf("%d:-", pos)}, Args: map[string]string{"props": props, "mode": "dev", "script": "2"}})
		}
		c.Extra["engine_script2_len"] = len(s2)
		c.Extra["engine_script2_executions"] = len(js)
		runJobs(c, js, st, pl, each)
	}
	// Restart matrix (C02 "a restart injected after any event", C10): after every prefix of the first three heights
	// the process is restarted and the environment then gives every sequence of up to 2 (thorough 3) answers from
	// the strategy / timer / driver alphabet, so that a restarted state machine meets answers that differ from the
	// ones its previous lifetime got.
	{
		answers := []string{"SR", "SR:A", "SR:B", "SR:nil", "SR:propose", "TF", "PROP", "V:p:oh:A", "V:c:oh:A"}
		depth := 2
		if maxDev >= 2 {
			depth = 3
		}
		var js []vx.Job
		var rec func(seed int, hist []string)
		rec = func(seed int, hist []string) {
			js = append(js, vx.Job{Exec: "node", Hist: hist, Args: map[string]string{"props": props, "mode": "raw", "seed": fmt.Sprint(seed)}})
			if len(hist) >= depth+2 {
				return
			}
			for _, a := range answers {
				rec(seed, append(append([]string{}, hist...), a))
			}
		}
		for seed := 1; seed <= 24; seed++ {
			rec(seed, []string{"Restart", "SR"})
		}
		// The same for a validator that PROPOSED in the round (the strategy proposes when the round is entered): k more
		// scripted events, a restart, and the strategy proposing again / answering otherwise.
		nProp := 0
		for pos, ev := range script {
			if ev != "SR" || pos >= 24 || (pos > 0 && script[pos-1] != "TF" && script[pos-1] != "V:c:oh:nil") {
				continue
			}
			for k := 0; k <= 5 && pos+1+k <= len(script); k++ {
				pre := append([]string{"SR:propose"}, script[pos+1:pos+1+k]...)
				for _, after := range [][]string{{"Restart", "SR:propose"}, {"Restart", "SR:propose", "SR"}, {"Restart", "SR", "PROP"}, {"Restart", "SR", "SR:nil"}} {
					js = append(js, vx.Job{Exec: "node", Hist: append(append([]string{}, pre...), after...), Args: map[string]string{"props": props, "mode": "raw", "seed": fmt.Sprint(pos)}})
					nProp++
				}
			}
		}
		c.Extra["engine_proposer_restart_executions"] = nProp
		c.Extra["engine_restart_matrix_executions"] = len(js)
		runJobs(c, js, st, pl, each)
	}
	if bfsDepth > 0 {
		seen := map[string]struct{}{}
		type node struct {
			seed int
			hist []string
		}
		alpha := nodeAlphabet("core")
		frontier := []node{{0, nil}, {4, nil}, {17, nil}, {22, nil}}
		levelDone := -1
		for d := 0; d <= bfsDepth && len(frontier) > 0; d++ {
			js := make([]vx.Job, len(frontier))
			for i, n := range frontier {
				js[i] = vx.Job{Exec: "node", Hist: n.hist, Args: map[string]string{"props": props, "mode": "raw", "seed": fmt.Sprint(n.seed)}}
			}
			var next []node
			ok := runJobs(c, js, st, pl, func(j vx.Job, r vx.Result) {
				if each != nil {
					each(j, r)
				}
				if r.Crash != "" || r.HarnessErr != "" || r.Key == "" {
					return
				}
				k := vx.ShortHash(r.Key)
				if _, dup := seen[k]; dup {
					return
				}
				seen[k] = struct{}{}
				if d == bfsDepth {
					return
				}
				var sd int
				fmt.Sscan(j.Args["seed"], &sd)
				for _, ev := range alpha {
					next = append(next, node{sd, append(append([]string{}, j.Hist...), ev)})
				}
			})
			if !ok {
				break
			}
			levelDone = d
			frontier = next
		}
		c.Extra["engine_bfs_depth_completed"] = levelDone
		c.Extra["engine_bfs_distinct_states"] = len(seen)
	}
}

func netOps(level string) []string {
	ops := []string{"DROP", "LATE", "DUP"}
	for j := 0; j < 3; j++ {
		ops = append(ops, fmt.Sprintf("TF:%d", j), fmt.Sprintf("RST:%d", j))
	}
	tos := []string{"0", "1", "2", "all"}
	if level == "core" {
		ops = []string{"DROP", "LATE", "TF:0", "TF:1", "RST:0", "RST:2"}
		tos = []string{"0", "1"}
	}
	for _, to := range tos {
		ops = append(ops, "BYZ:ph:A:"+to, "BYZ:ph:B:"+to)
		for _, k := range []string{"p", "c"} {
			for _, t := range []string{"P0", "P1", "nil"} {
				ops = append(ops, fmt.Sprintf("BYZ:%s:%s:%s", k, t, to))
			}
			if level != "core" {
				ops = append(ops, fmt.Sprintf("BYZ:%s:P2:%s", k, to), fmt.Sprintf("BYZ:%s:X:%s", k, to))
			}
		}
	}
	return ops
}

// exploreNet: the three-engine network with 0, 1 and (thorough, core ops) 2 deviations from the FIFO schedule,
// and every single deviation after each adversarial seed prefix.
func exploreNet(c *vx.Ctx, heights int, maxDev int, seeds [][]string) {
	st := &exploreStats{keys: map[string]struct{}{}}
	args := func() map[string]string { return map[string]string{"heights": fmt.Sprint(heights)} }
	base := c.Pool.Map([]vx.Job{{Exec: "net", Args: args()}})[0]
	steps := int(base.Counters["steps"])
	c.Absorb(vx.Job{Exec: "net", Args: args()}, base)
	c.Extra["default_schedule_steps"] = steps
	c.Extra["default_schedule_messages"] = base.Counters["messages"]
	if base.Counters["min_heights_finalized_by_every_node"] < int64(heights) {
		c.HarnessError(fmt.Sprintf("the default schedule did not finalize %d heights on every node (outcome %s)", heights, base.Outcome))
	}
	n := 0
	each := func(j vx.Job, r vx.Result) {
		n++
		if n%499 == 1 {
			c.Sample(map[string]any{"deviations": j.Hist, "outcome": r.Outcome, "finalized": r.Key})
		}
	}
	c.Sample(map[string]any{"deviations": []string{}, "outcome": base.Outcome, "finalized": base.Key})
	var jobs []vx.Job
	full := netOps("full")
	for s := 0; s <= steps; s++ {
		for _, op := range full {
			jobs = append(jobs, vx.Job{Exec: "net", Hist: []string{fmt.Sprintf("%d:%s", s, op)}, Args: args()})
		}
	}
	c.Extra["single_deviations"] = len(jobs)
	completed := 0
	if runJobs(c, jobs, st, []string{"C03"}, each) {
		completed = 1
	}
	for si, seed := range seeds {
		var js []vx.Job
		first := devPos(seed[len(seed)-1])
		for s := first; s <= steps+10; s++ {
			for _, op := range full {
				js = append(js, vx.Job{Exec: "net", Hist: append(append([]string{}, seed...), fmt.Sprintf("%d:%s", s, op)), Args: args()})
			}
		}
		js = append(js, vx.Job{Exec: "net", Hist: seed, Args: args()})
		ok := runJobs(c, js, st, []string{"C03"}, each)
		c.Extra[fmt.Sprintf("seed_%d", si)] = map[string]any{"prefix": seed, "executions": len(js), "completed": ok}
	}
	// Scripted adversary (split view: the victim never gets the honest proposal, see net.go) alone and with every
	// single deviation on top of it.
	{
		advArgs := func() map[string]string {
			m := args()
			m["adversary"] = "missing-proposal"
			return m
		}
		js := []vx.Job{{Exec: "net", Args: advArgs()}}
		for s := 0; s <= 40; s++ {
			for _, op := range full {
				js = append(js, vx.Job{Exec: "net", Hist: []string{fmt.Sprintf("%d:%s", s, op)}, Args: advArgs()})
			}
		}
		ok := runJobs(c, js, st, []string{"C03"}, each)
		c.Extra["scripted_adversary_missing_proposal"] = map[string]any{"executions": len(js), "completed": ok}
	}
	// Scripted adversaries "forged-relay" and "forged-relay-pk" (see net.go), alone and with every single deviation on top.
	for _, name := range []string{"forged-relay", "forged-relay-pk"} {
		advArgs := func() map[string]string {
			m := args()
			m["adversary"] = name
			return m
		}
		js := []vx.Job{{Exec: "net", Args: advArgs()}}
		for s := 0; s <= steps+6; s++ {
			for _, op := range full {
				js = append(js, vx.Job{Exec: "net", Hist: []string{fmt.Sprintf("%d:%s", s, op)}, Args: advArgs()})
			}
		}
		ok := runJobs(c, js, st, []string{"C03"}, each)
		c.Extra["scripted_adversary_"+strings.ReplaceAll(name, "-", "_")] = map[string]any{"executions": len(js), "completed": ok}
	}
	if completed == 1 && maxDev >= 2 {
		core := netOps("core")
		var pairs []vx.Job
		for s1 := 0; s1 <= steps; s1++ {
			for _, o1 := range core {
				for s2 := s1; s2 <= steps; s2++ {
					for _, o2 := range core {
						if s1 == s2 && o1 >= o2 {
							continue
						}
						pairs = append(pairs, vx.Job{Exec: "net", Hist: []string{fmt.Sprintf("%d:%s", s1, o1), fmt.Sprintf("%d:%s", s2, o2)}, Args: args()})
					}
				}
			}
		}
		c.Extra["double_deviations"] = len(pairs)
		if runJobs(c, pairs, st, []string{"C03"}, each) {
			completed = 2
		}
	}
	c.Extra["deviation_bound_completed"] = completed
}

// exploreBare: the bare state machine (smbare.go) under its benign script with every single deviation (insert any
// alphabet event at any position, drop any scripted event), thorough: pairs within a window, plus BFS from script
// prefixes over the whole alphabet.
func exploreBare(c *vx.Ctx, props string, maxDev int, bfsDepth int, st *exploreStats, each func(j vx.Job, r vx.Result)) {
	pl := strings.Split(props, ",")
	script := bareScript()
	alpha := bareAlphabet()
	job := func(devs ...string) vx.Job {
		return vx.Job{Exec: "smbare", Hist: devs, Args: map[string]string{"props": props, "mode": "dev"}}
	}
	var singles []string
	for pos := 0; pos <= len(script); pos++ {
		for _, ev := range alpha {
			singles = append(singles, fmt.Sprintf("%d:+%s", pos, ev))
		}
	}
	for pos := range script {
		singles = append(singles, fmt.Sprintf("%d:-", pos))
	}
	jobs := []vx.Job{job()}
	for _, d := range singles {
		jobs = append(jobs, job(d))
	}
	// Simultaneously ready inputs (controlled main select of the state machine, see smbare.go): the next 2 or 3
	// scripted events - or one scripted and one inserted event - all reach the state machine's inputs before its
	// kernel looks at any; every select case is tried as the one taken first.
	batchInserts := []string{"HC", "NCHC", "TF", "VW:old", "VW:oldheight", "V:c:oh:A", "V:c:oh:nil", "V:p:oh:nil@0,1", "V:p:3:B", "PH:B", "PROP", "BDA", "DR", "SR", "SR:nil"}
	nBatch := 0
	for pos := 0; pos < len(script); pos++ {
		for pref := 1; pref <= 8; pref++ {
			for n := 2; n <= 3; n++ {
				jobs = append(jobs, job(fmt.Sprintf("%d:+BATCH:%d:%d", pos, n, pref)))
				nBatch++
			}
			for _, ev := range batchInserts {
				// the inserted event comes after the scripted event at pos, both inside the batch
				jobs = append(jobs, job(fmt.Sprintf("%d:+BATCH:2:%d", pos, pref), fmt.Sprintf("%d:+%s", pos+1, ev)))
				nBatch++
			}
		}
	}
	for pos := 0; pos <= len(script); pos++ {
		for pref := 1; pref <= 8; pref++ {
			// one event that makes two inputs ready (commit view + height-committed signal), each case first
			jobs = append(jobs, job(fmt.Sprintf("%d:+BATCH:1:%d", pos, pref), fmt.Sprintf("%d:+NCHC", pos)))
			nBatch++
		}
	}
	c.Extra["bare_sm_batched_input_executions"] = nBatch
	// A lagging state machine: the scripted event and every set of up to 3 further votes of the round (any honest
	// validator's or the Byzantine validator's prevote or precommit, for the block or nil) reach the view before the
	// state machine reads it again, so that it sees ONE coalesced view (a prevote quorum together with split
	// precommits, a commit together with the votes before it, ...). Votes coalesce into one view: sets, not sequences.
	burst := []string{"V:p:oh:A", "V:p:oh:nil", "V:p:3:nil", "V:c:o1:A", "V:c:o1:nil", "V:c:o2:A", "V:c:o2:nil", "V:c:3:A", "V:c:3:nil", "V:c:oh:A", "V:c:oh:nil"}
	nBurst := 0
	lastPos := len(script)
	if maxDev < 2 {
		lastPos = 17 // quick: the first height and the nil round of the second
	}
	for pos := 0; pos < lastPos; pos++ {
		for i := 0; i < len(burst); i++ {
			for j := i; j < len(burst); j++ {
				for k := j; k < len(burst); k++ {
					devs := []string{"", fmt.Sprintf("%d:+%s", pos+1, burst[i])}
					n := 2
					if j > i {
						devs = append(devs, fmt.Sprintf("%d:+%s", pos+1, burst[j]))
						n++
					}
					if k > j {
						if j == i {
							continue // {i,i,k}: the same set as {i,k}
						}
						devs = append(devs, fmt.Sprintf("%d:+%s", pos+1, burst[k]))
						n++
					}
					devs[0] = fmt.Sprintf("%d:+BATCH:%d:1", pos, n)
					jobs = append(jobs, job(devs...))
					nBurst++
				}
			}
		}
	}
	c.Extra["bare_sm_coalesced_vote_burst_executions"] = nBurst
	for pos, ev := range script {
		if ev != "SR" || pos == 0 || script[pos-1] != "ENT" {
			continue
		}
		for q := pos + 1; q <= pos+5 && q <= len(script); q++ {
			jobs = append(jobs, job(fmt.Sprintf("%d:~SR:propose", pos), fmt.Sprintf("%d:+PROP", q)))
		}
	}
	// A slow strategy: the scripted answer at pos does not come (the call stays pending and is answered by the next
	// scripted SR), and meanwhile one more event happens within the next 3 positions.
	nSlow := 0
	for pos, ev := range script {
		if ev != "SR" {
			continue
		}
		for q := pos + 1; q <= pos+3 && q <= len(script); q++ {
			for _, ins := range alpha {
				if strings.HasPrefix(ins, "SR") {
					continue
				}
				jobs = append(jobs, job(fmt.Sprintf("%d:-", pos), fmt.Sprintf("%d:+%s", q, ins)))
				nSlow++
			}
		}
	}
	c.Extra["bare_sm_slow_strategy_executions"] = nSlow
	// A restart answered with the committed header where the network has committed the height meanwhile (catch-up),
	// at every script position.
	for pos := 0; pos <= len(script); pos++ {
		jobs = append(jobs, job(fmt.Sprintf("%d:+Restart", pos), fmt.Sprintf("%d:+ENT:ch", pos)))
	}
	c.Extra["bare_sm_script_len"] = len(script)
	c.Extra["bare_sm_alphabet"] = len(alpha)
	c.Extra["bare_sm_single_deviations"] = len(singles)
	done := runJobs(c, jobs, st, pl, each)
	completed := 0
	if done {
		completed = 1
	}
	if done && maxDev >= 2 {
		var pairs []vx.Job
		for i, d1 := range singles {
			p1 := devPos(d1)
			if p1 > 20 {
				continue
			}
			for k, d2 := range singles {
				p2 := devPos(d2)
				if p2 < p1 || p2 > p1+3 || (p2 == p1 && k == i) {
					continue
				}
				pairs = append(pairs, job(d1, d2))
			}
		}
		c.Extra["bare_sm_double_deviations"] = len(pairs)
		if runJobs(c, pairs, st, pl, each) {
			completed = 2
		}
	}
	c.Extra["bare_sm_deviation_bound_completed"] = completed
	if bfsDepth > 0 {
		seen := map[string]struct{}{}
		type node struct {
			seed int
			hist []string
		}
		frontier := []node{{2, nil}, {4, nil}, {6, nil}, {12, nil}, {14, nil}}
		// A state the script never passes through: the state machine has jumped to round 1 while the rest of the network
		// commits the height in round 0 (late precommits), and the mirror signals the height as committed.
		frontier = append(frontier, node{2, []string{"V:p:oh:A@0,1", "ENT", "SR", "V:c:oh:A@0,-1", "V:c:3:A@0,-1", "HC"}})
		levelDone := -1
		for d := 0; d <= bfsDepth && len(frontier) > 0; d++ {
			js := make([]vx.Job, len(frontier))
			for i, n := range frontier {
				js[i] = vx.Job{Exec: "smbare", Hist: n.hist, Args: map[string]string{"props": props, "mode": "raw", "seed": fmt.Sprint(n.seed)}}
			}
			var next []node
			ok := runJobs(c, js, st, pl, func(j vx.Job, r vx.Result) {
				if each != nil {
					each(j, r)
				}
				if r.Crash != "" || r.HarnessErr != "" || r.Key == "" {
					return
				}
				k := vx.ShortHash(r.Key)
				if _, dup := seen[k]; dup {
					return
				}
				seen[k] = struct{}{}
				if d == bfsDepth {
					return
				}
				var sd int
				fmt.Sscan(j.Args["seed"], &sd)
				for _, ev := range alpha {
					next = append(next, node{sd, append(append([]string{}, j.Hist...), ev)})
				}
			})
			if !ok {
				break
			}
			levelDone = d
			frontier = next
		}
		c.Extra["bare_sm_bfs_depth_completed"] = levelDone
		c.Extra["bare_sm_bfs_distinct_states"] = len(seen)
	}
}
