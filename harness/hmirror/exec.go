//go:build verif

package hmirror

import (
	"encoding/json"
	"fmt"
	"sort"
	"strconv"
	"strings"
	"testing"
	"testing/synctest"

	"github.com/gordian-engine/gordian/internal/zzverif/vx"
)

func roundScript(target string, withPH bool) []string {
	var out []string
	if withPH {
		out = append(out, "PH:A")
	}
	out = append(out,
		"V:p:0:"+target, "V:p:1:"+target, "SMA:pv:"+target,
		"V:c:0:"+target, "V:c:1:"+target, "SMA:pc:"+target)
	return out
}

// benignScript is the default environment: honest proposer, votes delivered promptly in validator order,
// the local validator acting through the state machine peer, consumers reading immediately.
// Heights 1 and 2 commit in round 0, height 3 has a nil round first, height 4 commits in round 0
// (validator sets change at heights 3, 4 and 5).
func benignScript() []string {
	var s []string
	s = append(s, "SME")
	s = append(s, roundScript("A", true)...)
	s = append(s, "SMN:h")
	s = append(s, roundScript("A", true)...)
	s = append(s, "SMN:h")
	s = append(s, roundScript("nil", false)...)
	s = append(s, "SMN:r")
	s = append(s, roundScript("A", true)...)
	s = append(s, "SMN:h")
	s = append(s, roundScript("A", true)...)
	s = append(s, "SMN:h")
	return s
}

// buildEvents merges the script with deviations "pos:+ev" (insert before script position pos),
// "pos:-" (drop the scripted event) and "pos:~ev" (replace it).
func buildEvents(script []string, devs []string) []string {
	type dev struct {
		pos int
		op  byte
		ev  string
		ord int
	}
	var ds []dev
	for i, d := range devs {
		j := strings.IndexByte(d, ':')
		p, _ := strconv.Atoi(d[:j])
		ds = append(ds, dev{pos: p, op: d[j+1], ev: d[j+2:], ord: i})
	}
	sort.SliceStable(ds, func(i, j int) bool { return ds[i].pos < ds[j].pos })
	var out []string
	di := 0
	for i := 0; i <= len(script); i++ {
		skip := false
		for di < len(ds) && ds[di].pos == i {
			switch ds[di].op {
			case '+':
				out = append(out, ds[di].ev)
			case '-':
				skip = true
			case '~':
				out = append(out, ds[di].ev)
				skip = true
			}
			di++
		}
		if i < len(script) && !skip {
			out = append(out, script[i])
		}
	}
	return out
}

func init() {
	registry.Execs["mirror"] = execMirror
}

// execMirror runs one event history on a fresh mirror inside a synctest bubble.
//
//	Args: props (comma separated property ids whose oracles run), mode ("dev": Hist holds deviations from the
//	benign script; "raw": Hist holds events applied after the first `seed` events of the benign script),
//	keys ("1": report the canonical key after every step).
func execMirror(t *testing.T, job vx.Job) (res vx.Result) {
	props := strings.Split(job.Args["props"], ",")
	var events []string
	script := benignScript()
	seed := 0
	switch job.Args["mode"] {
	case "raw":
		seed, _ = strconv.Atoi(job.Args["seed"])
		events = append(append([]string{}, script[:seed]...), job.Hist...)
	default:
		events = buildEvents(script, job.Hist)
	}
	synctest.Test(t, func(t *testing.T) {
		res = runMirror(events, props, seed, job.Args)
	})
	return res
}

func runMirror(events []string, props []string, seed int, args map[string]string) (res vx.Result) {
	w := newWorld()
	s := newSys(w)
	o := newOracles(s, &res, props)
	defer func() {
		s.stop()
	}()
	if s.startErr != "" {
		res.HarnessErr = "fresh mirror failed to start: " + s.startErr
		return
	}
	before := s.snapshot()
	o.afterStep(before, before, applied{ev: "init"})
	commitsAtSeed := 0
	var writesAfter []int
	writesAfter = append(writesAfter, s.st.f.writes)
	var posAfter []string
	for i, ev := range events {
		s.step = i
		gFrom, sFrom := len(s.gLog), len(s.sLog)
		a := s.apply(ev)
		resend := s.resend
		if ev == "Restart" && !strings.HasPrefix(a.result, "restart-failed") {
			// A clean stop at a quiescent point: the durable state is what the stores held before it.
			o.afterRestart(before)
		}
		if !s.st.f.frozen {
			// The event's asynchronous consequences (the state machine's reaction, view shifts) write too: a crash point
			// inside them stops the process here, not one event later with the stores failing in between.
			s.drain(false)
		}
		crashedHere := s.st.f.frozen
		if s.st.f.frozen {
			// Calls that were in flight when the process stopped are not calls that "did not return".
			s.blocked = ""
			// The process stopped in the middle of this event: nothing further happens until it is restarted.
			s.stop()
			after := s.snapshotStoresOnly()
			o.afterCrash(before, after)
			r := s.restart()
			s.results[len(s.results)-1] += "|crashed-after-" + strconv.Itoa(s.st.f.writes) + "-writes|" + r
			if strings.HasPrefix(r, "restart-failed") {
				o.violate("C10", "restart-failed:"+normRestartErr(r), r+" (after crash in event "+ev+", writes let through: "+strings.Join(tail(s.st.f.log, 4), ", ")+")")
				break
			}
			o.afterRestart(after)
			if s.sm.everEntered {
				s.apply("SME") // the state machine restarts with the process and re-enters its round
				s.results = s.results[:len(s.results)-1]
			}
			// The interrupted message is delivered again (it was in flight).
			if a.isNetMsg || strings.HasPrefix(ev, "SMA") || strings.HasPrefix(ev, "RP") {
				if strings.HasPrefix(ev, "SMA") {
					s.apply("SME")
					delete(s.sm.acted, strings.Split(ev, ":")[1])
				}
				if resend != nil && !strings.HasPrefix(ev, "SMA") {
					a.result = resend()
				} else {
					a = s.apply(ev)
				}
			}
		}
		s.drain(false)
		after := s.snapshot()
		if crashedHere {
			o.afterRedelivery(before, after)
		}
		o.afterStep(before, after, a)
		o.checkOutputs(gFrom, sFrom)
		s.noteRoundEnd(before, after)
		if strings.HasPrefix(a.result, "restart-failed") {
			break
		}
		res.Keys = append(res.Keys, vx.ShortHash(s.key(after))[:12])
		writesAfter = append(writesAfter, s.st.f.writes)
		posAfter = append(posAfter, posKey(after))
		if crashedHere && args != nil && args["expect_after"] != "" && posBehind(posKey(after), args["expect_after"]) {
			// C10, last sentence: with the interrupted message delivered again the node is (at least) where the
			// uninterrupted run is after that message; votes persisted before the stop may let it be ahead for a while.
			kind := "message"
			switch {
			case strings.HasPrefix(ev, "V:"):
				kind = "vote"
			case strings.HasPrefix(ev, "PH"):
				kind = "proposal"
			case strings.HasPrefix(ev, "RP"):
				kind = "replay"
			case strings.HasPrefix(ev, "SMA"):
				kind = "own-vote"
			}
			decided := ""
			tot := w.total(after.voting.Height)
			for target, pow := range after.voting.VoteSummary.PrecommitBlockPower {
				if pow >= majority(tot) {
					decided = ":voting-round-holds-a-precommit-majority"
					if target == "" {
						decided = ":voting-round-holds-a-nil-precommit-majority"
					}
				}
			}
			o.violate("C10", "position-after-redelivery-behind-crash-free-run:redelivered-"+kind+decided, fmt.Sprintf("after the stop inside %s, the restart and the redelivery the node is at [%s]; without the stop it is at [%s] after that message", ev, posKey(after), args["expect_after"]))
		}
		before = after
		if i+1 == seed {
			commitsAtSeed = len(after.headers)
		}
	}
	// Inputs stop: consumers catch up.
	s.step = len(events)
	s.curEvent = "final-drain"
	gFrom, sFrom := len(s.gLog), len(s.sLog)
	s.stallG, s.stallS = false, false
	s.drain(true)
	final := s.snapshot()
	o.afterStep(before, final, applied{ev: "final-drain"})
	o.checkOutputs(gFrom, sFrom)
	o.finalC11(final)
	if o.on["C09"] {
		ph, vote := s.witnessed(events)
		checkMappers(&res, ph, vote)
		for k := range ph {
			res.Count("witnessed_ph_result:"+k, 1)
		}
		for k := range vote {
			res.Count("witnessed_vote_result:"+k, 1)
		}
	}

	res.Key = s.key(final)
	res.Trace = events
	res.Obs, _ = json.Marshal(map[string]any{"end": endKey(final), "writes": writesAfter, "crashed": s.restarts, "pos": posAfter})
	// Closing probe: a proposed header the node accepted is a header the network may commit (the other validators run
	// the same code and may have accepted it too). If the voting view ends up holding a header other than the honest
	// chain's, the network now precommits it (validators that have not precommitted anything else in that round, the
	// Byzantine one included) and the oracles judge the commit like any other. Not part of the canonical state.
	if args["noprobe"] != "1" && (o.on["C01"] || o.on["C04"] || o.on["C07"]) {
		if r, ok := s.probeCommitAccepted(final); ok {
			s.drain(true)
			after := s.snapshot()
			o.afterStep(final, after, applied{ev: s.curEvent, result: r, isNetMsg: true})
			res.Count("closing_probe:accepted_foreign_header_committed_by_the_network", 1)
			if args["results"] == "1" {
				s.results = append(s.results, r+fmt.Sprintf(" => V%d/%d C%d hdrs%d", after.voting.Height, after.voting.Round, after.committing.Height, len(after.headers)))
				res.Trace = append(append([]string{}, events...), s.curEvent)
			}
		}
	}
	res.Outcome = fmt.Sprintf("V%d/%d C%d hdrs%d r%d", final.voting.Height, final.voting.Round, final.committing.Height, len(final.headers), s.restarts)
	_ = commitsAtSeed
	res.NonTrivial = len(final.headers) > 0 || len(s.delivered) > 0
	if args["results"] == "1" {
		res.Next = s.results
	}
	res.Count("events_applied", int64(len(events)))
	vx.EarlyResult(&res) // the verdict is complete; what follows is teardown
	return res
}

func tail(s []string, n int) []string {
	if len(s) > n {
		return s[len(s)-n:]
	}
	return s
}

func (s *sys) noteRoundEnd(before, after snap) {
	if !before.ok || !after.ok || before.voting.Height != after.voting.Height || after.voting.Round <= before.voting.Round {
		return
	}
	h, r := before.voting.Height, before.voting.Round
	// What the mirror itself holds for the round it left (its round store), not what the harness sent: a message whose
	// caller gave up (CANCEL) may never have been applied.
	var pow uint64
	seen := map[int]bool{}
	if rs, ok := after.rounds[[2]uint64{h, uint64(r)}]; ok {
		for _, sg := range rs.precommits.BlockSignatures[""] {
			if len(sg.KeyID) == 2 {
				if i := int(sg.KeyID[0])<<8 | int(sg.KeyID[1]); i < nVals && !seen[i] {
					seen[i] = true
					pow += s.w.VS(h).Validators[i].Power
				}
			}
		}
	}
	s.roundEnds = append(s.roundEnds, roundEnd{h: h, r: r, seg: s.restarts, nilQuorum: pow >= majority(s.w.total(h))})
}


// posKey: voting and committing position and the committed chain, for the comparison of a crashed run with the
// crash-free run at the same point of the history.
func posKey(sn snap) string {
	hs := make([]int, 0, len(sn.headers))
	for h := range sn.headers {
		hs = append(hs, int(h))
	}
	sort.Ints(hs)
	var sb strings.Builder
	fmt.Fprintf(&sb, "voting %d/%d committing %d/%d chain", sn.voting.Height, sn.voting.Round, sn.committing.Height, sn.committing.Round)
	for _, h := range hs {
		fmt.Fprintf(&sb, " %d=%s", h, h8(sn.headers[uint64(h)].Header.Hash))
	}
	return sb.String()
}


// posBehind reports whether position a (posKey format) is behind b in voting position, committing position or
// length of the committed chain.
func posBehind(a, b string) bool {
	parse := func(s string) (v [5]int) {
		var chain string
		fmt.Sscanf(s, "voting %d/%d committing %d/%d chain", &v[0], &v[1], &v[2], &v[3])
		if i := strings.Index(s, "chain"); i >= 0 {
			chain = strings.TrimSpace(s[i+5:])
		}
		if chain != "" {
			v[4] = len(strings.Fields(chain))
		}
		return
	}
	x, y := parse(a), parse(b)
	less := func(p, q [2]int) bool { return p[0] < q[0] || (p[0] == q[0] && p[1] < q[1]) }
	return less([2]int{x[0], x[1]}, [2]int{y[0], y[1]}) || less([2]int{x[2], x[3]}, [2]int{y[2], y[3]}) || x[4] < y[4]
}
