//go:build verif

package hmirror

import (
	"bytes"
	"context"
	"crypto/ed25519"
	"encoding/binary"
	"fmt"

	"github.com/gordian-engine/gordian/gcrypto"
	"github.com/gordian-engine/gordian/tm/tmconsensus"
	"github.com/gordian-engine/gordian/tm/tmconsensus/tmconsensustest"
)

// world is the harness's ground truth: the honest chain (validator sets change from
// height 3 on, as the engine's own finalization pipeline would produce), the honest
// network's current height and round, and the signatures it has handed out.
//
// Validators 0..2 of every set are honest, validator 3 is Byzantine (the explorer
// may make it sign anything). The local validator (state machine peer) is index 2.
type world struct {
	keys tmconsensustest.PrivVals
	hs   tmconsensus.HashScheme
	ss   tmconsensus.SignatureScheme
	cs   gcrypto.CommonMessageSignatureProofScheme

	genesis tmconsensus.Genesis

	vsets map[uint64]tmconsensus.ValidatorSet

	// Honest network position.
	H uint64
	R uint32
	// Round in which height h was committed by the honest network (by generated precommits).
	commitRound map[uint64]uint32
	// Signers of the commit of height h that the next header embeds.
	hdrs map[string]tmconsensus.Header

	// Honest precommits generated so far for (h,r,target) -> validator indices.
	genPC map[vkey]map[int]bool

	// Every (kind,h,r,target,validator) signature the harness has produced with a real key for that exact content.
	signed map[string]bool

	// exclKey is the pool key of a validator that is played by a real engine (-1: none): the harness never signs with it.
	exclKey int
	// honestVoted records what each honest validator voted per (kind,h,r): honest validators do not equivocate.
	honestVoted map[string]string
}

type vkey struct {
	h      uint64
	r      uint32
	target string
}

const (
	nVals     = 4
	byzIdx    = 3
	localIdx  = 2
	initialH  = 1
	nKeysPool = 6
)

func newWorld() *world {
	mapDesc = false // every execution starts with the mirror's maps iterated in ascending key order
	w := &world{
		keys:        tmconsensustest.DeterministicValidatorsEd25519(nKeysPool + 2),
		hs:          tmconsensustest.SimpleHashScheme{},
		ss:          tmconsensustest.SimpleSignatureScheme{},
		cs:          gcrypto.SimpleCommonMessageSignatureProofScheme{},
		vsets:       map[uint64]tmconsensus.ValidatorSet{},
		H:           initialH,
		commitRound: map[uint64]uint32{},
		hdrs:        map[string]tmconsensus.Header{},
		genPC:       map[vkey]map[int]bool{},
		signed:      map[string]bool{},
		exclKey:     -1,
		honestVoted: map[string]string{},
	}
	w.genesis = tmconsensus.Genesis{
		ChainID:             "verif-chain",
		InitialHeight:       initialH,
		CurrentAppStateHash: []byte("app-0"),
		ValidatorSet:        w.VS(initialH),
	}
	return w
}

// VS is the chain-prescribed validator set for height h.
// Heights 1 and 2 use the genesis set (a finalization of height h can only change the set of h+2);
// from height 3 on powers change every height and the order every second height (so 3 -> 4 is a power-only
// change), and at height 5 key 2 (the engine harness's
// own validator) is replaced by key 4. The last validator is always the Byzantine one.
func (w *world) VS(h uint64) tmconsensus.ValidatorSet {
	if vs, ok := w.vsets[h]; ok {
		return vs
	}
	honest := []int{0, 1, 2}
	pows := []uint64{10, 10, 10}
	if h >= initialH+2 {
		// Heights 3 and 4 share keys and order and differ in powers only; the other transitions also change the order
		// (and at height 5 a key).
		rot := int(((h + 1) / 2) % 3)
		honest = []int{honest[rot], honest[(rot+1)%3], honest[(rot+2)%3]}
		// The total power changes markedly between consecutive heights (39, 39, 46, 53, 39, 46, ...), so that a
		// threshold computed from a neighbouring height's total is observably wrong: at height 3, 17+10 reaches 2/3 of
		// 39 but not of 46.
		// The varying power belongs to key 0, never to key 2: that is the engine harness's own validator, whose
		// signatures the world does not forge, so the other validators must be able to form certificates without it.
		for i, k := range honest {
			if k == 0 {
				pows[i] = 10 + 7*((h+1)%3)
			}
		}
		if h == 5 {
			for i, k := range honest {
				if k == 2 {
					honest[i] = 4
				}
			}
		}
	}
	vals := make([]tmconsensus.Validator, nVals)
	for i, k := range honest {
		vals[i] = tmconsensus.Validator{PubKey: w.keys[k].Val.PubKey, Power: pows[i]}
	}
	vals[byzIdx] = tmconsensus.Validator{PubKey: w.keys[3].Val.PubKey, Power: 9}
	vs, err := tmconsensus.NewValidatorSet(vals, w.hs)
	if err != nil {
		panic(err)
	}
	w.vsets[h] = vs
	return vs
}

// idxOf returns the index of key k of the pool in VS(h), or -1.
func (w *world) idxOf(h uint64, k int) int {
	for i, v := range w.VS(h).Validators {
		if v.PubKey.Equal(w.keys[k].Val.PubKey) {
			return i
		}
	}
	return -1
}

func (w *world) signerFor(pk gcrypto.PubKey) gcrypto.Signer {
	for _, k := range w.keys {
		if k.Val.PubKey.Equal(pk) {
			return k.Signer
		}
	}
	panic("no signer for key")
}

// foreignVS is a validator set made of keys that are in no honest set, with huge powers.
func (w *world) foreignVS() tmconsensus.ValidatorSet {
	vals := []tmconsensus.Validator{
		{PubKey: w.keys[nKeysPool].Val.PubKey, Power: 1_000_000},
		{PubKey: w.keys[nKeysPool+1].Val.PubKey, Power: 1_000_000},
	}
	vs, err := tmconsensus.NewValidatorSet(vals, w.hs)
	if err != nil {
		panic(err)
	}
	return vs
}

func (w *world) total(h uint64) uint64 {
	var t uint64
	for _, v := range w.VS(h).Validators {
		t += v.Power
	}
	return t
}

// maj and min are computed independently of tmconsensus (C18 checks those functions).
func majority(total uint64) uint64 { return total*2/3 + 1 }
func minority(total uint64) uint64 { return (total + 2) / 3 }

func (w *world) sign(h uint64, idx int, content []byte) []byte {
	s := w.signerFor(w.VS(h).Validators[idx].PubKey)
	sig, err := s.Sign(context.Background(), content)
	if err != nil {
		panic(err)
	}
	return sig
}

func (w *world) voteContent(kind byte, h uint64, r uint32, target string) []byte {
	vt := tmconsensus.VoteTarget{Height: h, Round: r, BlockHash: target}
	var b []byte
	var err error
	if kind == 'p' {
		b, err = tmconsensus.PrevoteSignBytes(vt, w.ss)
	} else {
		b, err = tmconsensus.PrecommitSignBytes(vt, w.ss)
	}
	if err != nil {
		panic(err)
	}
	return b
}

func keyID(idx int) []byte {
	var b [2]byte
	binary.BigEndian.PutUint16(b[:], uint16(idx))
	return b[:]
}

// voteSig returns validator idx's real signature for the vote.
func (w *world) voteSig(kind byte, h uint64, r uint32, target string, idx int) gcrypto.SparseSignature {
	return gcrypto.SparseSignature{KeyID: keyID(idx), Sig: w.sign(h, idx, w.voteContent(kind, h, r, target))}
}

// verifyVote independently checks a sparse signature filed under (kind,h,r,target) against the
// chain-prescribed set for h (or an explicit set): crypto/ed25519 on the raw key bytes.
func (w *world) verifyVote(vs tmconsensus.ValidatorSet, kind byte, h uint64, r uint32, target string, s gcrypto.SparseSignature) (idx int, ok bool) {
	if len(s.KeyID) != 2 {
		return -1, false
	}
	idx = int(binary.BigEndian.Uint16(s.KeyID))
	if idx >= len(vs.Validators) {
		return idx, false
	}
	pk := vs.Validators[idx].PubKey.PubKeyBytes()
	if len(pk) != ed25519.PublicKeySize {
		return idx, false
	}
	content := w.voteContent(kind, h, r, target)
	ck := string(pk) + "|" + string(content) + "|" + string(s.Sig)
	if v, ok := verifyCache[ck]; ok {
		return idx, v
	}
	v := ed25519.Verify(ed25519.PublicKey(pk), content, s.Sig)
	if len(verifyCache) > 200000 {
		verifyCache = map[string]bool{}
	}
	verifyCache[ck] = v
	return idx, v
}

// verifyCache memoises ed25519 verifications across the executions of one worker process
// (pure function of key, content and signature bytes).
var verifyCache = map[string]bool{}

// commitSigners are the honest validators whose precommits the header of h+1 embeds as proof for h.
func (w *world) commitProofFor(h uint64) tmconsensus.CommitProof {
	if h < initialH {
		return tmconsensus.CommitProof{Proofs: map[string][]gcrypto.SparseSignature{}}
	}
	r := w.commitRound[h]
	hash := string(w.header("A", h).Hash)
	var sigs []gcrypto.SparseSignature
	for i := 0; i < nVals; i++ {
		// All honest validators; when one of them is a real engine it signs for itself only, and the
		// Byzantine validator's precommit completes the certificate instead.
		if w.exclKey >= 0 && i == w.idxOf(h, w.exclKey) {
			continue
		}
		if i == byzIdx && (w.exclKey < 0 || w.idxOf(h, w.exclKey) < 0) {
			continue
		}
		sigs = append(sigs, w.voteSig('c', h, r, hash, i))
	}
	return tmconsensus.CommitProof{
		Round:      r,
		PubKeyHash: string(w.VS(h).PubKeyHash),
		Proofs:     map[string][]gcrypto.SparseSignature{hash: sigs},
	}
}

// header returns block "A" (the honest chain's block) or "B" (a competing well-formed block) at height h.
// Headers are fixed on first use within an execution.
func (w *world) header(blk string, h uint64) tmconsensus.Header {
	k := fmt.Sprintf("%s:%d", blk, h)
	if hd, ok := w.hdrs[k]; ok {
		return hd
	}
	var prevHash []byte
	if h == initialH {
		g, err := w.genesis.Header(w.hs)
		if err != nil {
			panic(err)
		}
		prevHash = g.Hash
	} else {
		prevHash = bytes.Clone(w.header("A", h-1).Hash)
	}
	hd := tmconsensus.Header{
		Height:           h,
		PrevBlockHash:    prevHash,
		PrevCommitProof:  w.commitProofFor(h - 1),
		ValidatorSet:     w.VS(h),
		NextValidatorSet: w.VS(h + 1),
		DataID:           []byte(fmt.Sprintf("data-%s-%d", blk, h)),
		PrevAppStateHash: []byte(fmt.Sprintf("app-%d", h-1)),
	}
	w.rehash(&hd)
	w.hdrs[k] = hd
	return hd
}

func (w *world) rehash(h *tmconsensus.Header) {
	hash, err := w.hs.Block(*h)
	if err != nil {
		panic(err)
	}
	h.Hash = hash
}

func (w *world) proposerIdx(blk string, r uint32) int {
	if blk == "B" {
		return byzIdx
	}
	return int(r) % byzIdx
}

// proposal builds a signed proposed header.
func (w *world) proposal(hd tmconsensus.Header, r uint32, proposer int) tmconsensus.ProposedHeader {
	ph := tmconsensus.ProposedHeader{Header: hd, Round: r}
	w.signProposal(&ph, w.VS(hd.Height).Validators[proposer].PubKey)
	return ph
}

func (w *world) signProposal(ph *tmconsensus.ProposedHeader, pk gcrypto.PubKey) {
	b, err := tmconsensus.ProposalSignBytes(ph.Header, ph.Round, ph.Annotations, w.ss)
	if err != nil {
		panic(err)
	}
	sig, err := w.signerFor(pk).Sign(context.Background(), b)
	if err != nil {
		panic(err)
	}
	ph.Signature = sig
	ph.ProposerPubKey = pk
}

// noteHonestPrecommit advances the honest network position when generated honest precommits
// reach a majority for block A (commit) or nil (next round).
func (w *world) noteHonestPrecommit(h uint64, r uint32, target string, idx int) {
	// The Byzantine validator's valid precommits count too: a certificate is a certificate.
	if h != w.H || r != w.R {
		return
	}
	k := vkey{h, r, target}
	if w.genPC[k] == nil {
		w.genPC[k] = map[int]bool{}
	}
	w.genPC[k][idx] = true
	var pow uint64
	for i := range w.genPC[k] {
		pow += w.VS(h).Validators[i].Power
	}
	if pow < majority(w.total(h)) {
		return
	}
	if target == "" {
		w.R++
		return
	}
	if target == string(w.header("A", h).Hash) {
		w.commitRound[h] = r
		w.H++
		w.R = 0
	}
}

// honestMay reports whether honest validator idx may cast this vote: it never votes twice in one round of one kind.
func (w *world) honestMay(kind byte, h uint64, r uint32, idx int, target string) bool {
	if idx == byzIdx {
		return true
	}
	k := fmt.Sprintf("%c|%d|%d|%d", kind, h, r, idx)
	if prev, ok := w.honestVoted[k]; ok {
		return prev == target
	}
	w.honestVoted[k] = target
	return true
}
