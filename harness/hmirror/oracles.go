//go:build verif

package hmirror

import (
	"bytes"
	"fmt"
	"sort"
	"strings"

	"github.com/bits-and-blooms/bitset"
	"github.com/gordian-engine/gordian/gcrypto"
	"github.com/gordian-engine/gordian/internal/zzverif/vx"
	"github.com/gordian-engine/gordian/tm/tmconsensus"
)

// oracles evaluates the per-step invariants of the mirror properties on one execution.
type oracles struct {
	s   *sys
	res *vx.Result
	on  map[string]bool

	firstHash map[uint64]string // C04: first hash seen committed per height
	prev      snap
	havePrev  bool
	prevSnap  snap // the most recent snapshot (after the last event)

	commitsSeen int
	replaysSeen int
	storeSeen   map[uint64]string // header store entries already certified (hash|proof digest)
	cvSeen      string            // committing view already certified

	// C10: every vote signature ever seen in the round store at a quiescent point, per (height, round) and kind.
	everPV, everPC map[[2]uint64]map[string]bool
}

func newOracles(s *sys, res *vx.Result, props []string) *oracles {
	o := &oracles{s: s, res: res, on: map[string]bool{}, firstHash: map[uint64]string{}, storeSeen: map[uint64]string{}}
	for _, p := range props {
		o.on[p] = true
	}
	return o
}

func (o *oracles) violate(prop, sig, msg string) {
	if !o.on[prop] {
		return
	}
	o.res.Violate(prop, sig, fmt.Sprintf("step %d (%s): %s", o.s.step, o.lastEvent(), msg), o.s.step)
}

func (o *oracles) lastEvent() string {
	if o.s.curEvent != "" {
		return o.s.curEvent
	}
	return "init"
}

// evClass reduces an event to its shape, for stable violation signatures.
func evClass(ev string) string {
	parts := strings.Split(ev, ":")
	for i, p := range parts {
		if j := strings.IndexByte(p, '@'); j >= 0 {
			parts[i] = p[:j] + "@"
		}
	}
	if parts[0] == "V" && len(parts) >= 4 {
		// kind, who class, target, variant
		who := parts[2]
		if who != "3" && who != "h" {
			who = "honest"
		}
		parts[2] = who
	}
	return strings.Join(parts, ":")
}

// ---- certificate verification (C01) ----

// certPower independently verifies precommit signatures for exactly (h, r, hash) against the
// chain-prescribed validator set of h and returns the power of the distinct valid signers.
func (o *oracles) certPower(h uint64, r uint32, hash string, sigs []gcrypto.SparseSignature) (pow uint64, bad int) {
	vs := o.s.w.VS(h)
	seen := map[int]bool{}
	for _, sg := range sigs {
		idx, ok := o.s.w.verifyVote(vs, 'c', h, r, hash, sg)
		if !ok {
			bad++
			continue
		}
		if !seen[idx] {
			seen[idx] = true
			pow += vs.Validators[idx].Power
		}
	}
	return pow, bad
}

func (o *oracles) checkCommit(ce commitEvent) {
	if !o.on["C01"] {
		return
	}
	w := o.s.w
	if ce.hash == "" {
		o.violate("C01", "commit-nil:"+ce.via, fmt.Sprintf("height %d treated as committed with an empty block hash via %s", ce.h, ce.via))
		return
	}
	pow, bad := o.certPower(ce.h, ce.round, ce.hash, ce.sigs)
	need := majority(w.total(ce.h))
	o.res.Count("commit_events_checked", 1)
	if pow < need {
		o.violate("C01", "no-certificate:"+ce.via,
			fmt.Sprintf("height %d hash %s treated as committed via %s at round %d, but the node holds valid precommits of distinct prescribed validators worth only %d < %d (of %d); %d of %d held signatures do not verify for that height/round/hash under the prescribed set",
				ce.h, h8([]byte(ce.hash)), ce.via, ce.round, pow, need, w.total(ce.h), bad, len(ce.sigs)))
	}
}

// ---- signature authenticity (C05) ----

func (o *oracles) checkProofMap(where string, vs tmconsensus.ValidatorSet, kind byte, h uint64, r uint32, m map[string]gcrypto.CommonMessageSignatureProof) {
	var bs bitset.BitSet
	for target, p := range m {
		sp := p.AsSparse()
		valid := map[int]bool{}
		for _, sg := range sp.Signatures {
			idx, ok := o.s.w.verifyVote(vs, kind, h, r, target, sg)
			o.res.Count("signatures_verified", 1)
			if !ok {
				o.violate("C05", "bad-signature-in:"+where+":"+string(kind),
					fmt.Sprintf("%s %d/%d kind %c target %s holds a signature (key id %x) that does not verify under that round's validator set", where, h, r, kind, h8([]byte(target)), sg.KeyID))
				continue
			}
			valid[idx] = true
		}
		// The signer bitset must not claim anyone without a verifying signature.
		p.SignatureBitSet(&bs)
		for i, ok := bs.NextSet(0); ok; i, ok = bs.NextSet(i + 1) {
			if !valid[int(i)] {
				o.violate("C05", "bit-without-signature:"+where+":"+string(kind),
					fmt.Sprintf("%s %d/%d kind %c target %s: signer bit %d is set without a verifying signature", where, h, r, kind, h8([]byte(target)), i))
			}
		}
	}
}

func (o *oracles) checkSparseMap(where string, vs tmconsensus.ValidatorSet, kind byte, h uint64, r uint32, m map[string][]gcrypto.SparseSignature) {
	for target, sigs := range m {
		for _, sg := range sigs {
			o.res.Count("signatures_verified", 1)
			if _, ok := o.s.w.verifyVote(vs, kind, h, r, target, sg); !ok {
				o.violate("C05", "bad-signature-in:"+where+":"+string(kind),
					fmt.Sprintf("%s %d/%d kind %c target %s holds a signature (key id %x) that does not verify under that round's validator set", where, h, r, kind, h8([]byte(target)), sg.KeyID))
			}
		}
	}
}

func (o *oracles) checkViewSigs(where string, v *tmconsensus.VersionedRoundView) {
	if v == nil || v.Height == 0 || len(v.ValidatorSet.Validators) == 0 {
		return
	}
	o.checkProofMap(where, v.ValidatorSet, 'p', v.Height, v.Round, v.PrevoteProofs)
	o.checkProofMap(where, v.ValidatorSet, 'c', v.Height, v.Round, v.PrecommitProofs)
}

// vsFor returns the validator set the node itself uses for height h if it can be observed, else the prescribed one.
func (o *oracles) vsFor(sn snap, h uint64) tmconsensus.ValidatorSet {
	if sn.ok && sn.voting.Height == h && len(sn.voting.ValidatorSet.Validators) > 0 {
		return sn.voting.ValidatorSet
	}
	if sn.ok && sn.committing.Height == h && len(sn.committing.ValidatorSet.Validators) > 0 {
		return sn.committing.ValidatorSet
	}
	return o.s.w.VS(h)
}

func (o *oracles) checkAuthentic(sn snap) {
	if !o.on["C05"] {
		return
	}
	if sn.ok {
		o.checkViewSigs("voting-view", &sn.voting)
		o.checkViewSigs("committing-view", &sn.committing)
		if sn.voting.Height > initialH {
			o.checkSparseMap("voting-view.PrevCommitProof", o.vsFor(sn, sn.voting.Height-1), 'c', sn.voting.Height-1, sn.voting.PrevCommitProof.Round, sn.voting.PrevCommitProof.Proofs)
		}
	}
	for k, rs := range sn.rounds {
		vs := o.vsFor(sn, k[0])
		o.checkSparseMap("round-store.prevotes", vs, 'p', k[0], uint32(k[1]), rs.prevotes.BlockSignatures)
		o.checkSparseMap("round-store.precommits", vs, 'c', k[0], uint32(k[1]), rs.precommits.BlockSignatures)
	}
	for h, ch := range sn.headers {
		o.checkSparseMap("committed-header-store.proof", o.vsFor(sn, h), 'c', h, ch.Proof.Round, ch.Proof.Proofs)
	}
}

func (o *oracles) checkGossipSigs(from int) {
	if !o.on["C05"] {
		return
	}
	for _, u := range o.s.gLog[from:] {
		o.checkViewSigs("gossip.committing", u.Committing)
		o.checkViewSigs("gossip.voting", u.Voting)
		o.checkViewSigs("gossip.next-round", u.NextRound)
		o.checkViewSigs("gossip.nil-voted-round", u.NilVotedRound)
	}
}

// ---- vote summaries (C06) ----

func powerOf(vals []tmconsensus.Validator, bs *bitset.BitSet) uint64 {
	var p uint64
	for i, ok := bs.NextSet(0); ok && int(i) < len(vals); i, ok = bs.NextSet(i + 1) {
		p += vals[i].Power
	}
	return p
}

func (o *oracles) checkSummary(where string, v *tmconsensus.VersionedRoundView) {
	if !o.on["C06"] || v == nil || v.Height == 0 || len(v.ValidatorSet.Validators) == 0 {
		return
	}
	vals := v.ValidatorSet.Validators
	var avail uint64
	for _, x := range vals {
		avail += x.Power
	}
	o.res.Count("summaries_recomputed", 1)
	if v.VoteSummary.AvailablePower != avail {
		o.violate("C06", "available-power:"+where, fmt.Sprintf("%s %d/%d AvailablePower=%d, validators sum to %d", where, v.Height, v.Round, v.VoteSummary.AvailablePower, avail))
	}
	one := func(kind string, proofs map[string]gcrypto.CommonMessageSignatureProof, blockPow map[string]uint64, total uint64, most string) {
		var union bitset.BitSet
		var bs bitset.BitSet
		var maxPow uint64
		maxHash := ""
		first := true
		keys := make([]string, 0, len(proofs))
		for k := range proofs {
			keys = append(keys, k)
		}
		sort.Strings(keys)
		for _, k := range keys {
			proofs[k].SignatureBitSet(&bs)
			p := powerOf(vals, &bs)
			union.InPlaceUnion(&bs)
			if blockPow[k] != p {
				o.violate("C06", "block-power:"+kind+":"+where, fmt.Sprintf("%s %d/%d %s power for %s reported %d, distinct signers sum to %d", where, v.Height, v.Round, kind, h8([]byte(k)), blockPow[k], p))
			}
			if first || p > maxPow {
				maxPow, maxHash, first = p, k, false
			}
		}
		for k, p := range blockPow {
			if _, ok := proofs[k]; !ok && p != 0 {
				o.violate("C06", "phantom-block-power:"+kind+":"+where, fmt.Sprintf("%s %d/%d %s power %d reported for %s which has no proof", where, v.Height, v.Round, kind, p, h8([]byte(k))))
			}
		}
		distinct := powerOf(vals, &union)
		if total != distinct {
			o.violate("C06", "total-power-double-count:"+kind+":"+where,
				fmt.Sprintf("%s %d/%d total %s power reported %d, but the distinct validators present hold %d (available %d)", where, v.Height, v.Round, kind, total, distinct, avail))
		}
		if len(proofs) > 0 && maxPow > 0 && blockPow[most] != maxPow {
			o.violate("C06", "most-voted:"+kind+":"+where, fmt.Sprintf("%s %d/%d most voted %s hash %s has power %d, maximum is %d (%s)", where, v.Height, v.Round, kind, h8([]byte(most)), blockPow[most], maxPow, h8([]byte(maxHash))))
		}
	}
	one("prevote", v.PrevoteProofs, v.VoteSummary.PrevoteBlockPower, v.VoteSummary.TotalPrevotePower, v.VoteSummary.MostVotedPrevoteHash)
	one("precommit", v.PrecommitProofs, v.VoteSummary.PrecommitBlockPower, v.VoteSummary.TotalPrecommitPower, v.VoteSummary.MostVotedPrecommitHash)
}

// checkRoundChange: the voting round may only move forward within a height for a reason the statement allows.
func (o *oracles) checkRoundChange(before, after snap) {
	if !o.on["C06"] || !before.ok || !after.ok {
		return
	}
	if after.voting.Height != before.voting.Height || after.voting.Round <= before.voting.Round {
		return
	}
	h, r := before.voting.Height, before.voting.Round
	w := o.s.w
	total := w.total(h)
	later := map[int]bool{}
	nilPC := map[int]bool{}
	allPC := map[int]bool{}
	for k, ids := range o.s.delivered {
		if k.h != h {
			continue
		}
		if k.r > r {
			for i := range ids {
				later[i] = true
			}
		}
		if k.r == r && k.kind == 'c' {
			for i := range ids {
				allPC[i] = true
				if k.target == "" {
					nilPC[i] = true
				}
			}
		}
	}
	pw := func(m map[int]bool) uint64 {
		var p uint64
		for i := range m {
			p += w.VS(h).Validators[i].Power
		}
		return p
	}
	o.res.Count("round_changes_checked", 1)
	if pw(later) >= minority(total) || pw(nilPC) >= majority(total) || pw(allPC) == total || o.s.replayJump {
		return
	}
	o.violate("C06", "round-skipped-by-sub-minority",
		fmt.Sprintf("voting round moved %d/%d -> %d/%d although distinct validators voting in later rounds hold only %d (< minority %d of %d), nil precommits in round %d hold %d (< majority %d) and precommit presence is %d/%d",
			h, r, after.voting.Height, after.voting.Round, pw(later), minority(total), total, r, pw(nilPC), majority(total), pw(allPC), total))
}

// ---- committed chain (C04) ----

func lexLess(a, b [2]uint64) bool { return a[0] < b[0] || (a[0] == b[0] && a[1] < b[1]) }

func (o *oracles) checkChain(before, after snap) {
	if !o.on["C04"] {
		return
	}
	var hs []uint64
	for h, ch := range after.headers {
		hs = append(hs, h)
		hash := string(ch.Header.Hash)
		if first, ok := o.firstHash[h]; ok {
			if first != hash {
				o.violate("C04", "committed-hash-changed", fmt.Sprintf("committed header store at height %d changed from %s to %s", h, h8([]byte(first)), h8([]byte(hash))))
			}
		} else {
			o.firstHash[h] = hash
		}
		if ch.Header.Height != h {
			o.violate("C04", "header-filed-under-wrong-height", fmt.Sprintf("store height %d holds a header of height %d", h, ch.Header.Height))
		}
	}
	for h := range o.firstHash {
		if _, ok := after.headers[h]; !ok {
			o.violate("C04", "committed-header-vanished", fmt.Sprintf("committed header at height %d is no longer in the store", h))
		}
	}
	sort.Slice(hs, func(i, j int) bool { return hs[i] < hs[j] })
	for i, h := range hs {
		if i == 0 {
			if h != initialH {
				o.violate("C04", "chain-does-not-start-at-initial-height", fmt.Sprintf("lowest committed height is %d", h))
			}
			continue
		}
		if h != hs[i-1]+1 {
			o.violate("C04", "gap-in-committed-heights", fmt.Sprintf("committed heights jump from %d to %d", hs[i-1], h))
			continue
		}
		if !bytes.Equal(after.headers[h].Header.PrevBlockHash, after.headers[h-1].Header.Hash) {
			o.violate("C04", "broken-hash-link", fmt.Sprintf("committed header %d names predecessor %s but height %d committed %s", h, h8(after.headers[h].Header.PrevBlockHash), h-1, h8(after.headers[h-1].Header.Hash)))
		}
	}
	o.res.Count("chain_checks", 1)
	// Positions never move backwards; voting height is committing height + 1.
	if before.nhrErr == "" && after.nhrErr == "" {
		if lexLess([2]uint64{after.nhr[0], after.nhr[1]}, [2]uint64{before.nhr[0], before.nhr[1]}) {
			o.violate("C04", "stored-voting-position-regressed", fmt.Sprintf("mirror store voting position went %d/%d -> %d/%d", before.nhr[0], before.nhr[1], after.nhr[0], after.nhr[1]))
		}
		if lexLess([2]uint64{after.nhr[2], after.nhr[3]}, [2]uint64{before.nhr[2], before.nhr[3]}) {
			o.violate("C04", "stored-committing-position-regressed", fmt.Sprintf("mirror store committing position went %d/%d -> %d/%d", before.nhr[2], before.nhr[3], after.nhr[2], after.nhr[3]))
		}
	}
	if after.nhrErr == "" && after.nhr[2] > 0 && after.nhr[0] != after.nhr[2]+1 {
		o.violate("C04", "stored-voting-not-committing-plus-one", fmt.Sprintf("mirror store voting height %d, committing height %d", after.nhr[0], after.nhr[2]))
	}
	if before.ok && after.ok {
		if lexLess([2]uint64{after.voting.Height, uint64(after.voting.Round)}, [2]uint64{before.voting.Height, uint64(before.voting.Round)}) {
			o.violate("C04", "voting-view-regressed", fmt.Sprintf("voting view went %d/%d -> %d/%d", before.voting.Height, before.voting.Round, after.voting.Height, after.voting.Round))
		}
		if lexLess([2]uint64{after.committing.Height, uint64(after.committing.Round)}, [2]uint64{before.committing.Height, uint64(before.committing.Round)}) {
			o.violate("C04", "committing-view-regressed", fmt.Sprintf("committing view went %d/%d -> %d/%d", before.committing.Height, before.committing.Round, after.committing.Height, after.committing.Round))
		}
	}
	if after.ok && after.committing.Height > 0 && after.voting.Height != after.committing.Height+1 {
		o.violate("C04", "voting-not-committing-plus-one", fmt.Sprintf("voting view height %d, committing view height %d", after.voting.Height, after.committing.Height))
	}
}

// ---- validator sets (C07) ----

func (o *oracles) setConsistent(vs tmconsensus.ValidatorSet) string {
	w := o.s.w
	if len(vs.Validators) == 0 {
		return "empty validator list"
	}
	if len(vs.PubKeys) != len(vs.Validators) {
		return "PubKeys and Validators differ in length"
	}
	for i := range vs.Validators {
		if vs.Validators[i].PubKey == nil || !vs.Validators[i].PubKey.Equal(vs.PubKeys[i]) {
			return fmt.Sprintf("PubKeys[%d] differs from Validators[%d].PubKey", i, i)
		}
	}
	kh, _ := w.hs.PubKeys(tmconsensus.ValidatorsToPubKeys(vs.Validators))
	if !bytes.Equal(kh, vs.PubKeyHash) {
		return "validator keys do not hash to PubKeyHash"
	}
	ph, _ := w.hs.VotePowers(tmconsensus.ValidatorsToVotePowers(vs.Validators))
	if !bytes.Equal(ph, vs.VotePowerHash) {
		return "validator powers do not hash to VotePowerHash"
	}
	return ""
}

func (o *oracles) checkValSets(sn snap) {
	if !o.on["C07"] {
		return
	}
	w := o.s.w
	chk := func(where string, h uint64, vs tmconsensus.ValidatorSet) {
		if h == 0 {
			return
		}
		o.res.Count("validator_sets_checked", 1)
		if msg := o.setConsistent(vs); msg != "" {
			o.violate("C07", "set-inconsistent-with-hashes:"+where, fmt.Sprintf("%s at height %d: %s (%s)", where, h, msg, valsetString(vs)))
			return
		}
		want := w.VS(h)
		if h > initialH {
			if prev, ok := sn.headers[h-1]; ok {
				nvs := prev.Header.NextValidatorSet
				if !bytes.Equal(nvs.PubKeyHash, vs.PubKeyHash) || !bytes.Equal(nvs.VotePowerHash, vs.VotePowerHash) {
					o.violate("C07", "set-differs-from-committed-next-set:"+where,
						fmt.Sprintf("%s at height %d uses %s but the header committed at %d carries next set hashes %s/%s", where, h, valsetString(vs), h-1, h8(nvs.PubKeyHash), h8(nvs.VotePowerHash)))
				}
			}
		}
		if !want.Equal(vs) {
			o.violate("C07", "set-differs-from-chain:"+where, fmt.Sprintf("%s at height %d uses %s, the chain prescribes %s", where, h, valsetString(vs), valsetString(want)))
		}
	}
	if sn.ok {
		chk("voting-view", sn.voting.Height, sn.voting.ValidatorSet)
		chk("committing-view", sn.committing.Height, sn.committing.ValidatorSet)
	}
	for h, ch := range sn.headers {
		if msg := o.setConsistent(ch.Header.ValidatorSet); msg != "" {
			o.violate("C07", "committed-header-set-inconsistent", fmt.Sprintf("committed header %d ValidatorSet: %s", h, msg))
		}
		if msg := o.setConsistent(ch.Header.NextValidatorSet); msg != "" {
			o.violate("C07", "committed-header-next-set-inconsistent", fmt.Sprintf("committed header %d NextValidatorSet: %s (%s)", h, msg, valsetString(ch.Header.NextValidatorSet)))
		}
	}
}

// ---- per step ----

func (o *oracles) afterStep(before, after snap, a applied) {
	s := o.s
	o.prevSnap = after
	if o.on["C10"] {
		o.notePersisted(after)
	}
	// C09: defined results, nothing blocked, node answers.
	if o.on["C09"] {
		if a.result == "BLOCKED" {
			o.violate("C09", "handler-blocked:"+evClass(a.ev), s.blocked)
		}
		if a.result == "LIVELOCK" {
			o.violate("C09", "handler-livelock:"+evClass(a.ev), s.blocked)
		}
		if strings.Contains(a.result, "Result(") {
			o.violate("C09", "undefined-result:"+evClass(a.ev), "handler returned undeclared result "+a.result)
		}
		if s.badJump != "" {
			o.violate("C09", "mirror-sent-jump-ahead-not-forward:"+s.badJumpSig, "the state machine panics on this (BUG: attempted to jump ahead ...): "+s.badJump)
			s.badJump = ""
		}
		if strings.HasPrefix(a.result, "restart-failed") {
			// reported by C10
		} else if s.alive() && !after.ok {
			o.violate("C09", "node-stopped-serving:"+evClass(a.ev), "VotingView/CommittingView did not answer after this event")
		}
	}
	if strings.HasPrefix(a.result, "restart-failed") {
		o.violate("C10", "restart-failed:"+normRestartErr(a.result), a.result)
	}

	// C01: commit events.
	if o.on["C01"] {
		for h, ch := range after.headers {
			d := string(ch.Header.Hash) + "|" + sparseString(ch.Proof.Proofs) + fmt.Sprint(ch.Proof.Round)
			if o.storeSeen[h] != d {
				o.storeSeen[h] = d
				o.checkCommit(commitEvent{step: s.step, via: "store", h: h, hash: string(ch.Header.Hash), round: ch.Proof.Round, sigs: ch.Proof.Proofs[string(ch.Header.Hash)], pkhash: ch.Proof.PubKeyHash})
			}
		}
		if after.ok && after.committing.Height > 0 {
			cv := &after.committing
			d := fmt.Sprintf("%d/%d|%s", cv.Height, cv.Round, proofsString(cv.PrecommitProofs))
			if d != o.cvSeen {
				o.cvSeen = d
				// The committing header: the store's entry for that height if present, else the best supported block in the view.
				hash := ""
				if ch, ok := after.headers[cv.Height]; ok {
					hash = string(ch.Header.Hash)
				} else {
					var best uint64
					var bs bitset.BitSet
					for t, p := range cv.PrecommitProofs {
						if t == "" {
							continue
						}
						p.SignatureBitSet(&bs)
						if pw := powerOf(s.w.VS(cv.Height).Validators, &bs); pw > best {
							best, hash = pw, t
						}
					}
				}
				var sigs []gcrypto.SparseSignature
				if p, ok := cv.PrecommitProofs[hash]; ok {
					sigs = p.AsSparse().Signatures
				}
				o.checkCommit(commitEvent{step: s.step, via: "committing-view", h: cv.Height, hash: hash, round: cv.Round, sigs: sigs})
			}
		}
		for _, ce := range s.commits[o.commitsSeen:] {
			o.checkCommit(ce)
		}
		// An accepted replay must have made that exact header the committed one; its certificate (everything the node
		// holds for it, not only the replayed signatures) is then checked through the store and committing view above.
		for _, ce := range s.replayAccepted[o.replaysSeen:] {
			ch, ok := after.headers[ce.h]
			if !ok || string(ch.Header.Hash) != ce.hash {
				o.violate("C01", "replay-accepted-but-not-committed", fmt.Sprintf("replay of %s at height %d was accepted but the committed header store holds %v", h8([]byte(ce.hash)), ce.h, ok))
			}
		}
		o.replaysSeen = len(s.replayAccepted)
	}
	o.commitsSeen = len(s.commits)

	o.checkAuthentic(after)
	if a.allInvalid && o.on["C05"] {
		o.res.Count("all_invalid_messages", 1)
		if a.result == "Accepted" || a.result == "FutureVerified" {
			o.violate("C05", "invalid-message-accepted:"+evClass(a.ev), fmt.Sprintf("a message whose signatures are all invalid for its target was reported as %s", a.result))
		}
		b, af := before.str(true), after.str(true)
		if b != af {
			o.violate("C05", "invalid-message-changed-state:"+evClass(a.ev), "a message whose signatures are all invalid for its target changed the node's views or stores:\n"+firstDiff(b, af))
		}
	}

	if after.ok {
		o.checkSummary("voting-view", &after.voting)
		o.checkSummary("committing-view", &after.committing)
	}
	o.checkRoundChange(before, after)
	o.checkChain(before, after)
	o.checkValSets(after)
}

func normRestartErr(s string) string {
	s = strings.TrimPrefix(s, "restart-failed:")
	if i := strings.IndexAny(s, "0123456789"); i > 0 {
		s = s[:i]
	}
	if len(s) > 80 {
		s = s[:80]
	}
	return s
}

func firstDiff(a, b string) string {
	la, lb := strings.Split(a, "\n"), strings.Split(b, "\n")
	var sb strings.Builder
	n := 0
	for i := 0; i < len(la) || i < len(lb); i++ {
		var x, y string
		if i < len(la) {
			x = la[i]
		}
		if i < len(lb) {
			y = lb[i]
		}
		if x != y {
			fmt.Fprintf(&sb, "  before: %s\n  after:  %s\n", x, y)
			n++
			if n >= 3 {
				break
			}
		}
	}
	return sb.String()
}

// checkOutputs runs the monitors over everything the consumers received since the given indices.
func (o *oracles) checkOutputs(gFrom, sFrom int) {
	o.checkGossipSigs(gFrom)
	if o.on["C06"] {
		for _, u := range o.s.gLog[gFrom:] {
			o.checkSummary("gossip.committing", u.Committing)
			o.checkSummary("gossip.voting", u.Voting)
			o.checkSummary("gossip.next-round", u.NextRound)
			o.checkSummary("gossip.nil-voted-round", u.NilVotedRound)
		}
		for i := range o.s.sLog[sFrom:] {
			r := &o.s.sLog[sFrom+i]
			if r.resp != nil {
				if r.resp.IsVRV() {
					o.checkSummary("sm.entrance-response", &r.resp.VRV)
				}
				continue
			}
			if r.v.VRV.Height > 0 {
				o.checkSummary("sm.view", &r.v.VRV)
			}
			if r.v.JumpAheadRoundView != nil {
				o.checkSummary("sm.jump-ahead", r.v.JumpAheadRoundView)
			}
		}
	}
	if o.on["C05"] {
		for i := range o.s.sLog[sFrom:] {
			r := &o.s.sLog[sFrom+i]
			if r.resp != nil {
				if r.resp.IsVRV() {
					o.checkViewSigs("sm.entrance-response", &r.resp.VRV)
				}
				continue
			}
			o.checkViewSigs("sm.view", &r.v.VRV)
			o.checkViewSigs("sm.jump-ahead", r.v.JumpAheadRoundView)
		}
	}
	if o.on["C01"] {
		for i := range o.s.sLog[sFrom:] {
			r := &o.s.sLog[sFrom+i]
			if r.resp == nil && r.v.CH != nil {
				ch := r.v.CH
				o.checkCommit(commitEvent{step: r.step, via: "sm-view", h: ch.Header.Height, hash: string(ch.Header.Hash), round: ch.Proof.Round, sigs: ch.Proof.Proofs[string(ch.Header.Hash)]})
			}
		}
	}
}
