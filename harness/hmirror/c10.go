//go:build verif

package hmirror

import (
	"encoding/json"
	"fmt"
	"strings"

	"github.com/gordian-engine/gordian/internal/zzverif/vx"
)

// C10: crash-point enumeration (E-FLT). For every base history and every store write the history performs,
// the process is stopped right after that write (every later write is dropped), restarted on the same stores,
// the interrupted message is delivered again and the rest of the history continues; the end state must equal
// the crash-free run's.

type c10obs struct {
	End     string `json:"end"`
	Writes  []int  `json:"writes"`
	Crashed int    `json:"crashed"`
	Pos     []string `json:"pos"`
}

func checkC10(c *vx.Ctx) {
	c.Level = "fault_enumeration"
	crashEnum(c, []string{"C10"})
}

// crashEnum enumerates crash points; report lists the properties whose violations the calling check reports.
func crashEnum(c *vx.Ctx, report []string) {
	ruleText := "base histories = the benign scripts of the mirror harness (40 events) and of the engine harness (54 events) plus selected single deviations (round change, future vote, garbage vote, competing proposal, stalled consumers); for every base history and every store write index k of every event, the store wrappers freeze after write k (every later write is dropped and fails), the node is stopped, restarted on the same stores, the interrupted message is re-delivered and the history continues; thorough adds a second crash inside the re-delivery; every mirror base history is also stopped cleanly and restarted at every quiescent point; oracles: votes held before the stop and persisted earlier are present again, restart succeeds, positions not behind the durable ones, committed headers kept, persisted votes and proposals present again and verifying, finalizations neither refused nor overwritten, final committed chain / voting position / vote sets equal to the crash-free run; a case = (history, event, write index); non-trivial = the crash really interrupted an event (the store froze), distinct by (history, crash point)"
	if c.Rule == "" {
		c.Rule = ruleText
	} else {
		c.Rule += " PLUS crash points: " + ruleText
	}
	props := "C10,C04"
	for _, r := range report {
		if r == "C02" {
			props = "C10,C04,C02"
		}
	}
	type base struct {
		exec   string
		devs   []string
		script []string // nil: the harness's benign script
	}
	var bases []base
	bases = append(bases, base{"mirror", nil, nil}, base{"node", nil, nil})
	// Catch-up by replayed headers only: every height is committed by a replay (with and without the proposal having
	// arrived first), so recovery after a crash inside a replay shows in what the NEXT replay meets.
	bases = append(bases,
		base{"mirror", nil, []string{"SME", "RP:ok", "SMN:h", "RP:ok", "SMN:h", "RP:ok", "SMN:h", "RP:ok"}},
		base{"mirror", nil, []string{"SME", "PH:A", "RP:ok", "SMN:h", "PH:A", "V:p:0:A", "V:p:1:A", "RP:ok", "SMN:h", "RP:ok"}})
	// ... and replays that meet votes for targets the replayed certificate does not name (a Byzantine nil precommit,
	// split prevotes) which the node had persisted before.
	bases = append(bases,
		base{"mirror", nil, []string{"SME", "V:c:3:nil", "RP:ok", "SMN:h", "PH:A", "V:p:0:A", "V:p:3:nil", "V:c:3:nil", "RP:ok", "SMN:h", "V:c:3:B", "RP:ok"}})
	mirrorDevs := []string{"5:-", "5:+V:c:3:nil", "17:+V:p:3:A@0,2", "9:+V:p:3:A:zerosig", "9:+PH:B", "20:+V:c:3:B", "24:+V:p:3:nil@0,1", "2:+V:c:h:A@1,0", "10:+RP:ok"}
	nodeDevs := []string{"3:+V:c:3:nil", "9:+PH:B", "10:+V:p:3:A@0,2", "12:+V:p:3:A:zerosig", "18:+V:p:3:nil@0,1", "26:+RP:ok", "2:~SR:nil", "16:~SR:propose", "4:+V:c:oh:A@1,0"}
	if !c.Quick() {
		for _, d := range singleDeviations(benignScript(), alphabet("core")) {
			mirrorDevs = append(mirrorDevs, d)
		}
		for _, d := range nodeSingleDeviations(nodeScript(), nodeAlphabet("core")) {
			nodeDevs = append(nodeDevs, d)
		}
	}
	for _, d := range mirrorDevs {
		bases = append(bases, base{"mirror", []string{d}, nil})
	}
	for _, d := range nodeDevs {
		bases = append(bases, base{"node", []string{d}, nil})
	}
	// The validator proposes (C02: a proposal signed and recorded before a stop must not be followed by a second one).
	for _, d := range []string{"0:~SR:propose", "8:~SR:propose", "22:~SR:propose"} {
		bases = append(bases, base{"node", []string{d}, nil})
	}
	// Crash-free runs first: they give the write counts per event and the reference end state.
	scriptOf := func(b base) []string {
		if b.script != nil {
			return b.script
		}
		if b.exec == "node" {
			return nodeScript()
		}
		return benignScript()
	}
	refJobs := make([]vx.Job, len(bases))
	for i, b := range bases {
		refJobs[i] = vx.Job{Exec: b.exec, Hist: buildEvents(scriptOf(b), b.devs), Args: map[string]string{"props": props, "mode": "raw", "seed": "0"}}
	}
	refs := c.Pool.Map(refJobs)
	type crashCase struct {
		base int
		job  vx.Job
	}
	var cases []crashCase
	for i, r := range refs {
		c.Absorb(refJobs[i], r, report...)
		if r.Crash != "" || r.HarnessErr != "" || len(r.Obs) == 0 {
			continue
		}
		var ob c10obs
		if json.Unmarshal(r.Obs, &ob) != nil {
			continue
		}
		// Map trace positions back to script positions: the crash is armed by a "Crash:k" event inserted
		// immediately before the event it interrupts.
		events := buildEvents(scriptOf(bases[i]), bases[i].devs)
		if bases[i].exec == "mirror" {
			// Clean stops: the process is stopped and restarted at every quiescent point of the history.
			for pos := 1; pos <= len(events); pos++ {
				hist := append(append(append([]string{}, events[:pos]...), "Restart", "SME"), events[pos:]...)
				cases = append(cases, crashCase{i, vx.Job{Exec: "mirror", Hist: hist, Args: map[string]string{"props": props, "mode": "raw", "seed": "0", "ref": fmt.Sprint(i), "clean": "1"}}})
			}
		}
		for pos := 0; pos < len(events) && pos+1 < len(ob.Writes); pos++ {
			w := ob.Writes[pos+1] - ob.Writes[pos]
			for k := 0; k < w; k++ {
				hist := withCrash(scriptOf(bases[i]), bases[i].devs, pos, k)
				if bases[i].exec == "node" {
					// The engine's scripted continuation is not meaningful after a restart (the strategy is asked
					// again in another order): the engine runs stop after the interrupted event was re-delivered and
					// are judged by the restart oracles only; the end-state comparison is made in the mirror harness.
					hist = append(hist[:pos+2:pos+2], "Settle")
					if props != "C10,C04" {
						// C02: the restarted validator's strategy proposes (again) when it re-enters the round.
						h3 := append(append([]string{}, hist[:pos+2]...), "SR:propose", "Settle")
						cases = append(cases, crashCase{i, vx.Job{Exec: bases[i].exec, Hist: h3, Args: map[string]string{"props": props, "mode": "raw", "seed": "0", "ref": fmt.Sprint(i)}}})
					}
				}
				cj := vx.Job{Exec: bases[i].exec, Hist: hist, Args: map[string]string{"props": props, "mode": "raw", "seed": "0", "ref": fmt.Sprint(i)}}
				if bases[i].exec == "mirror" && pos < len(ob.Pos) {
					cj.Args["expect_after"] = ob.Pos[pos]
				}
				cases = append(cases, crashCase{i, cj})
				if !c.Quick() && i < 2 {
					// A second crash while the interrupted event is delivered again.
					for k2 := 0; k2 <= k && k2 < 3; k2++ {
						h2 := withDoubleCrash(scriptOf(bases[i]), bases[i].devs, pos, k, k2)
						cases = append(cases, crashCase{i, vx.Job{Exec: bases[i].exec, Hist: h2, Args: map[string]string{"props": props, "mode": "raw", "seed": "0", "ref": fmt.Sprint(i)}}})
					}
				}
			}
		}
	}
	c.Extra["base_histories"] = len(bases)
	c.Extra["crash_cases"] = len(cases)
	jobs := make([]vx.Job, len(cases))
	for i := range cases {
		jobs[i] = cases[i].job
	}
	st := &exploreStats{keys: map[string]struct{}{}}
	n := 0
	reportsC10 := false
	for _, p := range report {
		if p == "C10" {
			reportsC10 = true
		}
	}
	runJobs(c, jobs, st, report, func(j vx.Job, r vx.Result) {
		n++
		var ob, ref c10obs
		if r.Crash != "" || r.HarnessErr != "" || json.Unmarshal(r.Obs, &ob) != nil {
			return
		}
		var bi int
		fmt.Sscan(j.Args["ref"], &bi)
		_ = json.Unmarshal(refs[bi].Obs, &ref)
		if ob.Crashed > 0 {
			c.NonTrivial(strings.Join(j.Hist, " "))
		}
		if reportsC10 && j.Exec == "mirror" && len(r.Viol) == 0 && ob.End != ref.End {
			c.Violate(vx.Violation{Prop: "C10", Sig: "end-state-differs-from-crash-free-run:" + j.Exec,
				Msg: fmt.Sprintf("after the crash, restart and re-delivery the final state differs from the crash-free run of the same history\n  crash-free: %s\n  with crash: %s", ref.End, ob.End)}, j)
		}
		if n%397 == 1 {
			c.Sample(map[string]any{"harness": j.Exec, "events_with_crash": compactHist(j.Hist), "end_state": ob.End})
		}
	})
	c.Assume("in-memory stores apply each call atomically, so a store call is the crash granularity")
	c.Assume("a frozen store drops and fails every later write; the node is then stopped and restarted on the same stores")
}

func compactHist(h []string) []string {
	for i, e := range h {
		if strings.HasPrefix(e, "Crash:") {
			lo := max(0, i-2)
			hi := min(len(h), i+3)
			return append([]string{fmt.Sprintf("... (%d events before)", lo)}, h[lo:hi]...)
		}
	}
	return h
}

// withCrash returns the raw event list of the history with "Crash:k" inserted before event index pos.
func withCrash(script, devs []string, pos, k int) []string {
	events := buildEvents(script, devs)
	out := append([]string{}, events[:pos]...)
	out = append(out, fmt.Sprintf("Crash:%d", k))
	out = append(out, events[pos:]...)
	return out
}

func withDoubleCrash(script, devs []string, pos, k, k2 int) []string {
	events := buildEvents(script, devs)
	out := append([]string{}, events[:pos]...)
	out = append(out, fmt.Sprintf("Crash:%d", k), fmt.Sprintf("Recrash:%d", k2))
	out = append(out, events[pos:]...)
	return out
}
