//go:build verif

package hmirror

import (
	"encoding/json"
	"fmt"
	"strconv"
	"strings"
	"testing"
	"testing/synctest"

	"github.com/gordian-engine/gordian/internal/zzverif/vx"
)

const nodeKey = 2 // pool key of the engine harness's own validator

func nodeRound(target string) []string {
	if target == "nil" {
		return []string{"SR", "TF", "SR", "V:p:oh:nil", "SR", "V:c:oh:nil"}
	}
	return []string{"SR", "PH:A", "SR", "V:p:oh:A", "SR", "V:c:oh:A", "DR", "TF"}
}

// nodeScript is the benign environment of one engine: honest proposer (never this node), the other honest
// validators' votes arriving together after this node has voted, the strategy answering at once with the
// honest block, the driver finalizing at once, the commit-wait timer firing. Heights 1,2 commit in round 0,
// height 3 has a nil round (proposal timeout), heights 4,5,6 commit in round 0; this node's key is not in
// the validator set of height 5.
func nodeScript() []string {
	var s []string
	s = append(s, nodeRound("A")...)
	s = append(s, nodeRound("A")...)
	s = append(s, nodeRound("nil")...)
	s = append(s, nodeRound("A")...)
	s = append(s, nodeRound("A")...)
	s = append(s, nodeRound("A")...)
	s = append(s, nodeRound("A")...)
	return s
}

// nodeScript2 exercises the paths the benign script never reaches: at height 2 this node does not receive the
// honest proposal but a competing well-formed block B from the Byzantine validator, prevotes B, the rest of the
// network commits A, so the node is in commit wait WITHOUT the committed block's header until it arrives late.
func nodeScript2() []string {
	var s []string
	s = append(s, nodeRound("A")...)
	s = append(s,
		"SR", "PH:B", "SR:B", "V:p:3:B", "V:p:o1:A", "V:c:oh:A", "V:c:3:A", // committed by others; header A unknown here
		"V:p:o2:A@-1,0", // a late vote (the network has moved on): one more view update while waiting for the header
		"PH:A@-1,0",     // the header arrives
		"DR", "TF")
	s = append(s, nodeRound("A")...)
	return s
}

func init() {
	registry.Execs["node"] = execNode
}

func execNode(t *testing.T, job vx.Job) (res vx.Result) {
	props := strings.Split(job.Args["props"], ",")
	script := nodeScript()
	if job.Args["script"] == "2" {
		script = nodeScript2()
	}
	var events []string
	seed := 0
	switch job.Args["mode"] {
	case "raw":
		seed, _ = strconv.Atoi(job.Args["seed"])
		events = append(append([]string{}, script[:seed]...), job.Hist...)
	default:
		events = buildEvents(script, job.Hist)
	}
	synctest.Test(t, func(t *testing.T) {
		res = runNode(events, props, job.Args)
	})
	return res
}

func runNode(events []string, props []string, args map[string]string) (res vx.Result) {
	w := newWorld()
	w.exclKey = nodeKey
	n := &node{w: w, keyIdx: nodeKey, name: "n", gateSM: true}
	n.st = newNodeStores(w)
	n.start()
	s := &sys{w: w, eng: n, st: &n.st.stores, rhr: n.rhr, recrash: -1}
	s.sm.acted = map[string]bool{}
	n.sys = s
	o := newOracles(s, &res, props)
	mon := newNodeMonitor(o, n)
	defer func() {
		n.stop()
	}()
	if n.startErr != "" {
		res.HarnessErr = "fresh engine failed to start: " + n.startErr
		return
	}
	s.drain(false)
	before := s.snapshot()
	o.afterStep(before, before, applied{ev: "init"})
	mon.check()
	var writesAfter []int
	writesAfter = append(writesAfter, s.st.f.writes)
	for i, ev := range events {
		s.step = i
		n.step = i
		gFrom := len(s.gLog)
		if strings.HasPrefix(ev, "BATCH:") {
			// BATCH:<n>:<case>: the next n events happen before the state machine kernel looks at any of its inputs; it
			// then takes the named case of its main select first if that one is ready (controlled select, see node.go).
			p := strings.Split(ev, ":")
			cnt, _ := strconv.Atoi(p[1])
			pc, _ := strconv.Atoi(p[2])
			r := "n/a:not-gated"
			if n.gate != nil && n.batch == 0 && cnt >= 1 {
				n.batch, n.pref = cnt, pc
				r = "batching"
			}
			s.results = append(s.results, fmt.Sprintf("%3d %-28s %s", i, ev, r))
			res.Keys = append(res.Keys, "batch")
			writesAfter = append(writesAfter, s.st.f.writes)
			continue
		}
		a := s.apply(ev)
		resend := s.resend
		if n.batch > 0 {
			n.batch--
			if n.batch > 0 {
				// Inputs pile up in front of the held state machine kernel; the mirror and the rest of the engine run on.
				s.drain(false)
				res.Keys = append(res.Keys, "batching")
				writesAfter = append(writesAfter, s.st.f.writes)
				continue
			}
		}
		if !s.st.f.frozen {
			// The event's asynchronous consequences (the state machine's reaction, view shifts) write too: a crash point
			// inside them stops the process here, not one event later with the stores failing in between.
			s.drain(false)
		}
		crashedHere := s.st.f.frozen
		if s.st.f.frozen {
			// Calls that were in flight when the process stopped are not calls that "did not return".
			s.blocked, n.blocked = "", ""
			n.stop()
			durable := s.snapshotStoresOnly()
			o.afterCrash(before, durable)
			r := s.restart()
			s.results[len(s.results)-1] += "|crashed-after-" + strconv.Itoa(s.st.f.writes) + "-writes|" + r
			if strings.HasPrefix(r, "restart-failed") {
				o.violate("C10", "restart-failed:"+normRestartErr(r), r+" (after crash in event "+ev+", writes let through: "+strings.Join(tail(s.st.f.log, 4), ", ")+")")
				break
			}
			s.drain(false)
			o.afterRestart(durable)
			mon.afterRestart()
			if a.isNetMsg || strings.HasPrefix(ev, "RP") {
				if resend != nil {
					a.result = resend()
				} else {
					a = s.apply(ev)
				}
			}
		}
		s.drain(false)
		after := s.snapshot()
		if crashedHere {
			o.afterRedelivery(before, after)
		}
		o.afterStep(before, after, a)
		o.checkOutputs(gFrom, len(s.sLog))
		s.noteRoundEnd(before, after)
		mon.check()
		if strings.HasPrefix(a.result, "restart-failed") {
			break
		}
		res.Keys = append(res.Keys, vx.ShortHash(s.key(after) + mon.key())[:12])
		writesAfter = append(writesAfter, s.st.f.writes)
		before = after
	}
	s.step = len(events)
	n.step = s.step
	s.curEvent = "final"
	s.drain(true)
	final := s.snapshot()
	o.afterStep(before, final, applied{ev: "final"})
	mon.check()
	mon.final()
	if o.on["C09"] {
		ph, vote := s.witnessed(events)
		checkMappers(&res, ph, vote)
		for k := range ph {
			res.Count("witnessed_ph_result:"+k, 1)
		}
		for k := range vote {
			res.Count("witnessed_vote_result:"+k, 1)
		}
	}

	res.Key = s.key(final) + mon.key()
	res.Trace = events
	res.Obs, _ = json.Marshal(map[string]any{"end": endKey(final) + fmt.Sprintf(" | sm %d/%d fin=%d", mon.smH, mon.smR, len(mon.finSaved)), "writes": writesAfter, "crashed": n.restarts})
	res.Outcome = fmt.Sprintf("V%d/%d C%d hdrs%d sm%d/%d r%d", final.voting.Height, final.voting.Round, final.committing.Height, len(final.headers), n.curH, n.curR, n.restarts)
	res.NonTrivial = len(final.headers) > 0 || mon.signed > 0
	if args["results"] == "1" {
		res.Next = s.results
	}
	res.Count("events_applied", int64(len(events)))
	if args["results"] == "1" {
		for _, e := range n.trace {
			res.Next = append(res.Next, fmt.Sprintf("TRACE step=%d %s %s %d/%d %s %s", e.step, e.kind, e.a, e.h, e.r, h8([]byte(e.hash)), strings.ReplaceAll(e.x, "\n", " ")[:min(len(e.x), 20)]))
		}
	}
	vx.EarlyResult(&res) // the verdict is complete; what follows is teardown
	return res
}
