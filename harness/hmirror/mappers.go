//go:build verif

package hmirror

import (
	"context"
	"fmt"
	"strings"

	"github.com/gordian-engine/gordian/gexchange"
	"github.com/gordian-engine/gordian/internal/zzverif/vx"
	"github.com/gordian-engine/gordian/tm/tmconsensus"
)

// C09(c): the shipped feedback mappers must translate every result the engine returns.
// Every result value witnessed from the real mirror/engine during an execution is pushed through both
// mappers (all three methods) with a stub handler returning exactly that value.

type stubHandler struct {
	ph   tmconsensus.HandleProposedHeaderResult
	vote tmconsensus.HandleVoteProofsResult
}

func (s stubHandler) HandleProposedHeader(context.Context, tmconsensus.ProposedHeader) tmconsensus.HandleProposedHeaderResult {
	return s.ph
}
func (s stubHandler) HandlePrevoteProofs(context.Context, tmconsensus.PrevoteSparseProof) tmconsensus.HandleVoteProofsResult {
	return s.vote
}
func (s stubHandler) HandlePrecommitProofs(context.Context, tmconsensus.PrecommitSparseProof) tmconsensus.HandleVoteProofsResult {
	return s.vote
}

func validFeedback(f gexchange.Feedback) bool {
	return f == gexchange.FeedbackAccepted || f == gexchange.FeedbackRejected || f == gexchange.FeedbackIgnored || f == gexchange.FeedbackRejectAndDisconnect
}

// checkMappers maps the witnessed result names (as printed by String()).
func checkMappers(res *vx.Result, phResults, voteResults map[string]bool) {
	try := func(what, name string, f func() gexchange.Feedback) {
		defer func() {
			if r := recover(); r != nil {
				res.Violate("C09", "feedback-mapper-panic:"+what+":"+name, fmt.Sprintf("%s panics on result %s, which the engine returned in this execution: %v", what, name, r), 0)
			}
		}()
		fb := f()
		res.Count("mapper_translations", 1)
		if !validFeedback(fb) {
			res.Violate("C09", "feedback-mapper-invalid:"+what+":"+name, fmt.Sprintf("%s maps %s to %s", what, name, fb), 0)
		}
	}
	ctx := context.Background()
	for v := 0; v < 256; v++ {
		pr := tmconsensus.HandleProposedHeaderResult(v)
		if phResults[pr.String()] {
			h := stubHandler{ph: pr}
			try("AcceptAllValidFeedbackMapper.HandleProposedHeader", pr.String(), func() gexchange.Feedback {
				return tmconsensus.AcceptAllValidFeedbackMapper{Handler: h}.HandleProposedHeader(ctx, tmconsensus.ProposedHeader{})
			})
			try("DropDuplicateFeedbackMapper.HandleProposedHeader", pr.String(), func() gexchange.Feedback {
				return tmconsensus.DropDuplicateFeedbackMapper{Handler: h}.HandleProposedHeader(ctx, tmconsensus.ProposedHeader{})
			})
		}
		vr := tmconsensus.HandleVoteProofsResult(v)
		if voteResults[vr.String()] {
			h := stubHandler{vote: vr}
			try("AcceptAllValidFeedbackMapper.HandlePrevoteProofs", vr.String(), func() gexchange.Feedback {
				return tmconsensus.AcceptAllValidFeedbackMapper{Handler: h}.HandlePrevoteProofs(ctx, tmconsensus.PrevoteSparseProof{})
			})
			try("AcceptAllValidFeedbackMapper.HandlePrecommitProofs", vr.String(), func() gexchange.Feedback {
				return tmconsensus.AcceptAllValidFeedbackMapper{Handler: h}.HandlePrecommitProofs(ctx, tmconsensus.PrecommitSparseProof{})
			})
			try("DropDuplicateFeedbackMapper.HandlePrevoteProofs", vr.String(), func() gexchange.Feedback {
				return tmconsensus.DropDuplicateFeedbackMapper{Handler: h}.HandlePrevoteProofs(ctx, tmconsensus.PrevoteSparseProof{})
			})
			try("DropDuplicateFeedbackMapper.HandlePrecommitProofs", vr.String(), func() gexchange.Feedback {
				return tmconsensus.DropDuplicateFeedbackMapper{Handler: h}.HandlePrecommitProofs(ctx, tmconsensus.PrecommitSparseProof{})
			})
		}
	}
}

// witnessed collects the handler results of an execution by message kind.
func (s *sys) witnessed(events []string) (ph, vote map[string]bool) {
	ph, vote = map[string]bool{}, map[string]bool{}
	for i, ev := range events {
		if i >= len(s.results) {
			break
		}
		r := s.results[i]
		if j := strings.IndexByte(r, '|'); j >= 0 {
			r = r[:j]
		}
		if strings.HasPrefix(ev, "PH") {
			ph[r] = true
		} else if strings.HasPrefix(ev, "V:") {
			vote[r] = true
		}
	}
	return
}
