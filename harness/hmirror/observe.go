//go:build verif

package hmirror

import (
	"bytes"
	"context"
	"crypto/sha256"
	"encoding/hex"
	"fmt"
	"sort"
	"strings"

	"github.com/bits-and-blooms/bitset"
	"github.com/gordian-engine/gordian/gcrypto"
	"github.com/gordian-engine/gordian/tm/tmconsensus"
)

// snap is everything observable about the node at a quiescent point.
type snap struct {
	ok         bool // views could be read
	voting     tmconsensus.VersionedRoundView
	committing tmconsensus.VersionedRoundView
	nhr        [4]uint64
	nhrErr     string
	headers    map[uint64]tmconsensus.CommittedHeader
	rounds     map[[2]uint64]roundState
}

type roundState struct {
	phs        []tmconsensus.ProposedHeader
	prevotes   tmconsensus.SparseSignatureCollection
	precommits tmconsensus.SparseSignatureCollection
}

const maxObsHeight = 8
const maxObsRound = 4

func (s *sys) snapshot() snap {
	var sn snap
	sn.headers = map[uint64]tmconsensus.CommittedHeader{}
	sn.rounds = map[[2]uint64]roundState{}
	ctx := context.Background()
	if s.eng != nil {
		// The engine exposes no view API: the views are what its gossip strategy was last handed.
		sn.ok = s.eng.up()
		sn.voting = s.eng.lastVoting.Clone()
		sn.committing = s.eng.lastCommitting.Clone()
	} else if s.m != nil {
		// The destination views are reused from poll to poll, as the API documents callers should do.
		r := s.call("VotingView", func(ctx context.Context) string {
			if err := s.m.VotingView(ctx, &s.pollV); err != nil {
				return "err"
			}
			if err := s.m.CommittingView(ctx, &s.pollC); err != nil {
				return "err"
			}
			return "ok"
		})
		sn.ok = r == "ok"
		if sn.ok {
			sn.voting = s.pollV.Clone()
			sn.committing = s.pollC.Clone()
		}
	}
	vh, vr, ch, cr, err := s.st.ms.NetworkHeightRound(ctx)
	sn.nhr = [4]uint64{vh, uint64(vr), ch, uint64(cr)}
	if err != nil {
		sn.nhrErr = err.Error()
	}
	for h := uint64(1); h <= maxObsHeight; h++ {
		if c, err := s.st.hs.LoadCommittedHeader(ctx, h); err == nil {
			sn.headers[h] = c
		}
		for r := uint32(0); r < maxObsRound; r++ {
			phs, pv, pc, err := s.st.rs.LoadRoundState(ctx, h, r)
			if err == nil {
				sn.rounds[[2]uint64{h, uint64(r)}] = roundState{phs, pv, pc}
			}
		}
	}
	return sn
}

func h8(b []byte) string {
	if len(b) == 0 {
		return "-"
	}
	if len(b) > 4 {
		b = b[:4]
	}
	return hex.EncodeToString(b)
}

func digest(parts ...string) string {
	h := sha256.New()
	for _, p := range parts {
		h.Write([]byte(p))
		h.Write([]byte{0})
	}
	return hex.EncodeToString(h.Sum(nil)[:6])
}

func valsetString(vs tmconsensus.ValidatorSet) string {
	var sb strings.Builder
	sb.WriteString(h8(vs.PubKeyHash) + "/" + h8(vs.VotePowerHash) + "[")
	for i, v := range vs.Validators {
		if i > 0 {
			sb.WriteByte(',')
		}
		var pk []byte
		if v.PubKey != nil {
			pk = v.PubKey.PubKeyBytes()
		}
		fmt.Fprintf(&sb, "%s:%d", h8(pk), v.Power)
	}
	sb.WriteString("]")
	if len(vs.PubKeys) != len(vs.Validators) {
		fmt.Fprintf(&sb, "pk#%d", len(vs.PubKeys))
	}
	return sb.String()
}

func proofsString(m map[string]gcrypto.CommonMessageSignatureProof) string {
	keys := make([]string, 0, len(m))
	for k := range m {
		keys = append(keys, k)
	}
	sort.Strings(keys)
	var sb strings.Builder
	var bs bitset.BitSet
	for _, k := range keys {
		m[k].SignatureBitSet(&bs)
		fmt.Fprintf(&sb, "%s=%s;", h8([]byte(k)), bs.String())
	}
	return sb.String()
}

func sparseString(m map[string][]gcrypto.SparseSignature) string {
	keys := make([]string, 0, len(m))
	for k := range m {
		keys = append(keys, k)
	}
	sort.Strings(keys)
	var sb strings.Builder
	for _, k := range keys {
		ids := make([]string, 0, len(m[k]))
		for _, sg := range m[k] {
			ids = append(ids, hex.EncodeToString(sg.KeyID)+"."+h8(sg.Sig))
		}
		sort.Strings(ids)
		fmt.Fprintf(&sb, "%s=%s;", h8([]byte(k)), strings.Join(ids, ","))
	}
	return sb.String()
}

func phsString(phs []tmconsensus.ProposedHeader) string {
	out := make([]string, 0, len(phs))
	for _, ph := range phs {
		out = append(out, h8(ph.Header.Hash)+"."+h8(ph.Signature)+"."+digest(valsetString(ph.Header.ValidatorSet), valsetString(ph.Header.NextValidatorSet)))
	}
	sort.Strings(out)
	return strings.Join(out, ",")
}

func summaryString(vs tmconsensus.VoteSummary) string {
	f := func(m map[string]uint64) string {
		ks := make([]string, 0, len(m))
		for k := range m {
			ks = append(ks, k)
		}
		sort.Strings(ks)
		var sb strings.Builder
		for _, k := range ks {
			fmt.Fprintf(&sb, "%s:%d,", h8([]byte(k)), m[k])
		}
		return sb.String()
	}
	return fmt.Sprintf("a%d pv%d[%s]%s pc%d[%s]%s", vs.AvailablePower, vs.TotalPrevotePower, f(vs.PrevoteBlockPower), h8([]byte(vs.MostVotedPrevoteHash)),
		vs.TotalPrecommitPower, f(vs.PrecommitBlockPower), h8([]byte(vs.MostVotedPrecommitHash)))
}

func vrvString(v tmconsensus.VersionedRoundView, withVersions bool) string {
	s := fmt.Sprintf("%d/%d vs=%s ph=[%s] pv={%s} pc={%s} pcp=%d:%s{%s} sum=%s", v.Height, v.Round, valsetString(v.ValidatorSet), phsString(v.ProposedHeaders),
		proofsString(v.PrevoteProofs), proofsString(v.PrecommitProofs), v.PrevCommitProof.Round, h8([]byte(v.PrevCommitProof.PubKeyHash)), sparseString(v.PrevCommitProof.Proofs),
		summaryString(v.VoteSummary))
	if withVersions {
		s += fmt.Sprintf(" ver=%d", v.Version)
	}
	return s
}

// str renders the snapshot; with versions it is the exact observable state (C05 no-change clause, C11),
// without it is the canonical key for state matching.
func (sn snap) str(withVersions bool) string {
	var sb strings.Builder
	fmt.Fprintf(&sb, "ok=%v\nV %s\nC %s\nNHR %v %s\n", sn.ok, vrvString(sn.voting, withVersions), vrvString(sn.committing, withVersions), sn.nhr, sn.nhrErr)
	hs := make([]int, 0, len(sn.headers))
	for h := range sn.headers {
		hs = append(hs, int(h))
	}
	sort.Ints(hs)
	for _, h := range hs {
		c := sn.headers[uint64(h)]
		fmt.Fprintf(&sb, "H%d %s prev=%s r%d {%s} nvs=%s\n", h, h8(c.Header.Hash), h8(c.Header.PrevBlockHash), c.Proof.Round, sparseString(c.Proof.Proofs), valsetString(c.Header.NextValidatorSet))
	}
	rk := make([][2]uint64, 0, len(sn.rounds))
	for k := range sn.rounds {
		rk = append(rk, k)
	}
	sort.Slice(rk, func(i, j int) bool { return rk[i][0] < rk[j][0] || (rk[i][0] == rk[j][0] && rk[i][1] < rk[j][1]) })
	for _, k := range rk {
		rs := sn.rounds[k]
		fmt.Fprintf(&sb, "R%d/%d ph=[%s] pv=%s{%s} pc=%s{%s}\n", k[0], k[1], phsString(rs.phs), h8(rs.prevotes.PubKeyHash), sparseString(rs.prevotes.BlockSignatures),
			h8(rs.precommits.PubKeyHash), sparseString(rs.precommits.BlockSignatures))
	}
	return sb.String()
}

// key is the canonical state key: node state without version counters, plus the harness-side state that decides futures.
func (s *sys) key(sn snap) string {
	var sb strings.Builder
	sb.WriteString(sn.str(false))
	fmt.Fprintf(&sb, "W %d/%d cr=%v hdrs=%d\n", s.w.H, s.w.R, s.w.commitRound, len(s.w.hdrs))
	gk := make([]string, 0, len(s.w.genPC))
	for k, v := range s.w.genPC {
		if k.h == s.w.H && k.r == s.w.R {
			ids := make([]int, 0, len(v))
			for i := range v {
				ids = append(ids, i)
			}
			sort.Ints(ids)
			gk = append(gk, fmt.Sprintf("%s%v", h8([]byte(k.target)), ids))
		}
	}
	sort.Strings(gk)
	fmt.Fprintf(&sb, "G %v\n", gk)
	acted := make([]string, 0, 3)
	for k := range s.sm.acted {
		acted = append(acted, k)
	}
	sort.Strings(acted)
	fmt.Fprintf(&sb, "SM %v %d/%d acted=%v c=%v n=%v j=%v/%d stall=%v/%v down=%v\n", s.sm.entered, s.sm.h, s.sm.r, acted, s.sm.sawCommit, s.sm.sawNilAdv, s.sm.sawJump, s.sm.jumpTo,
		s.stallG, s.stallS, !s.alive())
	if mapDesc {
		// The iteration order of the mirror's maps is part of the state: it decides the future.
		sb.WriteString("maps-descending\n")
	}
	if s.stallG || s.stallS {
		// Pending outputs cannot be observed without consuming them: never merge stalled states.
		fmt.Fprintf(&sb, "stalled-at-step %d\n", s.step)
	}
	return sb.String()
}

func sameSig(a, b gcrypto.SparseSignature) bool {
	return bytes.Equal(a.KeyID, b.KeyID) && bytes.Equal(a.Sig, b.Sig)
}
