//go:build verif

package hmirror

import (
	"context"
	"fmt"
	"runtime"
	"sort"
	"strings"

	"github.com/bits-and-blooms/bitset"
	"github.com/gordian-engine/gordian/gcrypto"
	"github.com/gordian-engine/gordian/tm/tmconsensus"
)

// nodeMonitor evaluates the state-machine side properties (C02, C07 state machine part, C08, C12a)
// on the ordered trace of one engine execution. It is fed incrementally at every quiescent point.
type nodeMonitor struct {
	o   *oracles
	n   *node
	pos int

	// State machine position: from the initial entrance and the state machine store writes.
	smH      uint64
	smR      uint32
	entered  bool
	catchingUp bool // the last entrance has not been followed by an EnterRound call (replay of a committed header)

	// Strategy round: the round of the last EnterRound call.
	curH uint64
	curR uint32

	rounds map[[2]uint64]*roundMon

	// C02: distinct sign contents per (kind,h,r), across restarts.
	signed   int
	contents map[string]map[string]bool
	signLife map[string][]int // process lifetime of each distinct content, in signing order
	life     int
	// partial: the kernel is at rest between two passes of its controlled select but inputs may still be pending:
	// only the clauses that do not depend on every input having been consumed are evaluated.
	partial bool
	// delay timers cancelled before they fired whose justification (a way out of the step) has not been seen yet
	cancelled []cancelledTimer

	finSaved   map[uint64]bool
	finReq     map[uint64]string // height -> hash requested
	afterStart bool              // no entrance observed yet in this process lifetime
	lastEnterH uint64
	lastEnterR uint32
	haveEnter  bool
}

type roundMon struct {
	enterReleased  bool
	chooseCalls    int
	decideCalls    int
	prevoteAnswer  *string
	precommitAnswer *string
	prevoteSigned  bool
	precommitSigned bool
	prevoteDelayFired bool
	precommitDelayFired bool
	finRequested   bool
	considerAfterPrevote bool
	shown          map[string]bool // proposed headers (by hash) the strategy was shown in Consider/Choose calls
}

type cancelledTimer struct {
	kind string
	h    uint64
	r    uint32
	pos  int
	step int
}

func newNodeMonitor(o *oracles, n *node) *nodeMonitor {
	return &nodeMonitor{o: o, n: n, rounds: map[[2]uint64]*roundMon{}, contents: map[string]map[string]bool{}, signLife: map[string][]int{},
		finSaved: map[uint64]bool{}, finReq: map[uint64]string{}, afterStart: true}
}

func (m *nodeMonitor) rd(h uint64, r uint32) *roundMon {
	k := [2]uint64{h, uint64(r)}
	if m.rounds[k] == nil {
		m.rounds[k] = &roundMon{}
	}
	return m.rounds[k]
}

func (m *nodeMonitor) key() string {
	ts := m.n.outstandingTimers()
	tk := make([]string, 0, len(ts))
	for _, t := range ts {
		tk = append(tk, fmt.Sprintf("%s@%d/%d", t.kind, t.h, t.r))
	}
	sort.Strings(tk)
	p := "-"
	if c := m.n.pending; c != nil {
		p = fmt.Sprintf("%s@%d/%d#%d", c.kind, c.h, c.r, len(c.phs))
	}
	r := m.rd(m.curH, m.curR)
	return fmt.Sprintf("MON sm=%d/%d cur=%d/%d pend=%s timers=%v fin=%d r={%v %d %d %v %v} pf=%d\n", m.smH, m.smR, m.curH, m.curR, p, tk, len(m.finSaved),
		r.enterReleased, r.chooseCalls, r.decideCalls, r.prevoteSigned, r.precommitSigned, len(m.n.pendingFin))
}

func (m *nodeMonitor) deliveredPower(h uint64, match func(k dkey) bool) uint64 {
	s := m.o.s
	ids := map[int]bool{}
	for k, v := range s.delivered {
		if k.h == h && match(k) {
			for i := range v {
				ids[i] = true
			}
		}
	}
	var p uint64
	for i := range ids {
		p += s.w.VS(h).Validators[i].Power
	}
	return p
}

func (m *nodeMonitor) afterRestart() {}

// check consumes new trace events and evaluates the quiescent-point invariants.
func (m *nodeMonitor) check() {
	n, o, w := m.n, m.o, m.n.w
	for _, v := range n.wrapViol {
		o.violate("C02", "vote-released-before-recorded", v)
	}
	n.wrapViol = nil
	for _, v := range n.wrapViolPH {
		o.violate("C02", "proposal-released-before-recorded", v)
	}
	n.wrapViolPH = nil
	for ; m.pos < len(n.trace); m.pos++ {
		e := n.trace[m.pos]
		switch e.kind {
		case "start":
			m.life++
			m.afterStart = true
			m.entered = false
			// A new process lifetime may consult the strategy again; what must not repeat is a different signature (C02).
			for _, rm := range m.rounds {
				rm.chooseCalls, rm.decideCalls = 0, 0
				rm.prevoteAnswer, rm.precommitAnswer = nil, nil
				rm.enterReleased = false
				rm.prevoteSigned, rm.precommitSigned = false, false
			}
		case "smstore":
			m.entrance(e.h, e.r, true)
		case "call":
			c := n.calls[atoi(e.x)]
			if e.a == "enter" {
				if m.afterStart && !m.entered {
					// The initial entrance of a process lifetime is not preceded by a state machine store write.
					m.entrance(e.h, e.r, false)
				}
				m.catchingUp = false
				if e.h != m.smH || e.r != m.smR {
					o.violate("C08", "enter-round-differs-from-position", fmt.Sprintf("EnterRound called for %d/%d while the state machine's recorded position is %d/%d", e.h, e.r, m.smH, m.smR))
				}
				if m.haveEnter && !m.afterStartEnter() {
					if !lexLess([2]uint64{m.lastEnterH, uint64(m.lastEnterR)}, [2]uint64{e.h, uint64(e.r)}) {
						o.violate("C08", "rounds-not-increasing", fmt.Sprintf("EnterRound %d/%d after %d/%d", e.h, e.r, m.lastEnterH, m.lastEnterR))
					}
				} else if m.haveEnter {
					if lexLess([2]uint64{e.h, uint64(e.r)}, [2]uint64{m.lastEnterH, uint64(m.lastEnterR)}) {
						o.violate("C08", "round-regressed-after-restart", fmt.Sprintf("after a restart EnterRound %d/%d, before it %d/%d", e.h, e.r, m.lastEnterH, m.lastEnterR))
					}
				}
				m.lastEnterH, m.lastEnterR, m.haveEnter = e.h, e.r, true
				m.curH, m.curR = e.h, e.r
				m.afterStart = false
				if c.rv.Height != e.h || len(c.rv.ValidatorSet.Validators) == 0 {
					o.violate("C08", "enter-round-view-mismatch", "EnterRound round view does not describe the entered round")
				} else if !c.rv.ValidatorSet.Equal(w.VS(e.h)) {
					o.violate("C07", "strategy-shown-wrong-validator-set", fmt.Sprintf("EnterRound at %d/%d shows validator set %s, chain prescribes %s", e.h, e.r, valsetString(c.rv.ValidatorSet), valsetString(w.VS(e.h))))
				}
				continue
			}
			rm := m.rd(m.curH, m.curR)
			if e.h != m.curH || e.r != m.curR {
				o.violate("C08", "strategy-call-for-other-round:"+e.a, fmt.Sprintf("%s call attributed to %d/%d while in %d/%d", e.a, e.h, e.r, m.curH, m.curR))
			}
			switch e.a {
			case "consider", "choose":
				if e.a == "choose" {
					rm.chooseCalls++
					if rm.chooseCalls > 1 {
						o.violate("C08", "choose-called-twice", fmt.Sprintf("ChooseProposedBlock called %d times in %d/%d", rm.chooseCalls, m.curH, m.curR))
					}
				}
				// The call may have been queued behind the one that chose the prevote; only a call made after the
				// prevote was already signed shows the machine asking again.
				if rm.prevoteAnswer != nil && rm.prevoteSigned {
					o.violate("C08", e.a+"-after-prevote-chosen", fmt.Sprintf("%s called in %d/%d after the strategy already chose its prevote", e.a, m.curH, m.curR))
				}
				for _, ph := range c.phs {
					if rm.shown == nil {
						rm.shown = map[string]bool{}
					}
					rm.shown[string(ph.Header.Hash)] = true
					if ph.Header.Height != m.curH || ph.Round != m.curR {
						o.violate("C08", "proposal-of-other-round-shown", fmt.Sprintf("%s in %d/%d was shown a proposed header for %d/%d", e.a, m.curH, m.curR, ph.Header.Height, ph.Round))
					}
					if !ph.Header.ValidatorSet.Equal(w.VS(m.curH)) || !ph.Header.NextValidatorSet.Equal(w.VS(m.curH+1)) {
						o.violate("C07", "proposal-with-foreign-set-shown-to-strategy", fmt.Sprintf("%s in %d/%d was shown header %s whose validator sets differ from the chain's", e.a, m.curH, m.curR, h8(ph.Header.Hash)))
					}
				}
			case "decide":
				rm.decideCalls++
				if rm.decideCalls > 1 {
					o.violate("C08", "decide-called-twice", fmt.Sprintf("DecidePrecommit called %d times in %d/%d", rm.decideCalls, m.curH, m.curR))
				}
			}
		case "release":
			rm := m.rd(e.h, e.r)
			switch e.a {
			case "enter":
				rm.enterReleased = true
			case "consider", "choose":
				if e.x == "<nil>" {
					h := e.hash
					rm.prevoteAnswer = &h
				}
			case "decide":
				if e.x == "<nil>" {
					h := e.hash
					rm.precommitAnswer = &h
				}
			}
		case "sign":
			m.signed++
			k := fmt.Sprintf("%s|%d|%d", e.a, e.h, e.r)
			if m.contents[k] == nil {
				m.contents[k] = map[string]bool{}
			}
			if m.diedUnrecorded(m.pos, e) {
				// The process stopped between producing this signature and the attempt to record it: the signature
				// died with the process, unrecorded and unreleased (no order of sign and record can avoid that window).
				o.res.Count("signatures_lost_with_the_process_before_recording", 1)
			} else if !m.contents[k][e.x] {
				m.contents[k][e.x] = true
				m.signLife[k] = append(m.signLife[k], m.life)
			}
			if w.idxOf(e.h, n.keyIdx) < 0 {
				o.violate("C07", "signed-while-not-in-validator-set", fmt.Sprintf("signed a %s at height %d although its key is not in that height's validator set", e.a, e.h))
			}
			if e.h != m.curH || e.r != m.curR {
				o.violate("C08", "vote-for-other-round:"+e.a, fmt.Sprintf("signed a %s for %d/%d while in %d/%d", e.a, e.h, e.r, m.curH, m.curR))
			}
			rm := m.rd(e.h, e.r)
			switch e.a {
			case "prevote":
				if rm.prevoteSigned {
					o.violate("C08", "second-prevote-in-round", fmt.Sprintf("the state machine acted on a second prevote choice in %d/%d (it signed a prevote again in the same round and process lifetime)", e.h, e.r))
				}
				rm.prevoteSigned = true
				if rm.prevoteAnswer == nil || *rm.prevoteAnswer != e.hash {
					o.violate("C08", "prevote-target-not-chosen-by-strategy", fmt.Sprintf("prevote for %s in %d/%d does not match the strategy's answer", h8([]byte(e.hash)), e.h, e.r))
				}
			case "precommit":
				if rm.precommitSigned {
					o.violate("C08", "second-precommit-in-round", fmt.Sprintf("the state machine acted on a second precommit decision in %d/%d", e.h, e.r))
				}
				rm.precommitSigned = true
				if rm.precommitAnswer == nil || *rm.precommitAnswer != e.hash {
					o.violate("C08", "precommit-target-not-chosen-by-strategy", fmt.Sprintf("precommit for %s in %d/%d does not match the strategy's answer", h8([]byte(e.hash)), e.h, e.r))
				}
			case "proposal":
				if hd, ok := w.hdrs[fmt.Sprintf("N:%d", e.h)]; ok {
					if !hd.ValidatorSet.Equal(w.VS(e.h)) {
						o.violate("C07", "proposed-with-wrong-validator-set", fmt.Sprintf("own proposal at %d carries validator set %s, the driver's finalization of %d gave %s", e.h, valsetString(hd.ValidatorSet), int64(e.h)-2, valsetString(w.VS(e.h))))
					}
					if !hd.NextValidatorSet.Equal(w.VS(e.h + 1)) {
						o.violate("C07", "proposed-with-wrong-next-validator-set", fmt.Sprintf("own proposal at %d carries next validator set %s, the driver's finalization of %d gave %s", e.h, valsetString(hd.NextValidatorSet), int64(e.h)-1, valsetString(w.VS(e.h+1))))
					}
				}
			}
		case "fstore":
			if e.x != "<nil>" {
				o.violate("C10", "finalization-store-write-refused", fmt.Sprintf("SaveFinalization(%d) failed: %s", e.h, e.x))
			}
			if m.finSaved[e.h] && e.x == "<nil>" {
				o.violate("C10", "finalization-overwritten", fmt.Sprintf("the finalization of height %d was stored a second time", e.h))
			}
			if e.x == "<nil>" {
				if prev, ok := m.finReq[e.h]; ok && prev != e.hash {
					o.violate("C08", "finalization-saved-for-other-block", fmt.Sprintf("finalization stored at %d for %s, requested %s", e.h, h8([]byte(e.hash)), h8([]byte(prev))))
				}
				m.finSaved[e.h] = true
			}
		case "fin-req":
			m.rd(e.h, e.r).finRequested = true
			m.finReq[e.h] = e.hash
			// C08(1): only after a precommit majority for exactly this block in this round was deliverable, or the header is already committed.
			pow := m.deliveredPower(e.h, func(k dkey) bool { return k.kind == 'c' && k.r == e.r && k.target == e.hash })
			committed := false
			if ch, err := n.st.hs.LoadCommittedHeader(context.Background(), e.h); err == nil && string(ch.Header.Hash) == e.hash {
				committed = true
			}
			if e.hash == "" || (pow < majority(w.total(e.h)) && !committed) {
				o.violate("C08", "finalize-without-precommit-majority", fmt.Sprintf("driver asked to finalize %s at %d/%d; delivered precommits for it hold %d < %d and it is not a committed header", h8([]byte(e.hash)), e.h, e.r, pow, majority(w.total(e.h))))
			}
			if e.h != m.smH {
				o.violate("C08", "finalize-for-other-height", fmt.Sprintf("driver asked to finalize height %d while the state machine is at %d/%d", e.h, m.smH, m.smR))
			}
		case "timer-start":
			// C06: a delay timeout starts only when distinct validators holding a majority are present.
			if e.a == "prevote-delay" || e.a == "precommit-delay" {
				kind := byte('p')
				if e.a == "precommit-delay" {
					kind = 'c'
				}
				pow := m.deliveredPower(e.h, func(k dkey) bool { return k.kind == kind && k.r == e.r })
				o.res.Count("delay_timer_starts_checked", 1)
				if pow < majority(w.total(e.h)) {
					o.violate("C06", "delay-timer-started-by-sub-majority:"+e.a, fmt.Sprintf("%s timer of %d/%d started although the distinct validators present hold only %d < %d", e.a, e.h, e.r, pow, majority(w.total(e.h))))
				}
			}
		case "timer-cancel":
			// C12: a delay timer is cancelled only on the way out of its step.
			if e.a == "prevote-delay" || e.a == "precommit-delay" {
				m.cancelled = append(m.cancelled, cancelledTimer{kind: e.a, h: e.h, r: e.r, pos: m.pos, step: e.step})
			}
		case "timer-fire":
			rm := m.rd(e.h, e.r)
			if e.a == "prevote-delay" {
				rm.prevoteDelayFired = true
			}
			if e.a == "precommit-delay" {
				rm.precommitDelayFired = true
			}
		}
	}
	m.quiescent()
}

func (m *nodeMonitor) afterStartEnter() bool { return m.afterStart }

// entrance: the state machine moves to (h,r).
func (m *nodeMonitor) entrance(h uint64, r uint32, viaStore bool) {
	o, w := m.o, m.n.w
	if m.entered {
		ph, pr := m.smH, m.smR
		switch {
		case h == ph+1 && r == 0:
			if !m.finSaved[ph] {
				o.violate("C08", "next-height-before-finalization-stored", fmt.Sprintf("entered %d/0 before the finalization of height %d was stored", h, ph))
			}
		case h == ph && r > pr:
			total := w.total(h)
			nilQ := m.deliveredPower(h, func(k dkey) bool { return k.kind == 'c' && k.r == pr && k.target == "" })
			allPC := m.deliveredPower(h, func(k dkey) bool { return k.kind == 'c' && k.r == pr })
			later := m.deliveredPower(h, func(k dkey) bool { return k.r > pr })
			rm := m.rd(ph, pr)
			if !(nilQ >= majority(total) || allPC == total || rm.precommitDelayFired || later >= minority(total) || o.s.replayJump) {
				o.violate("C08", "round-left-without-reason", fmt.Sprintf("left round %d/%d for %d/%d: nil precommits %d (<%d), precommit presence %d/%d, precommit delay not fired, later-round votes %d (<%d)", ph, pr, h, r, nilQ, majority(total), allPC, total, later, minority(total)))
			}
		default:
			o.violate("C08", "position-not-forward", fmt.Sprintf("state machine position went %d/%d -> %d/%d", ph, pr, h, r))
		}
	} else if m.haveEnter || m.smH > 0 {
		// First entrance of a new process lifetime: not behind the previous lifetime's position.
		if lexLess([2]uint64{h, uint64(r)}, [2]uint64{m.smH, uint64(m.smR)}) {
			o.violate("C10", "state-machine-position-regressed-on-restart", fmt.Sprintf("restarted state machine entered %d/%d, it had reached %d/%d", h, r, m.smH, m.smR))
		}
	}
	m.smH, m.smR, m.entered = h, r, true
	m.catchingUp = true
	_ = viaStore
}

// actionRecordsKept: every vote the local validator signed stays recorded in the action store (C02: the record is what
// protects against a second signature after a restart).
func (m *nodeMonitor) actionRecordsKept() {
	n, o := m.n, m.o
	if !o.on["C02"] {
		return
	}
	for _, e := range n.trace {
		if e.kind != "astore" || e.x != "<nil>" || (e.a != "prevote" && e.a != "precommit") {
			continue
		}
		ra, err := n.st.as.LoadActions(context.Background(), e.h, e.r)
		ok := err == nil
		if ok && e.a == "prevote" {
			ok = ra.PrevoteSignature != "" && ra.PrevoteTarget == e.hash
		}
		if ok && e.a == "precommit" {
			ok = ra.PrecommitSignature != "" && ra.PrecommitTarget == e.hash
		}
		if !ok {
			o.violate("C02", "recorded-vote-lost-from-action-store:"+e.a, fmt.Sprintf("the %s for %d/%d target %s was saved to the action store at step %d but the store no longer holds it", e.a, e.h, e.r, h8([]byte(e.hash)), e.step))
		}
	}
}

// quiescent evaluates C12(a) and the liveness half of C08(4) at a quiescent point.
func (m *nodeMonitor) quiescent() {
	n, o, w := m.n, m.o, m.n.w
	m.actionRecordsKept()
	if !n.up() {
		return
	}
	alive, idle := m.kernelAlive()
	if !alive {
		return // a state machine whose kernel has returned waits in no step; reported under C09 by the liveness probe
	}
	if !idle {
		o.res.Count("quiescent_points_with_state_machine_inside_a_handler", 1)
		return
	}
	ts := n.outstandingTimers()
	o.res.Count("quiescent_points_monitored", 1)
	{
		// (Also between two passes of the controlled select: the cancel and the way out happen in one handler call.)
		// A cancelled prevote-delay / precommit-delay timer: the machine must be on its way out of that step - the
		// precommit decision requested, a finalization requested, another timer of the round started, or the round left.
		keep := m.cancelled[:0]
		for _, ct := range m.cancelled {
			justified := false
			for _, e := range n.trace[ct.pos+1:] {
				switch {
				case e.kind == "call" && e.a == "decide" && e.h == ct.h && e.r == ct.r && ct.kind == "prevote-delay":
					justified = true
				case e.kind == "fin-req" && e.h == ct.h:
					justified = true
				case e.kind == "timer-start" && e.h == ct.h && e.r == ct.r:
					justified = true
				case e.kind == "smstore" || e.kind == "start" || (e.kind == "call" && e.a == "enter"):
					justified = true
				}
			}
			if justified {
				continue
			}
			if m.smH == ct.h && m.smR == ct.r {
				o.violate("C12", "delay-timer-cancelled-while-still-waiting:"+ct.kind, fmt.Sprintf("step %d: the %s timer of %d/%d was cancelled before it fired, and the state machine neither asked for its precommit decision, nor asked to finalize, nor started another timer, nor left the round: it waits in a timed step without a timer", ct.step, ct.kind, ct.h, ct.r))
				continue
			}
			keep = append(keep, ct)
		}
		m.cancelled = keep
	}
	if len(ts) > 1 {
		var d []string
		for _, t := range ts {
			d = append(d, fmt.Sprintf("%s@%d/%d", t.kind, t.h, t.r))
		}
		o.violate("C12", "two-timers-outstanding", "more than one step timer outstanding: "+strings.Join(d, ", "))
	}
	for _, t := range ts {
		if t.h != m.smH || t.r != m.smR {
			o.violate("C12", "timer-of-other-round-outstanding:"+t.kind, fmt.Sprintf("%s timer of %d/%d still armed while the state machine is at %d/%d", t.kind, t.h, t.r, m.smH, m.smR))
			continue
		}
		rm := m.rd(t.h, t.r)
		switch t.kind {
		case "proposal":
			if !m.partial && (rm.prevoteSigned || rm.prevoteAnswer != nil || rm.chooseCalls > 0) {
				o.violate("C12", "proposal-timer-armed-after-prevote", fmt.Sprintf("proposal timer of %d/%d still armed although the prevote was already chosen or requested", t.h, t.r))
			}
		case "commit-wait":
			if !rm.finRequested && m.deliveredPower(t.h, func(k dkey) bool { return k.kind == 'c' && k.r == t.r }) < majority(w.total(t.h)) {
				o.violate("C12", "commit-wait-timer-without-commit", fmt.Sprintf("commit-wait timer of %d/%d armed without a commit in sight", t.h, t.r))
			}
		}
	}
	if n.pending != nil || !m.entered || m.catchingUp || m.curH != m.smH || m.curR != m.smR {
		return
	}
	rm := m.rd(m.curH, m.curR)
	if !rm.enterReleased {
		return
	}
	h, r := m.curH, m.curR
	total := w.total(h)
	// What the mirror can have shown the state machine: its current view of this round.
	sn := o.prevSnap
	var view *tmconsensus.VersionedRoundView
	if sn.ok && sn.voting.Height == h && sn.voting.Round == r {
		view = &sn.voting
	} else if sn.ok && sn.committing.Height == h && sn.committing.Round == r {
		view = &sn.committing
	}
	if view == nil {
		return
	}
	vals := w.VS(h).Validators
	presence := func(proofs map[string]gcrypto.CommonMessageSignatureProof) (totalPow uint64, maxSingle uint64) {
		var union, bs bitset.BitSet
		for _, p := range proofs {
			p.SignatureBitSet(&bs)
			union.InPlaceUnion(&bs)
			if pw := powerOf(vals, &bs); pw > maxSingle {
				maxSingle = pw
			}
		}
		return powerOf(vals, &union), maxSingle
	}
	pvTotal, pvSingle := presence(view.PrevoteProofs)
	pcTotal, pcSingle := presence(view.PrecommitProofs)
	// Awaiting a proposal (nothing voted, no thresholds reached) => proposal timer armed.
	if !rm.prevoteSigned && rm.prevoteAnswer == nil && rm.chooseCalls == 0 && rm.decideCalls == 0 && !rm.finRequested &&
		pvTotal < majority(total) && pcTotal < minority(total) {
		armed := false
		for _, t := range ts {
			if t.kind == "proposal" && t.h == h && t.r == r {
				armed = true
			}
		}
		if m.partial {
			// Between two passes an elapsed signal may be waiting to be consumed: that timer still is the armed one.
			for _, t := range n.timers {
				if t.kind == "proposal" && t.h == h && t.r == r && t.fired && !t.cancelled {
					armed = true
				}
			}
		}
		// ... and every proposal of this round that carries the chain's validator sets has been put before the strategy:
		// a state machine that works with another set than the driver returned drops exactly those.
		if !m.partial && w.idxOf(h, n.keyIdx) >= 0 {
			for _, ph := range view.ProposedHeaders {
				if ph.ProposerPubKey != nil && ph.ProposerPubKey.Equal(n.pubKey()) {
					continue
				}
				if ph.Round == r && ph.Header.ValidatorSet.Equal(w.VS(h)) && ph.Header.NextValidatorSet.Equal(w.VS(h+1)) && !rm.shown[string(ph.Header.Hash)] {
					o.violate("C07", "chain-proposal-withheld-from-strategy", fmt.Sprintf("the state machine awaits a proposal in %d/%d, the mirror's view of the round holds proposed header %s with the validator sets the chain prescribes, but the strategy was never asked to consider it", h, r, h8(ph.Header.Hash)))
				}
			}
		}
		if !armed {
			o.violate("C12", "no-proposal-timer-while-awaiting-proposal", fmt.Sprintf("state machine waits for a proposal in %d/%d (no vote chosen, prevote presence %d, precommit presence %d of %d) without an armed proposal timer", h, r, pvTotal, pcTotal, total))
		}
	}
	if m.partial {
		return
	}
	// Commit wait is a timed step: once the state machine has asked the driver to finalize (and is not catching up on
	// committed headers) a commit-wait timer of this height must have been started - it may be outstanding, have fired,
	// or have been cancelled because the mirror signalled that the height is committed, but it cannot never have existed.
	if rm.finRequested {
		ever := false
		for _, t := range n.timers {
			if t.kind == "commit-wait" && t.h == h {
				ever = true
			}
		}
		if !ever {
			o.violate("C12", "commit-wait-without-timer", fmt.Sprintf("the state machine asked to finalize %d/%d and waits in commit wait, but no commit-wait timer was ever started for height %d", h, r, h))
		}
	}
	// The round is undecided and a precommit decision is due => DecidePrecommit was asked.
	decided := pcSingle >= majority(total) || pcTotal == total
	if !decided && rm.decideCalls == 0 && !rm.finRequested {
		single := pvSingle >= majority(total)
		if single || rm.prevoteDelayFired || pcTotal >= minority(total) {
			trigger := "minority-precommits"
			if single {
				trigger = "prevote-quorum"
			} else if rm.prevoteDelayFired {
				trigger = "prevote-delay-fired"
			}
			phase := "before-own-prevote"
			if rm.prevoteAnswer != nil || rm.chooseCalls > 0 {
				phase = "after-own-prevote"
			}
			o.violate("C08", "precommit-decision-not-requested:"+trigger+":"+phase, fmt.Sprintf(
				"in %d/%d a precommit decision is due (single-block prevote quorum=%v, prevote delay fired=%v, precommit presence %d>=%d in the mirror's view) but DecidePrecommit was never called", h, r, single, rm.prevoteDelayFired, pcTotal, minority(total)))
		}
	}
}

// kernelAlive reports whether the state machine kernel goroutine exists and whether it rests in its main select
// (idle). A kernel that is inside an event handler - in this harness: blocked in one of the 100 ms guarded sends to
// the consensus manager while the fake clock stands still - is in the middle of a transition, not at a point where
// "the step it waits in" is defined.
func (m *nodeMonitor) kernelAlive() (alive, idle bool) {
	buf := make([]byte, 1<<19)
	buf = buf[:runtime.Stack(buf, true)]
	for _, g := range strings.Split(string(buf), "\n\n") {
		if !strings.Contains(g, "tmstate.(*StateMachine).kernel(") {
			continue
		}
		alive, idle = true, true
		for _, line := range strings.Split(g, "\n") {
			if i := strings.Index(line, "tmstate.(*StateMachine)."); i >= 0 {
				fn := line[i+len("tmstate.(*StateMachine)."):]
				if j := strings.IndexByte(fn, '('); j >= 0 {
					fn = fn[:j]
				}
				if fn != "kernel" && fn != "handleLiveEvent" && fn != "handleCatchupEvent" {
					idle = false
				}
			}
		}
	}
	return
}

// final: the engine's kernels must still be running (a kernel that returned silently has stopped serving).
func (m *nodeMonitor) final() {
	n, o := m.n, m.o
	m.doubleSigns()
	if !n.up() {
		return
	}
	buf := make([]byte, 1<<20)
	buf = buf[:runtime.Stack(buf, true)]
	st := string(buf)
	o.res.Count("liveness_probes", 1)
	lifetime := "first-lifetime"
	if n.restarts > 0 {
		lifetime = "after-restart"
	}
	if !strings.Contains(st, "tmstate.(*StateMachine).kernel(") {
		why := "unknown-cause"
		if n.lastErr != "" {
			why = n.lastErr
			if len(why) > 60 {
				why = why[:60]
			}
		}
		for i := len(n.trace) - 1; i >= 0 && i > len(n.trace)-12; i-- {
			if n.trace[i].kind == "astore" && strings.Contains(n.trace[i].x, "double action") {
				why = "double-action-error-from-action-store"
			}
		}
		o.violate("C09", "state-machine-kernel-exited:"+lifetime+":"+why, fmt.Sprintf("the engine is up but the state machine kernel goroutine has returned (state machine position %d/%d)", m.smH, m.smR))
	}
	if n.bare == nil && !strings.Contains(st, "tmi.(*Kernel).mainLoop(") {
		o.violate("C09", "mirror-kernel-exited:"+lifetime, "the engine is up but the mirror kernel goroutine has returned")
	}
	if !strings.Contains(st, "tsi.(*ConsensusManager).kernel(") {
		o.violate("C09", "consensus-manager-exited:"+lifetime, "the engine is up but the consensus manager goroutine has returned")
	}
}

func atoi(s string) int {
	n := 0
	for _, c := range s {
		n = n*10 + int(c-'0')
	}
	return n
}

// doubleSigns (C02): the key signed more than one distinct content for one kind/height/round. The signature names
// whether the contents were signed in different process lifetimes and whether a content other than the recorded one
// reached the mirror (the round-store wrapper saw it persisted).
// diedUnrecorded: after the sign event at pos, the same process lifetime made no attempt to record that signature
// (no action-store call for that kind/height/round) before it ended in a stop that the trace shows as a new start.
func (m *nodeMonitor) diedUnrecorded(pos int, e tev) bool {
	tr := m.n.trace
	for i := pos + 1; i < len(tr); i++ {
		t := tr[i]
		if t.kind == "astore" && t.a == e.a && t.h == e.h && t.r == e.r {
			return false
		}
		if t.kind == "start" {
			return true
		}
	}
	return false // still the same lifetime: the record attempt may yet come
}

func (m *nodeMonitor) doubleSigns() {
	n, o := m.n, m.o
	keys := make([]string, 0, len(m.contents))
	for k := range m.contents {
		keys = append(keys, k)
	}
	sort.Strings(keys)
	for _, k := range keys {
		if len(m.contents[k]) < 2 {
			continue
		}
		parts := strings.Split(k, "|")
		sig := "double-sign:" + parts[0]
		lives := map[int]bool{}
		for _, l := range m.signLife[k] {
			lives[l] = true
		}
		if len(lives) == len(m.signLife[k]) {
			sig += ":one-per-process-lifetime"
		}
		kind := "p"
		if parts[0] == "precommit" {
			kind = "c"
		}
		if parts[0] == "prevote" || parts[0] == "precommit" {
			if n.wrapKeys[kind+"|"+parts[1]+"|"+parts[2]] {
				sig += ":unrecorded-one-released"
			} else {
				sig += ":only-the-recorded-one-released"
			}
		}
		o.violate("C02", sig, fmt.Sprintf("the local validator signed %d different %s contents for %s/%s (process lifetimes of the signatures: %v)", len(m.contents[k]), parts[0], parts[1], parts[2], m.signLife[k]))
	}
}
