//go:build verif

package hmirror

import (
	"context"
	"errors"
	"fmt"
	"io"
	"log/slog"
	"os"
	"runtime"
	"strings"
	"testing/synctest"

	"github.com/gordian-engine/gordian/gassert/gasserttest"
	"github.com/gordian-engine/gordian/gcrypto"
	"github.com/gordian-engine/gordian/gwatchdog"
	"github.com/gordian-engine/gordian/internal/gchan"
	"github.com/gordian-engine/gordian/tm/tmconsensus"
	"github.com/gordian-engine/gordian/tm/tmengine/internal/tmeil"
	"github.com/gordian-engine/gordian/tm/tmengine/internal/tmmirror"
	"github.com/gordian-engine/gordian/tm/tmengine/tmelink"
	"github.com/gordian-engine/gordian/tm/tmstore"
	"github.com/gordian-engine/gordian/tm/tmstore/tmmemstore"
)

const maxHandlerPoints = 4000

var discardLog = func() *slog.Logger {
	if os.Getenv("VERIF_LOG") != "" {
		return slog.New(slog.NewTextHandler(os.Stderr, &slog.HandlerOptions{Level: slog.LevelWarn}))
	}
	return slog.New(slog.NewTextHandler(io.Discard, nil))
}()

// ---- controlled map iteration order of the mirror (harness/tools/rangexform) ----

// mapDesc: the mirror's rewritten map ranges iterate in descending key order (MAPREV event toggles it); ascending
// otherwise. Either is an order Go's map iteration may produce; fixing it removes one source of nondeterminism and
// the toggle explores the other extreme.
var mapDesc bool

func init() {
	tmmirror.VerifSetMapOrderHookAll(func(site string) bool { return mapDesc })
}

// ---- fault-injecting store wrappers (E-FLT) ----

// faults is shared by all store wrappers of one node: one global sequence of mutating calls.
type faults struct {
	writes   int      // mutating calls let through so far
	freezeAt int      // freeze after this many writes in total (-1: never)
	frozen   bool     // every later write is dropped
	log      []string // names of the writes let through
	onFreeze func()
}

var errFrozen = errors.New("verif: process stopped (store frozen)")

// allow is called before a mutating call; false means the process is considered dead.
// The process is considered dead from the first refused write on: the goroutine attempting it ends there
// (runtime.Goexit, its deferred functions run), as it would with the process; it does not get a store error to handle -
// a stopped process handles nothing. The harness then stops what is left of the node and restarts it.
func (f *faults) allow(name string) bool {
	if f.frozen {
		runtime.Goexit()
	}
	if f.freezeAt >= 0 && f.writes >= f.freezeAt {
		f.frozen = true
		if f.onFreeze != nil {
			f.onFreeze()
		}
		runtime.Goexit()
	}
	f.writes++
	f.log = append(f.log, name)
	return true
}

type fMirrorStore struct {
	tmstore.MirrorStore
	f *faults
}

func (s fMirrorStore) SetNetworkHeightRound(ctx context.Context, vh uint64, vr uint32, ch uint64, cr uint32) error {
	if !s.f.allow(fmt.Sprintf("SetNHR(%d/%d,%d/%d)", vh, vr, ch, cr)) {
		return errFrozen
	}
	return s.MirrorStore.SetNetworkHeightRound(ctx, vh, vr, ch, cr)
}

type fHeaderStore struct {
	tmstore.CommittedHeaderStore
	f *faults
}

func (s fHeaderStore) SaveCommittedHeader(ctx context.Context, ch tmconsensus.CommittedHeader) error {
	if !s.f.allow(fmt.Sprintf("SaveCommittedHeader(%d)", ch.Header.Height)) {
		return errFrozen
	}
	return s.CommittedHeaderStore.SaveCommittedHeader(ctx, ch)
}

type fRoundStore struct {
	tmstore.RoundStore
	f *faults
}

func (s fRoundStore) SaveRoundProposedHeader(ctx context.Context, ph tmconsensus.ProposedHeader) error {
	if !s.f.allow(fmt.Sprintf("SaveRoundPH(%d/%d)", ph.Header.Height, ph.Round)) {
		return errFrozen
	}
	return s.RoundStore.SaveRoundProposedHeader(ctx, ph)
}

func (s fRoundStore) SaveRoundReplayedHeader(ctx context.Context, h tmconsensus.Header) error {
	if !s.f.allow(fmt.Sprintf("SaveRoundReplayed(%d)", h.Height)) {
		return errFrozen
	}
	return s.RoundStore.SaveRoundReplayedHeader(ctx, h)
}

func (s fRoundStore) OverwriteRoundPrevoteProofs(ctx context.Context, h uint64, r uint32, p tmconsensus.SparseSignatureCollection) error {
	if !s.f.allow(fmt.Sprintf("OverwritePrevotes(%d/%d)", h, r)) {
		return errFrozen
	}
	return s.RoundStore.OverwriteRoundPrevoteProofs(ctx, h, r, p)
}

func (s fRoundStore) OverwriteRoundPrecommitProofs(ctx context.Context, h uint64, r uint32, p tmconsensus.SparseSignatureCollection) error {
	if !s.f.allow(fmt.Sprintf("OverwritePrecommits(%d/%d)", h, r)) {
		return errFrozen
	}
	return s.RoundStore.OverwriteRoundPrecommitProofs(ctx, h, r, p)
}

type fValidatorStore struct {
	tmstore.ValidatorStore
	f *faults
}

func (s fValidatorStore) SavePubKeys(ctx context.Context, k []gcrypto.PubKey) (string, error) {
	// Validator store writes are content-addressed and idempotent; they are not crash points of interest
	// but still must not happen after the freeze.
	if s.f.frozen {
		return "", errFrozen
	}
	return s.ValidatorStore.SavePubKeys(ctx, k)
}

func (s fValidatorStore) SaveVotePowers(ctx context.Context, p []uint64) (string, error) {
	if s.f.frozen {
		return "", errFrozen
	}
	return s.ValidatorStore.SaveVotePowers(ctx, p)
}

// ---- the system under test and its environment ----

type stores struct {
	ms *tmmemstore.MirrorStore
	hs *tmmemstore.CommittedHeaderStore
	rs *tmmemstore.RoundStore
	vs *tmmemstore.ValidatorStore
	f  *faults
}

type sys struct {
	// resend delivers the network message of the last event once more, unchanged
	resend func() string
	// cancelAt > 0: the next handler call's context is cancelled at that kernel round-trip point (CANCEL event)
	cancelAt int
	// destination views of VotingView/CommittingView polls, reused across polls
	pollV, pollC tmconsensus.VersionedRoundView
	w  *world
	st *stores

	ctx    context.Context
	cancel context.CancelFunc
	m      *tmmirror.Mirror
	// eng is set in engine mode: the system under test is a whole engine (node.go) instead of a bare mirror.
	eng *node

	gso   chan tmelink.NetworkViewUpdate
	lso   chan tmelink.LagState
	smOut chan tmeil.StateMachineRoundView
	smIn  chan tmeil.StateMachineRoundEntrance
	rhr   chan tmelink.ReplayedHeaderRequest
	fReq  chan tmelink.ProposedHeaderFetchRequest
	fOut  chan tmconsensus.ProposedHeader

	startErr string // NewMirror failed (error or recovered panic)

	// State machine peer.
	sm smPeer

	stallG, stallS bool

	// Logs of what the consumers received, for the C11 monitors.
	gLog []tmelink.NetworkViewUpdate
	sLog []smRecv

	fetchReqs []string // block hashes the kernel asked to fetch

	step    int
	results []string // result of each event
	blocked string   // a handler call that did not return

	// Commit events observed so far (C01), in order.
	commits []commitEvent

	restarts int
	recrash  int // >=0: arm a second crash at the next restart
	// Replays the kernel accepted: the height must then be committed with a certificate the node holds.
	replayAccepted []commitEvent

	badJump, badJumpSig string
	deferCalls          bool
	deferred   []func(ctx context.Context) string

	curEvent string
	gSeg      []int // process lifetime (restart count) in which each gossip update was received
	roundEnds []roundEnd
	// Valid signatures handed to the node so far: (kind,h,r,target) -> validator indices.
	delivered map[dkey]map[int]bool
	// A replay for a later round was applied in the current step.
	replayJump bool
}

type roundEnd struct {
	h         uint64
	r         uint32
	seg       int
	nilQuorum bool
}

type dkey struct {
	kind   byte
	h      uint64
	r      uint32
	target string
}

func (s *sys) noteDelivered(kind byte, h uint64, r uint32, target string, idx int) {
	if s.delivered == nil {
		s.delivered = map[dkey]map[int]bool{}
	}
	k := dkey{kind, h, r, target}
	if s.delivered[k] == nil {
		s.delivered[k] = map[int]bool{}
	}
	s.delivered[k][idx] = true
}

type smPeer struct {
	entered bool
	h       uint64
	r       uint32
	actions chan tmeil.StateMachineRoundAction
	hc      chan struct{}
	acted   map[string]bool // "ph","pv","pc" already sent this round
	// Knowledge from views, deciding which entrances a real state machine could make.
	sawCommit  bool // majority precommit for a block in (h,r), or a committed header for h
	sawNilAdv  bool // nil quorum, or >= majority precommit power present (delay timer could fire), or 100% present
	jumpTo     uint32
	sawJump    bool
	everEntered bool
}

type smRecv struct {
	step int
	h    uint64
	r    uint32 // the SM's round when it received this
	v    tmeil.StateMachineRoundView
	resp *tmeil.RoundEntranceResponse
}

type commitEvent struct {
	step   int
	via    string // "store", "committing-view", "sm-entrance", "sm-view", "replay"
	h      uint64
	hash   string
	round  uint32
	sigs   []gcrypto.SparseSignature
	pkhash string
}

func newStores(w *world) *stores {
	return &stores{
		ms: tmmemstore.NewMirrorStore(),
		hs: tmmemstore.NewCommittedHeaderStore(),
		rs: tmmemstore.NewRoundStore(),
		vs: tmmemstore.NewValidatorStore(w.hs),
		f:  &faults{freezeAt: -1},
	}
}

func newSys(w *world) *sys {
	s := &sys{w: w, st: newStores(w), recrash: -1}
	s.start()
	return s
}

// start builds a mirror on s.st (fresh channels every time).
func (s *sys) start() {
	s.ctx, s.cancel = context.WithCancel(context.Background())
	s.gso = make(chan tmelink.NetworkViewUpdate)
	s.lso = make(chan tmelink.LagState)
	s.smOut = make(chan tmeil.StateMachineRoundView)
	s.smIn = make(chan tmeil.StateMachineRoundEntrance, 1)
	s.rhr = make(chan tmelink.ReplayedHeaderRequest)
	s.fReq = make(chan tmelink.ProposedHeaderFetchRequest, 8)
	s.fOut = make(chan tmconsensus.ProposedHeader)
	s.sm = smPeer{h: s.sm.h, r: s.sm.r, everEntered: s.sm.everEntered}
	s.startErr = ""

	wd, wctx := gwatchdog.NewNopWatchdog(s.ctx, discardLog)
	_ = wd
	cfg := tmmirror.MirrorConfig{
		Store:                fMirrorStore{s.st.ms, s.st.f},
		CommittedHeaderStore: fHeaderStore{s.st.hs, s.st.f},
		RoundStore:           fRoundStore{s.st.rs, s.st.f},
		ValidatorStore:       fValidatorStore{s.st.vs, s.st.f},

		InitialHeight:       initialH,
		InitialValidatorSet: s.w.VS(initialH),

		HashScheme:                        s.w.hs,
		SignatureScheme:                   s.w.ss,
		CommonMessageSignatureProofScheme: s.w.cs,

		ProposedHeaderFetcher: tmelink.ProposedHeaderFetcher{
			FetchRequests:          s.fReq,
			FetchedProposedHeaders: s.fOut,
		},

		ReplayedHeadersIn: s.rhr,
		GossipStrategyOut: s.gso,
		LagStateOut:       s.lso,

		StateMachineRoundEntranceIn: s.smIn,
		StateMachineRoundViewOut:    s.smOut,

		Watchdog:  wd,
		AssertEnv: gasserttest.DefaultEnv(),
	}
	func() {
		defer func() {
			if r := recover(); r != nil {
				s.startErr = fmt.Sprintf("panic: %v", r)
			}
		}()
		m, err := tmmirror.NewMirror(wctx, discardLog, cfg)
		if err != nil {
			s.startErr = "error: " + err.Error()
			return
		}
		s.m = m
	}()
	synctest.Wait()
}

// stop cancels the node and waits for its goroutines.
func (s *sys) stop() {
	s.cancel()
	synctest.Wait()
	if s.m != nil && s.startErr == "" {
		s.m.Wait()
	}
	s.m = nil
}

func (s *sys) alive() bool {
	if s.eng != nil {
		return s.eng.up()
	}
	return s.m != nil
}

func (s *sys) handler() tmconsensus.FineGrainedConsensusHandler {
	if s.eng != nil {
		return s.eng.e
	}
	return s.m
}

func runtimeGoexit() { runtime.Goexit() }

// call runs f (a Handle* call) on its own goroutine and reports whether it returned.
func (s *sys) call(name string, f func(ctx context.Context) string) string {
	if s.deferCalls {
		// Concurrency harness: the call is made later by a scheduled thread.
		s.deferred = append(s.deferred, f)
		return "DEFERRED"
	}
	if s.eng != nil {
		s.eng.step = s.step
		r := s.eng.call(name, f)
		if r == "LIVELOCK" || r == "BLOCKED" {
			s.blocked = s.eng.blocked
		}
		return r
	}
	if s.m == nil {
		return "node-down"
	}
	done := false
	var res string
	// Livelock detection without a clock: every kernel round trip of a handler passes a gchan hook point;
	// a call that makes more than maxHandlerPoints of them without returning is spinning.
	points := 0
	spinning := ""
	base := s.ctx
	cancelAt := 0
	if strings.HasPrefix(name, "Handle") {
		cancelAt, s.cancelAt = s.cancelAt, 0
	}
	var cancelCaller context.CancelFunc
	if cancelAt > 0 {
		// The caller gives up (its per-message context is cancelled, e.g. a p2p validation timeout) when its
		// handler reaches its cancelAt-th kernel round-trip point.
		base, cancelCaller = context.WithCancel(s.ctx)
		defer cancelCaller()
	}
	ctx := gchan.WithVerifHook(base, func(op, label string) {
		points++
		if points == cancelAt {
			cancelCaller()
		}
		if points > maxHandlerPoints {
			spinning = label
			runtime.Goexit()
		}
	})
	go func() {
		res = f(ctx)
		done = true
	}()
	synctest.Wait()
	if spinning != "" {
		if s.blocked == "" {
			s.blocked = fmt.Sprintf("step %d: %s made more than %d kernel round trips without returning (last: %s)", s.step, name, maxHandlerPoints, spinning)
		}
		return "LIVELOCK"
	}
	if !done {
		if s.blocked == "" {
			s.blocked = fmt.Sprintf("step %d: %s did not return", s.step, name)
		}
		return "BLOCKED"
	}
	return res
}

// drain performs the consumers' reads (unless stalled) until nothing is pending.
func (s *sys) drain(force bool) {
	if s.eng != nil {
		n := s.eng
		n.step = s.step
		n.drain()
		for len(s.gLog) < len(n.gLog) {
			u := n.gLog[len(s.gLog)]
			s.gSeg = append(s.gSeg, n.gSeg[len(s.gLog)])
			s.gLog = append(s.gLog, u)
			if u.Voting != nil {
				n.lastVoting = u.Voting.Clone()
			}
			if u.Committing != nil {
				n.lastCommitting = u.Committing.Clone()
			}
		}
		return
	}
	for i := 0; i < 64; i++ {
		any := false
		select {
		case <-s.lso:
			any = true
		default:
		}
		for {
			select {
			case req := <-s.fReq:
				s.fetchReqs = append(s.fetchReqs, req.BlockHash)
				any = true
				continue
			default:
			}
			break
		}
		if force || !s.stallG {
			if s.readG() {
				any = true
			}
		}
		if force || !s.stallS {
			if s.readS() {
				any = true
			}
		}
		if !any {
			return
		}
		synctest.Wait()
	}
}

func (s *sys) readG() bool {
	select {
	case u := <-s.gso:
		s.gLog = append(s.gLog, u)
		s.gSeg = append(s.gSeg, s.restarts)
		return true
	default:
		return false
	}
}

func (s *sys) readS() bool {
	select {
	case v := <-s.smOut:
		s.sLog = append(s.sLog, smRecv{step: s.step, h: s.sm.h, r: s.sm.r, v: v})
		if j := v.JumpAheadRoundView; j != nil && s.sm.entered {
			// The real state machine panics (BUG) on a jump-ahead that does not move it forward within its height.
			if j.Height != s.sm.h {
				s.badJump = fmt.Sprintf("height-mismatch: state machine in %d/%d was sent a jump-ahead to %d/%d", s.sm.h, s.sm.r, j.Height, j.Round)
				s.badJumpSig = "height-mismatch"
			} else if j.Round <= s.sm.r {
				s.badJump = fmt.Sprintf("round-not-greater: state machine in %d/%d was sent a jump-ahead to %d/%d", s.sm.h, s.sm.r, j.Height, j.Round)
				s.badJumpSig = "round-not-greater"
			}
		}
		s.smLearn(v.VRV, v.JumpAheadRoundView, v.CH)
		return true
	default:
		return false
	}
}

// smLearn updates what the state machine peer knows, which decides the entrances a real state machine could make.
func (s *sys) smLearn(vrv tmconsensus.VersionedRoundView, jump *tmconsensus.VersionedRoundView, ch *tmconsensus.CommittedHeader) {
	if ch != nil && ch.Header.Height == s.sm.h {
		s.sm.sawCommit = true
	}
	if jump != nil && jump.Height == s.sm.h && jump.Round > s.sm.r {
		s.sm.sawJump = true
		s.sm.jumpTo = jump.Round
	}
	if vrv.Height == s.sm.h && vrv.Round == s.sm.r {
		vs := vrv.VoteSummary
		if vs.AvailablePower > 0 {
			maj := majority(vs.AvailablePower)
			for hash, pow := range vs.PrecommitBlockPower {
				if pow >= maj {
					if hash == "" {
						s.sm.sawNilAdv = true
					} else {
						// A real state machine can only finalize (and then leave the height) when it also has the header.
						for _, ph := range vrv.ProposedHeaders {
							if string(ph.Header.Hash) == hash {
								s.sm.sawCommit = true
							}
						}
					}
				}
			}
			if vs.TotalPrecommitPower >= maj {
				// The precommit delay timer may run and elapse.
				s.sm.sawNilAdv = true
			}
		}
	}
}

// enter sends a round entrance for (h,r) and records the response.
func (s *sys) enter(h uint64, r uint32) string {
	if s.m == nil {
		return "node-down"
	}
	var pk gcrypto.PubKey
	acts := make(chan tmeil.StateMachineRoundAction, 3)
	vs := s.w.VS(h)
	pk = vs.Validators[localIdx].PubKey
	re := tmeil.StateMachineRoundEntrance{
		H: h, R: r,
		PubKey:          pk,
		Actions:         acts,
		HeightCommitted: nil,
		Response:        make(chan tmeil.RoundEntranceResponse, 1),
	}
	hc := make(chan struct{})
	re.HeightCommitted = hc
	select {
	case s.smIn <- re:
	default:
		return "entrance-channel-full"
	}
	s.sm = smPeer{entered: true, everEntered: true, h: h, r: r, actions: acts, hc: hc, acted: map[string]bool{}}
	synctest.Wait()
	select {
	case resp := <-re.Response:
		s.sLog = append(s.sLog, smRecv{step: s.step, h: h, r: r, resp: &resp})
		if resp.IsCH() {
			s.smLearn(tmconsensus.VersionedRoundView{}, nil, &resp.CH)
			s.commits = append(s.commits, commitEvent{step: s.step, via: "sm-entrance", h: resp.CH.Header.Height,
				hash: string(resp.CH.Header.Hash), round: resp.CH.Proof.Round, sigs: resp.CH.Proof.Proofs[string(resp.CH.Header.Hash)], pkhash: resp.CH.Proof.PubKeyHash})
			return "entered:CH"
		}
		s.smLearn(resp.VRV, nil, nil)
		return fmt.Sprintf("entered:VRV(%d/%d v%d)", resp.VRV.Height, resp.VRV.Round, resp.VRV.Version)
	default:
		return "entered:no-response"
	}
}

func gchanPoint(ctx context.Context, name string) { gchan.VerifPoint(ctx, name) }
