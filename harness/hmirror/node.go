//go:build verif

package hmirror

import (
	"context"
	"fmt"
	"log/slog"
	"os"
	"strings"
	"testing/synctest"
	"time"

	"github.com/gordian-engine/gordian/gassert/gasserttest"
	"github.com/gordian-engine/gordian/gcrypto"
	"github.com/gordian-engine/gordian/gwatchdog"
	"github.com/gordian-engine/gordian/internal/gchan"
	"github.com/gordian-engine/gordian/tm/tmconsensus"
	"github.com/gordian-engine/gordian/tm/tmdriver"
	"github.com/gordian-engine/gordian/tm/tmengine"
	"github.com/gordian-engine/gordian/tm/tmengine/internal/tmstate"
	"github.com/gordian-engine/gordian/tm/tmengine/tmelink"
	"github.com/gordian-engine/gordian/tm/tmstore"
	"github.com/gordian-engine/gordian/tm/tmstore/tmmemstore"
)

// node is a complete real engine (tmengine.New: mirror + state machine + consensus manager) whose
// whole environment is played by the harness: network peers, consensus strategy (every call blocks until
// released), round timer, driver, gossip strategy (a recorder the harness drains), stores with fault injection.

// tev is one entry of the node's trace, in the order things happened.
type tev struct {
	kind string // "call", "release", "sign", "astore", "fstore", "smstore", "timer-start", "timer-cancel", "timer-fire", "fin-req", "fin-resp", "start", "rstore"
	a    string // sub kind: enter/consider/choose/decide, prevote/precommit/proposal, proposal/prevote-delay/...
	h    uint64
	r    uint32
	hash string
	step int
	x    string // extra
}

type stratCall struct {
	kind string // enter, consider, choose, decide
	h    uint64
	r    uint32
	rv   tmconsensus.RoundView
	phs  []tmconsensus.ProposedHeader
	vs   tmconsensus.VoteSummary
	out  chan<- tmconsensus.Proposal
	resp chan stratAnswer
}

type stratAnswer struct {
	hash string
	err  error
}

type hTimer struct {
	kind      string
	h         uint64
	r         uint32
	ch        chan struct{}
	cancelled bool
	fired     bool
}

type nodeStores struct {
	stores
	as *tmmemstore.ActionStore
	fs *tmmemstore.FinalizationStore
	ss *tmmemstore.StateMachineStore
}

type node struct {
	w      *world
	keyIdx int // index of this node's key in the key pool
	name   string
	st     *nodeStores

	ctx    context.Context
	cancel context.CancelFunc
	e      *tmengine.Engine
	bare   *bareEnv // set: the state machine alone, the harness plays the mirror (smbare.go)

	// Controlled main select of the engine's state machine (single-engine harness only; the hooks are package
	// globals): the kernel is held at the entry of its main select and released pass by pass by drain, so that it
	// consumes simultaneously ready inputs in a fixed (natural) order instead of an order Go picks at random.
	gateSM     bool
	gate       chan struct{}
	atGate     bool
	lastPicked int
	smPasses   int
	batch      int // events still to be applied before the held kernel is released (BATCH event)
	pref       int // select case polled first in the next pass (-1: natural order)

	proposalsSent int
	startErr string

	initCh chan tmdriver.InitChainRequest
	finCh  chan tmdriver.FinalizeBlockRequest
	bda    chan tmelink.BlockDataArrival
	rhr    chan tmelink.ReplayedHeaderRequest
	gsCh   <-chan tmelink.NetworkViewUpdate

	pendingFin []tmdriver.FinalizeBlockRequest
	pending    *stratCall
	timers     []*hTimer

	gLog []tmelink.NetworkViewUpdate
	gSeg []int

	lastVoting, lastCommitting tmconsensus.VersionedRoundView
	lastVotingNet              tmconsensus.VersionedRoundView

	// auto, when set, answers strategy calls at once (network harness) instead of blocking them.
	auto    *lockStrategy
	autoFin bool

	trace []tev
	calls []*stratCall
	step  int
	sys   *sys

	curH uint64 // round of the last EnterRound call
	curR uint32

	restarts  int
	lastErr   string // last error-level (or quitting) message the engine logged
	blocked   string
	delivered map[dkey]map[int]bool
	replayJump bool

	// violations found inside wrappers (store ordering), drained by the oracles
	wrapViol []string
	wrapViolPH []string
	ownPHSigs  map[string]bool // signatures of the proposed headers this node's own signer produced
	wrapKeys map[string]bool // kind|h|r of own votes the mirror persisted that the action store does not hold

	// outgoing messages seen in gossip views, for the network harness
	results []string
	curEvent string
}

func (n *node) t(kind, a string, h uint64, r uint32, hash, x string) {
	n.trace = append(n.trace, tev{kind: kind, a: a, h: h, r: r, hash: hash, step: n.step, x: x})
}

func (n *node) pubKey() gcrypto.PubKey { return n.w.keys[n.keyIdx].Val.PubKey }

// ---- consensus strategy: every call blocks until the harness releases it ----

type hStrategy struct{ n *node }

func (s hStrategy) wait(ctx context.Context, c *stratCall) stratAnswer {
	n := s.n
	if n.auto != nil {
		n.calls = append(n.calls, c)
		n.t("call", c.kind, c.h, c.r, "", fmt.Sprint(len(n.calls)-1))
		a := n.auto.answer(n, c)
		n.t("release", c.kind, c.h, c.r, a.hash, fmt.Sprint(a.err))
		return a
	}
	c.resp = make(chan stratAnswer)
	n.pending = c
	n.calls = append(n.calls, c)
	n.t("call", c.kind, c.h, c.r, "", fmt.Sprint(len(n.calls)-1))
	select {
	case a := <-c.resp:
		return a
	case <-ctx.Done():
		if n.pending == c {
			n.pending = nil
		}
		return stratAnswer{err: ctx.Err()}
	}
}

func (s hStrategy) EnterRound(ctx context.Context, rv tmconsensus.RoundView, out chan<- tmconsensus.Proposal) error {
	s.n.curH, s.n.curR = rv.Height, rv.Round
	return s.wait(ctx, &stratCall{kind: "enter", h: rv.Height, r: rv.Round, rv: rv, out: out}).err
}

func (s hStrategy) ConsiderProposedBlocks(ctx context.Context, phs []tmconsensus.ProposedHeader, _ tmconsensus.ConsiderProposedBlocksReason) (string, error) {
	a := s.wait(ctx, &stratCall{kind: "consider", h: s.n.curH, r: s.n.curR, phs: phs})
	return a.hash, a.err
}

func (s hStrategy) ChooseProposedBlock(ctx context.Context, phs []tmconsensus.ProposedHeader) (string, error) {
	a := s.wait(ctx, &stratCall{kind: "choose", h: s.n.curH, r: s.n.curR, phs: phs})
	return a.hash, a.err
}

func (s hStrategy) DecidePrecommit(ctx context.Context, vs tmconsensus.VoteSummary) (string, error) {
	a := s.wait(ctx, &stratCall{kind: "decide", h: s.n.curH, r: s.n.curR, vs: vs})
	return a.hash, a.err
}

// ---- round timer ----

type hRoundTimer struct{ n *node }

func (rt hRoundTimer) start(kind string, h uint64, r uint32) (<-chan struct{}, func()) {
	n := rt.n
	t := &hTimer{kind: kind, h: h, r: r, ch: make(chan struct{})}
	n.timers = append(n.timers, t)
	n.t("timer-start", kind, h, r, "", "")
	return t.ch, func() {
		if !t.cancelled && !t.fired {
			t.cancelled = true
			n.t("timer-cancel", kind, h, r, "", "")
		}
	}
}

func (rt hRoundTimer) ProposalTimer(_ context.Context, h uint64, r uint32) (<-chan struct{}, func()) {
	return rt.start("proposal", h, r)
}
func (rt hRoundTimer) PrevoteDelayTimer(_ context.Context, h uint64, r uint32) (<-chan struct{}, func()) {
	return rt.start("prevote-delay", h, r)
}
func (rt hRoundTimer) PrecommitDelayTimer(_ context.Context, h uint64, r uint32) (<-chan struct{}, func()) {
	return rt.start("precommit-delay", h, r)
}
func (rt hRoundTimer) CommitWaitTimer(_ context.Context, h uint64, r uint32) (<-chan struct{}, func()) {
	return rt.start("commit-wait", h, r)
}

func (n *node) outstandingTimers() []*hTimer {
	var out []*hTimer
	for _, t := range n.timers {
		if !t.cancelled && !t.fired {
			out = append(out, t)
		}
	}
	return out
}

// ---- gossip strategy: a recorder ----

type hGossip struct{ n *node }

func (g hGossip) Start(ch <-chan tmelink.NetworkViewUpdate) { g.n.gsCh = ch }
func (g hGossip) Wait()                                      {}

// ---- signer ----

type hSigner struct {
	n     *node
	inner tmconsensus.PassthroughSigner
}

func (s hSigner) Prevote(ctx context.Context, vt tmconsensus.VoteTarget) ([]byte, []byte, error) {
	c, sig, err := s.inner.Prevote(ctx, vt)
	s.n.t("sign", "prevote", vt.Height, vt.Round, vt.BlockHash, string(c))
	if idx := s.n.w.idxOf(vt.Height, s.n.keyIdx); idx >= 0 && s.n.sys != nil {
		s.n.sys.noteDelivered('p', vt.Height, vt.Round, vt.BlockHash, idx)
	}
	return c, sig, err
}

func (s hSigner) Precommit(ctx context.Context, vt tmconsensus.VoteTarget) ([]byte, []byte, error) {
	c, sig, err := s.inner.Precommit(ctx, vt)
	s.n.t("sign", "precommit", vt.Height, vt.Round, vt.BlockHash, string(c))
	if idx := s.n.w.idxOf(vt.Height, s.n.keyIdx); idx >= 0 {
		s.n.w.noteHonestPrecommit(vt.Height, vt.Round, vt.BlockHash, idx)
		if s.n.sys != nil {
			s.n.sys.noteDelivered('c', vt.Height, vt.Round, vt.BlockHash, idx)
		}
	}
	return c, sig, err
}

func (s hSigner) SignProposedHeader(ctx context.Context, ph *tmconsensus.ProposedHeader) error {
	err := s.inner.SignProposedHeader(ctx, ph)
	b, _ := tmconsensus.ProposalSignBytes(ph.Header, ph.Round, ph.Annotations, s.n.w.ss)
	s.n.t("sign", "proposal", ph.Header.Height, ph.Round, string(ph.Header.Hash), string(b))
	if err == nil {
		if s.n.ownPHSigs == nil {
			s.n.ownPHSigs = map[string]bool{}
		}
		s.n.ownPHSigs[string(ph.Signature)] = true
	}
	// The node's own block becomes known to the world as block "N".
	s.n.w.hdrs[fmt.Sprintf("N:%d", ph.Header.Height)] = ph.Header
	return err
}

func (s hSigner) PubKey() gcrypto.PubKey { return s.inner.PubKey() }

// ---- state machine side store wrappers ----

type fActionStore struct {
	tmstore.ActionStore
	n *node
}

func (s fActionStore) SaveProposedHeaderAction(ctx context.Context, ph tmconsensus.ProposedHeader) error {
	if !s.n.st.f.allow(fmt.Sprintf("SavePHAction(%d/%d)", ph.Header.Height, ph.Round)) {
		return errFrozen
	}
	err := s.ActionStore.SaveProposedHeaderAction(ctx, ph)
	s.n.t("astore", "proposal", ph.Header.Height, ph.Round, string(ph.Header.Hash), fmt.Sprint(err))
	return err
}

func (s fActionStore) SavePrevoteAction(ctx context.Context, pk gcrypto.PubKey, vt tmconsensus.VoteTarget, sig []byte) error {
	if !s.n.st.f.allow(fmt.Sprintf("SavePrevoteAction(%d/%d)", vt.Height, vt.Round)) {
		return errFrozen
	}
	err := s.ActionStore.SavePrevoteAction(ctx, pk, vt, sig)
	s.n.t("astore", "prevote", vt.Height, vt.Round, vt.BlockHash, fmt.Sprint(err))
	return err
}

func (s fActionStore) SavePrecommitAction(ctx context.Context, pk gcrypto.PubKey, vt tmconsensus.VoteTarget, sig []byte) error {
	if !s.n.st.f.allow(fmt.Sprintf("SavePrecommitAction(%d/%d)", vt.Height, vt.Round)) {
		return errFrozen
	}
	err := s.ActionStore.SavePrecommitAction(ctx, pk, vt, sig)
	s.n.t("astore", "precommit", vt.Height, vt.Round, vt.BlockHash, fmt.Sprint(err))
	return err
}

type fFinStore struct {
	tmstore.FinalizationStore
	n *node
}

func (s fFinStore) SaveFinalization(ctx context.Context, h uint64, r uint32, blockHash string, vs tmconsensus.ValidatorSet, appHash string) error {
	if !s.n.st.f.allow(fmt.Sprintf("SaveFinalization(%d)", h)) {
		return errFrozen
	}
	err := s.FinalizationStore.SaveFinalization(ctx, h, r, blockHash, vs, appHash)
	s.n.t("fstore", "", h, r, blockHash, fmt.Sprint(err))
	return err
}

type fSMStore struct {
	tmstore.StateMachineStore
	n *node
}

func (s fSMStore) SetStateMachineHeightRound(ctx context.Context, h uint64, r uint32) error {
	if !s.n.st.f.allow(fmt.Sprintf("SetSMHeightRound(%d/%d)", h, r)) {
		return errFrozen
	}
	s.n.t("smstore", "", h, r, "", "")
	return s.StateMachineStore.SetStateMachineHeightRound(ctx, h, r)
}

// nRoundStore additionally checks, at the instant the mirror persists votes, that any signature by this
// node's key it contains was saved to the action store before (C02: recorded before released).
type nRoundStore struct {
	fRoundStore
	n *node
}

func (s nRoundStore) checkOwn(kind byte, h uint64, r uint32, p tmconsensus.SparseSignatureCollection) {
	n := s.n
	idx := n.w.idxOf(h, n.keyIdx)
	if idx < 0 {
		return
	}
	for target, sigs := range p.BlockSignatures {
		for _, sg := range sigs {
			if len(sg.KeyID) != 2 || int(sg.KeyID[0])<<8|int(sg.KeyID[1]) != idx {
				continue
			}
			ra, err := n.st.as.LoadActions(context.Background(), h, r)
			found := false
			if err == nil {
				if kind == 'p' && ra.PrevoteTarget == target && string(ra.PrevoteSignature) == string(sg.Sig) {
					found = true
				}
				if kind == 'c' && ra.PrecommitTarget == target && string(ra.PrecommitSignature) == string(sg.Sig) {
					found = true
				}
			}
			if !found {
				// Only the node's own state machine may have produced it; votes injected by the harness under this
				// validator's index do not occur in the engine harness.
				if n.wrapKeys == nil {
					n.wrapKeys = map[string]bool{}
				}
				n.wrapKeys[fmt.Sprintf("%c|%d|%d", kind, h, r)] = true
				n.wrapViol = append(n.wrapViol, fmt.Sprintf("the mirror persisted this validator's %c vote for %d/%d target %s which is not in the action store", kind, h, r, h8([]byte(target))))
			}
		}
	}
}

// SaveRoundProposedHeader: a proposed header signed by this node's key that the mirror persists (i.e. that was
// released to the mirror) must already be recorded in the action store. Evaluated at the instant of the call,
// whether or not the write itself is let through (crash points).
func (s nRoundStore) SaveRoundProposedHeader(ctx context.Context, ph tmconsensus.ProposedHeader) error {
	n := s.n
	// Only proposals this node's own signer produced (the network may deliver a proposal made out in this validator's
	// name at a height where the harness plays its part).
	if n.ownPHSigs[string(ph.Signature)] && len(ph.Signature) > 0 {
		ra, err := n.st.as.LoadActions(context.Background(), ph.Header.Height, ph.Round)
		if err != nil || string(ra.ProposedHeader.Signature) != string(ph.Signature) {
			n.wrapViolPH = append(n.wrapViolPH, fmt.Sprintf("the mirror was handed (and persists) this validator's proposed header %s for %d/%d which is not in the action store", h8(ph.Header.Hash), ph.Header.Height, ph.Round))
		}
	}
	return s.fRoundStore.SaveRoundProposedHeader(ctx, ph)
}

func (s nRoundStore) OverwriteRoundPrevoteProofs(ctx context.Context, h uint64, r uint32, p tmconsensus.SparseSignatureCollection) error {
	s.checkOwn('p', h, r, p)
	return s.fRoundStore.OverwriteRoundPrevoteProofs(ctx, h, r, p)
}

func (s nRoundStore) OverwriteRoundPrecommitProofs(ctx context.Context, h uint64, r uint32, p tmconsensus.SparseSignatureCollection) error {
	s.checkOwn('c', h, r, p)
	return s.fRoundStore.OverwriteRoundPrecommitProofs(ctx, h, r, p)
}

// capLog records the last messages the engine logged, to name the cause when a kernel returns silently.
type capLog struct {
	n *node
}

func (h capLog) Enabled(_ context.Context, l slog.Level) bool { return l >= slog.LevelInfo }
func (h capLog) Handle(_ context.Context, r slog.Record) error {
	sys := ""
	r.Attrs(func(a slog.Attr) bool {
		if a.Key == "e_sys" {
			sys = a.Value.String()
		}
		return true
	})
	if r.Level >= slog.LevelError || strings.Contains(r.Message, "quitting") || strings.Contains(r.Message, "Quitting") {
		h.n.lastErr = r.Message
	}
	if os.Getenv("VERIF_LOG") != "" {
		fmt.Fprintf(os.Stderr, "LOG %s %s %s\n", r.Level, sys, r.Message)
	}
	return nil
}
func (h capLog) WithAttrs([]slog.Attr) slog.Handler { return h }
func (h capLog) WithGroup(string) slog.Handler       { return h }

// ---- construction ----

func newNodeStores(w *world) *nodeStores {
	return &nodeStores{
		stores: *newStores(w),
		as:     tmmemstore.NewActionStore(),
		fs:     tmmemstore.NewFinalizationStore(),
		ss:     tmmemstore.NewStateMachineStore(),
	}
}

func newNode(w *world, keyIdx int, name string) *node {
	n := &node{w: w, keyIdx: keyIdx, name: name}
	n.st = newNodeStores(w)
	n.start()
	return n
}

func (n *node) start() {
	n.ctx, n.cancel = context.WithCancel(context.Background())
	n.initCh = make(chan tmdriver.InitChainRequest, 1)
	n.finCh = make(chan tmdriver.FinalizeBlockRequest, 4)
	n.bda = make(chan tmelink.BlockDataArrival, 4)
	n.rhr = make(chan tmelink.ReplayedHeaderRequest)
	n.pending = nil
	n.pendingFin = nil
	n.timers = nil
	n.startErr = ""
	n.t("start", "", 0, 0, "", "")
	if n.bare != nil {
		n.startBare()
		return
	}

	w := n.w
	if n.gateSM && tmstate.VerifSelectCountStatemachine > 0 {
		n.gate = make(chan struct{})
		n.atGate = false
		n.pref = -1
		ctx := n.ctx
		tmstate.VerifSetSelectHooks(func(name string, cases int) []int {
			if !strings.HasPrefix(name, "handleLiveEvent") {
				return nil
			}
			n.atGate = true
			select {
			case <-n.gate:
			case <-ctx.Done():
			}
			n.atGate = false
			order := make([]int, 0, cases)
			if n.pref >= 0 && n.pref < cases {
				order = append(order, n.pref)
			}
			for i := 0; i < cases; i++ {
				if i != n.pref {
					order = append(order, i)
				}
			}
			n.pref = -1
			return order
		}, func(name string, i int) {
			if strings.HasPrefix(name, "handleLiveEvent") {
				n.lastPicked = i
			}
		}, func(name string) bool {
			return strings.HasPrefix(name, "handleLiveEvent") && ctx.Err() == nil
		})
	} else {
		n.gateSM = false
	}
	wd, wctx := gwatchdog.NewNopWatchdog(n.ctx, discardLog)
	signer := hSigner{n: n, inner: tmconsensus.PassthroughSigner{Signer: w.keys[n.keyIdx].Signer, SignatureScheme: w.ss}}
	opts := []tmengine.Opt{
		tmengine.WithGenesis(&tmconsensus.ExternalGenesis{
			ChainID:             "verif-chain",
			InitialHeight:       initialH,
			InitialAppState:     strings.NewReader(""),
			GenesisValidatorSet: w.VS(initialH),
		}),
		tmengine.WithHashScheme(w.hs),
		tmengine.WithSignatureScheme(w.ss),
		tmengine.WithCommonMessageSignatureProofScheme(w.cs),
		tmengine.WithSigner(signer),
		tmengine.WithActionStore(fActionStore{n.st.as, n}),
		tmengine.WithFinalizationStore(fFinStore{n.st.fs, n}),
		tmengine.WithStateMachineStore(fSMStore{n.st.ss, n}),
		tmengine.WithMirrorStore(fMirrorStore{n.st.ms, n.st.f}),
		tmengine.WithCommittedHeaderStore(fHeaderStore{n.st.hs, n.st.f}),
		tmengine.WithRoundStore(nRoundStore{fRoundStore{n.st.rs, n.st.f}, n}),
		tmengine.WithValidatorStore(fValidatorStore{n.st.vs, n.st.f}),
		tmengine.WithConsensusStrategy(hStrategy{n}),
		tmengine.WithGossipStrategy(hGossip{n}),
		tmengine.WithInternalRoundTimer(hRoundTimer{n}),
		tmengine.WithInitChainChannel(n.initCh),
		tmengine.WithBlockFinalizationChannel(n.finCh),
		tmengine.WithBlockDataArrivalChannel(n.bda),
		tmengine.WithReplayedHeaderRequestChannel(n.rhr),
		tmengine.WithWatchdog(wd),
		tmengine.WithAssertEnv(gasserttest.DefaultEnv()),
	}
	// tmengine.New blocks on the init chain request on a fresh chain: run it on its own goroutine and play the driver.
	done := false
	go func() {
		defer func() {
			if r := recover(); r != nil {
				n.startErr = fmt.Sprintf("panic: %v", r)
			}
			done = true
		}()
		e, err := tmengine.New(wctx, slog.New(capLog{n}), opts...)
		if err != nil {
			n.startErr = "error: " + err.Error()
			return
		}
		n.e = e
	}()
	synctest.Wait()
	select {
	case req, ok := <-n.initCh:
		// On a restart the engine closes the init chain channel instead of sending a request.
		if ok {
			req.Resp <- tmdriver.InitChainResponse{AppStateHash: []byte("app-0")}
			synctest.Wait()
		}
	default:
	}
	if !done && n.startErr == "" {
		n.startErr = "tmengine.New did not return"
	}
}

func (n *node) stop() {
	if n.bare != nil {
		n.stopBare()
		return
	}
	n.cancel()
	synctest.Wait()
	if n.e != nil && n.startErr == "" {
		n.e.Wait()
	}
	n.e = nil
	if n.gate != nil {
		tmstate.VerifSetSelectHooks(nil, nil, nil)
		n.gate = nil
	}
}

// pumpSM releases the gated state machine kernel pass by pass until a pass finds no input ready or the kernel
// waits elsewhere; it reports whether any pass consumed an input.
func (n *node) pumpSM() bool {
	if n.gate == nil || n.batch > 0 {
		return false
	}
	progressed := false
	for i := 0; i < 64; i++ {
		synctest.Wait()
		if !n.atGate {
			return progressed
		}
		n.lastPicked = -1
		select {
		case n.gate <- struct{}{}:
		default:
			return progressed
		}
		n.smPasses++
		synctest.Wait()
		if n.lastPicked < 0 {
			return progressed
		}
		progressed = true
	}
	return progressed
}

func (n *node) restart() string {
	n.stop()
	n.st.f.frozen = false
	n.st.f.freezeAt = -1
	n.restarts++
	n.start()
	if n.startErr != "" {
		return "restart-failed:" + n.startErr
	}
	return "restarted"
}

// call runs a Handle* call with livelock detection (see sys.call).
func (n *node) call(name string, f func(ctx context.Context) string) string {
	if n.e == nil {
		return "node-down"
	}
	done := false
	var res string
	points := 0
	spinning := ""
	ctx := gchan.WithVerifHook(n.ctx, func(op, label string) {
		points++
		if points > maxHandlerPoints {
			spinning = label
			runtimeGoexit()
		}
	})
	go func() {
		res = f(ctx)
		done = true
	}()
	synctest.Wait()
	if spinning != "" {
		n.blocked = fmt.Sprintf("step %d: %s made more than %d kernel round trips without returning (last: %s)", n.step, name, maxHandlerPoints, spinning)
		return "LIVELOCK"
	}
	if !done {
		n.blocked = fmt.Sprintf("step %d: %s did not return", n.step, name)
		return "BLOCKED"
	}
	return res
}

// drain reads gossip output and collects finalize requests.
func (n *node) drain() {
	for i := 0; i < 64; i++ {
		any := n.pumpSM()
		if n.gsCh != nil {
			select {
			case u := <-n.gsCh:
				n.gLog = append(n.gLog, u)
				n.gSeg = append(n.gSeg, n.restarts)
				any = true
			default:
			}
		}
		select {
		case req := <-n.finCh:
			n.pendingFin = append(n.pendingFin, req)
			n.t("fin-req", "", req.Header.Height, req.Round, string(req.Header.Hash), "")
			if n.autoFin {
				n.finalize()
			}
			any = true
		default:
		}
		if !any {
			return
		}
		synctest.Wait()
	}
}

// ---- harness-side events specific to the engine ----

// release answers the pending strategy call.
//
//	SR            the default answer (enter: ok; consider/choose: block A if offered, else not-ready/nil; decide: the block holding a prevote majority, else nil)
//	SR:propose    (enter only) ok, and propose a block
//	SR:<A|B|N|nil|notready|X>   answer with that block's hash
func (n *node) release(ans string) string {
	c := n.pending
	if c == nil {
		return "n/a:no-call-pending"
	}
	w := n.w
	var a stratAnswer
	hashOf := func(name string) (string, bool) {
		switch name {
		case "nil":
			return "", true
		case "X":
			return "unknown-block-hash-0123456789abcdef"[:32], true
		}
		if hd, ok := w.hdrs[fmt.Sprintf("%s:%d", name, c.h)]; ok {
			return string(hd.Hash), true
		}
		if name == "A" || name == "B" {
			return string(w.header(name, c.h).Hash), true
		}
		return "", false
	}
	offered := func(hash string) bool {
		for _, ph := range c.phs {
			if string(ph.Header.Hash) == hash {
				return true
			}
		}
		return false
	}
	desc := ""
	switch c.kind {
	case "enter":
		if ans == "propose" {
			select {
			case c.out <- tmconsensus.Proposal{DataID: n.nextProposalData(c.h)}:
				desc = "proposed"
			default:
				desc = "proposal-channel-unavailable"
			}
		}
	case "consider", "choose":
		if ans == "" {
			ha, _ := hashOf("A")
			if offered(ha) {
				a.hash = ha
			} else if hn, ok := hashOf("N"); ok && offered(hn) {
				a.hash = hn
			} else if c.kind == "consider" {
				a.err = tmconsensus.ErrProposedBlockChoiceNotReady
			}
		} else if ans == "notready" {
			if c.kind != "consider" {
				return "n/a:notready-only-for-consider"
			}
			a.err = tmconsensus.ErrProposedBlockChoiceNotReady
		} else {
			h, ok := hashOf(ans)
			if !ok {
				return "n/a:unknown-block"
			}
			if h != "" && !offered(h) {
				// A strategy chooses among what it was offered (or nil).
				return "n/a:block-not-offered"
			}
			a.hash = h
		}
	case "decide":
		if ans == "" {
			maj := majority(c.vs.AvailablePower)
			for hash, pow := range c.vs.PrevoteBlockPower {
				if pow >= maj {
					a.hash = hash
				}
			}
		} else {
			h, ok := hashOf(ans)
			if !ok {
				return "n/a:unknown-block"
			}
			a.hash = h
		}
	}
	n.pending = nil
	n.t("release", c.kind, c.h, c.r, a.hash, fmt.Sprint(a.err))
	c.resp <- a
	return "released:" + c.kind + ":" + h8([]byte(a.hash)) + desc
}

// nextProposalData: every proposal the strategy sends carries other block data (a duplicate answer of the strategy
// is a second, different proposal).
func (n *node) nextProposalData(h uint64) string {
	n.proposalsSent++
	if n.proposalsSent == 1 {
		return fmt.Sprintf("data-N-%d", h)
	}
	return fmt.Sprintf("data-N-%d-%d", h, n.proposalsSent)
}

// lateProposal: the strategy sends a proposal on the channel it was given by the current round's EnterRound,
// at any later moment of the round.
func (n *node) lateProposal() string {
	var c *stratCall
	for i := len(n.calls) - 1; i >= 0; i-- {
		if n.calls[i].kind == "enter" {
			c = n.calls[i]
			break
		}
	}
	if c == nil || c.out == nil || c.h != n.curH || c.r != n.curR {
		return "n/a:no-proposal-channel"
	}
	select {
	case c.out <- tmconsensus.Proposal{DataID: n.nextProposalData(c.h)}:
		return "proposed-late"
	default:
		return "n/a:proposal-channel-full"
	}
}

func (n *node) fireTimer() string {
	ts := n.outstandingTimers()
	if len(ts) == 0 {
		return "n/a:no-timer"
	}
	t := ts[len(ts)-1]
	t.fired = true
	n.t("timer-fire", t.kind, t.h, t.r, "", "")
	close(t.ch)
	return "fired:" + t.kind
}

// finalize answers the oldest pending finalize request; variant "same" returns the current validators.
func (n *node) finalize() string {
	if len(n.pendingFin) == 0 {
		return "n/a:no-request"
	}
	req := n.pendingFin[0]
	n.pendingFin = n.pendingFin[1:]
	h := req.Header.Height
	resp := tmdriver.FinalizeBlockResponse{
		Height: h, Round: req.Round, BlockHash: req.Header.Hash,
		Validators:   n.w.VS(h + 2).Validators,
		AppStateHash: []byte(fmt.Sprintf("app-%d", h)),
	}
	n.t("fin-resp", "", h, req.Round, string(req.Header.Hash), "")
	select {
	case req.Resp <- resp:
		return "finalized"
	default:
		return "response-channel-full"
	}
}

func (n *node) tick(d time.Duration) string {
	time.Sleep(d)
	return "slept"
}
