//go:build verif

package hmirror

import (
	"bytes"
	"context"
	"fmt"
	"strconv"
	"strings"
	"testing/synctest"
	"time"

	"github.com/gordian-engine/gordian/gcrypto"
	"github.com/gordian-engine/gordian/tm/tmconsensus"
	"github.com/gordian-engine/gordian/tm/tmengine/internal/tmeil"
	"github.com/gordian-engine/gordian/tm/tmengine/tmelink"
)

// Event grammar (all positions are relative to the honest network's current height/round w.H/w.R):
//
//	PH:<A|B>[@dh,dr][:variant]              proposed header from the network
//	V:<p|c>:<0..3|h>:<A|B|nil|X>[@dh,dr][:variant]   prevote/precommit message ("h" = validators 0,1,2 together)
//	RP:<variant>                            replayed header + proof
//	FE:<A|B>                                out-of-band fetched proposed header arrives
//	SME                                     state machine (re-)enters its current position (initially 1/0)
//	SMN:h | SMN:r                           state machine enters next height / next round (only if a real one could)
//	SMA:ph | SMA:pv:<A|B|nil> | SMA:pc:<A|nil>   local validator's own action through the actions channel
//	RG | RS | StallG | StallS | ResumeG | ResumeS  consumer reads
//	Restart | Crash:<k>                     restart on the same stores / stop the process after k more store writes, then restart

type pos struct{ dh, dr int }

func parsePos(s string) (string, pos) {
	i := strings.IndexByte(s, '@')
	if i < 0 {
		return s, pos{}
	}
	rest := s[i+1:]
	var p pos
	parts := strings.SplitN(rest, ",", 2)
	p.dh, _ = strconv.Atoi(parts[0])
	if len(parts) > 1 {
		p.dr, _ = strconv.Atoi(parts[1])
	}
	return s[:i], p
}

func (s *sys) resolve(p pos) (h uint64, r uint32, ok bool) {
	hh := int64(s.w.H) + int64(p.dh)
	if hh < 1 {
		return 0, 0, false
	}
	rr := int64(0)
	if p.dh == 0 {
		rr = int64(s.w.R) + int64(p.dr)
	} else if p.dh < 0 {
		// Rounds of an earlier height are relative to the round it committed in.
		rr = int64(s.w.commitRound[uint64(hh)]) + int64(p.dr)
	} else {
		rr = int64(p.dr)
	}
	if rr < 0 {
		return 0, 0, false
	}
	return uint64(hh), uint32(rr), true
}

func (s *sys) targetHash(t string, h uint64) string {
	switch t {
	case "A", "B":
		return string(s.w.header(t, h).Hash)
	case "nil":
		return ""
	default:
		return "unknown-block-hash-0123456789abcdef"[:32]
	}
}

// applied describes what an event did, for the oracles.
type applied struct {
	ev     string
	result string
	// For vote messages: the harness knows that no signature in it is valid for the target it is filed under.
	allInvalid bool
	isNetMsg   bool
}

func (s *sys) apply(ev string) applied {
	a := applied{ev: ev}
	s.curEvent = ev
	s.resend = nil
	s.replayJump = false
	parts := strings.Split(ev, ":")
	switch parts[0] {
	case "PH":
		a.isNetMsg = true
		a.result = s.applyPH(parts[1:])
	case "V":
		a.isNetMsg = true
		a.result, a.allInvalid = s.applyVote(parts[1:])
	case "VZ":
		// A vote message for height 0 (below the initial height): before the first commit the mirror's committing
		// view still is the zero view of height 0 / round 0 with an empty validator set.
		a.isNetMsg = true
		a.allInvalid = true
		w := s.w
		pkh := ""
		if len(parts) > 2 && parts[2] == "pkh" {
			pkh = string(w.VS(initialH).PubKeyHash)
		}
		sg := w.voteSig(parts[1][0], initialH, 0, "", byzIdx)
		proofs := map[string][]gcrypto.SparseSignature{string(w.header("A", initialH).Hash): {sg}}
		if parts[1] == "p" {
			msg := tmconsensus.PrevoteSparseProof{Height: 0, Round: 0, PubKeyHash: pkh, Proofs: proofs}
			a.result = s.call("HandlePrevoteProofs", func(ctx context.Context) string {
				return s.handler().HandlePrevoteProofs(ctx, msg).String()
			})
		} else {
			msg := tmconsensus.PrecommitSparseProof{Height: 0, Round: 0, PubKeyHash: pkh, Proofs: proofs}
			a.result = s.call("HandlePrecommitProofs", func(ctx context.Context) string {
				return s.handler().HandlePrecommitProofs(ctx, msg).String()
			})
		}
	case "MAPREV":
		mapDesc = !mapDesc
		a.result = fmt.Sprintf("descending=%v", mapDesc)
	case "CANCEL":
		k, _ := strconv.Atoi(parts[1])
		s.cancelAt = k
		a.result = "armed"
	case "RP":
		a.result = s.applyReplay(parts[1])
	case "FE":
		a.result = s.applyFetched(parts[1])
	case "SME":
		if s.eng != nil {
			a.result = "n/a:engine-mode"
		} else {
			a.result = s.enter(max(s.sm.h, initialH), s.sm.r)
		}
	case "SR":
		ans := ""
		if len(parts) > 1 {
			ans = parts[1]
		}
		s.eng.step = s.step
		a.result = s.eng.release(ans)
	case "TF":
		s.eng.step = s.step
		a.result = s.eng.fireTimer()
	case "PROP":
		s.eng.step = s.step
		a.result = s.eng.lateProposal()
	case "DR":
		s.eng.step = s.step
		a.result = s.eng.finalize()
	case "Tick":
		a.result = s.eng.tick(150 * time.Millisecond)
	case "BDA":
		select {
		case s.eng.bda <- tmelink.BlockDataArrival{Height: s.eng.curH, Round: s.eng.curR, ID: fmt.Sprintf("data-A-%d", s.eng.curH)}:
			a.result = "sent"
		default:
			a.result = "channel-full"
		}
	case "SMN":
		a.result = s.applySMNext(parts[1])
	case "SMA":
		a.result = s.applySMAction(parts[1:])
	case "RG":
		if s.readG() {
			a.result = "read"
		} else {
			a.result = "nothing"
		}
	case "RS":
		if s.readS() {
			a.result = "read"
		} else {
			a.result = "nothing"
		}
	case "StallG":
		s.stallG = true
	case "StallS":
		s.stallS = true
	case "ResumeG":
		s.stallG = false
	case "ResumeS":
		s.stallS = false
	case "Restart":
		a.result = s.restart()
	case "Crash":
		k, _ := strconv.Atoi(parts[1])
		s.st.f.freezeAt = s.st.f.writes + k
		a.result = "armed"
	case "Settle":
		// The environment answers whatever the engine is waiting for (strategy calls, finalizations) until nothing is pending.
		for i := 0; i < 12 && s.eng != nil; i++ {
			if s.eng.pending != nil {
				s.eng.release("")
			} else if len(s.eng.pendingFin) > 0 {
				s.eng.finalize()
			} else {
				break
			}
			synctest.Wait()
			s.drain(false)
		}
		a.result = "settled"
	case "Recrash":
		// Arms a second crash: it takes effect while the interrupted event is delivered again after the restart.
		k, _ := strconv.Atoi(parts[1])
		s.recrash = k
		a.result = "armed-second"
	default:
		panic("unknown event " + ev)
	}
	synctest.Wait()
	s.results = append(s.results, a.result)
	return a
}

func (s *sys) restart() string {
	if s.eng != nil {
		s.eng.step = s.step
		r := s.eng.restart()
		s.rhr = s.eng.rhr
		s.restarts++
		s.armRecrash()
		return r
	}
	s.stop()
	s.st.f.frozen = false
	s.st.f.freezeAt = -1
	s.restarts++
	s.start()
	s.armRecrash()
	if s.startErr != "" {
		return "restart-failed:" + s.startErr
	}
	return "restarted"
}

// armRecrash arms the second crash of a double-crash history: it hits while the interrupted event is re-delivered.
func (s *sys) armRecrash() {
	if s.recrash >= 0 {
		s.st.f.freezeAt = s.st.f.writes + s.recrash
		s.recrash = -1
	}
}

func flipBit(b []byte) []byte {
	c := bytes.Clone(b)
	if len(c) > 0 {
		c[len(c)/2] ^= 0x10
	}
	return c
}

func (s *sys) applyPH(args []string) string {
	blkPos, p := parsePos(args[0])
	variant := ""
	if len(args) > 1 {
		variant = args[1]
	}
	h, r, ok := s.resolve(p)
	if !ok {
		return "n/a"
	}
	w := s.w
	hd := w.header(blkPos, h)
	proposer := w.proposerIdx(blkPos, r)
	ph := w.proposal(hd, r, proposer)
	switch variant {
	case "":
	case "forgedNext":
		// Same hashes and signature, validator lists replaced: the block hash and sign bytes cover only the hashes.
		f := w.foreignVS()
		ph.Header.NextValidatorSet.Validators = f.Validators
		ph.Header.NextValidatorSet.PubKeys = f.PubKeys
	case "forgedCur":
		f := w.foreignVS()
		ph.Header.ValidatorSet.Validators = f.Validators
		ph.Header.ValidatorSet.PubKeys = f.PubKeys
	case "forgedNextPK", "forgedCurPK":
		// Only the redundant PubKeys list is replaced (same length): Validators, hashes and signature are intact, but
		// PubKeys is the list signature verification uses.
		vs := &ph.Header.NextValidatorSet
		if variant == "forgedCurPK" {
			vs = &ph.Header.ValidatorSet
		}
		f := w.foreignVS()
		pks := make([]gcrypto.PubKey, len(vs.PubKeys))
		for i := range pks {
			pks[i] = f.PubKeys[i%len(f.PubKeys)]
		}
		vs.PubKeys = pks
	case "badhash":
		ph.Header.DataID = []byte("tampered")
	case "nonval":
		ph.Header.DataID = []byte("from-non-validator")
		w.rehash(&ph.Header)
		w.signProposal(&ph, w.keys[nKeysPool].Val.PubKey)
	case "badsig":
		ph.Header.DataID = []byte("bad-signature")
		w.rehash(&ph.Header)
		w.signProposal(&ph, ph.ProposerPubKey)
		ph.Signature = flipBit(ph.Signature)
	case "nokey":
		ph.ProposerPubKey = nil
	case "badpcp", "shortpcp", "foreignpcp", "duppcp", "pcpnil3", "pcponlynil3", "emptypcp", "pcpidN", "pcpidlen1", "prevlinkB":
		pcp := ph.Header.PrevCommitProof.Clone()
		mh := string(ph.Header.PrevBlockHash)
		switch variant {
		case "badpcp":
			if len(pcp.Proofs[mh]) > 0 {
				pcp.Proofs[mh][0].Sig = flipBit(pcp.Proofs[mh][0].Sig)
			}
		case "shortpcp":
			if len(pcp.Proofs[mh]) > 1 {
				pcp.Proofs[mh] = pcp.Proofs[mh][:1]
			}
		case "foreignpcp":
			pcp.PubKeyHash = "not-the-validator-hash"
		case "duppcp":
			// One validator signing both the block and nil.
			if h > initialH {
				pcp.Proofs[""] = []gcrypto.SparseSignature{w.voteSig('c', h-1, pcp.Round, "", 0)}
			}
		case "pcpnil3":
			// Two targets: the block's precommits (which the node normally holds already) and the Byzantine validator's
			// nil precommit of that round (new to the node unless it was sent before).
			if h > initialH {
				pcp.Proofs[""] = []gcrypto.SparseSignature{w.voteSig('c', h-1, pcp.Round, "", byzIdx)}
			}
		case "pcponlynil3":
			// One target only, and it is not the previous block: nothing at all for the block the header builds on.
			if h > initialH {
				pcp.Proofs = map[string][]gcrypto.SparseSignature{"": {w.voteSig('c', h-1, pcp.Round, "", byzIdx)}}
			}
		case "prevlinkB":
			// A header that does not build on the committed block: it names the competing block B of the previous height
			// as its predecessor. Its previous-commit proof holds the genuine certificate for the committed block and
			// the Byzantine validator's single precommit for B.
			if h > initialH {
				bh := w.header("B", h-1).Hash
				pcp.Proofs[string(bh)] = []gcrypto.SparseSignature{w.voteSig('c', h-1, pcp.Round, string(bh), byzIdx)}
				ph.Header.PrevBlockHash = bytes.Clone(bh)
			}
		case "emptypcp":
			pcp.Proofs = map[string][]gcrypto.SparseSignature{}
		case "pcpidN":
			// An extra entry whose key id is exactly one past the last validator.
			if len(pcp.Proofs[mh]) > 0 {
				extra := pcp.Proofs[mh][0]
				extra.KeyID = keyID(nVals)
				pcp.Proofs[mh] = append(pcp.Proofs[mh], extra)
			}
		case "pcpidlen1":
			if len(pcp.Proofs[mh]) > 0 {
				extra := pcp.Proofs[mh][0]
				extra.KeyID = []byte{1}
				pcp.Proofs[mh] = append(pcp.Proofs[mh], extra)
			}
		}
		ph.Header.PrevCommitProof = pcp
		ph.Header.DataID = []byte("pcp-" + variant)
		w.rehash(&ph.Header)
		w.signProposal(&ph, ph.ProposerPubKey)
	default:
		panic("unknown PH variant " + variant)
	}
	// The previous-commit proof inside the header hands the node precommits of the previous height (backfill).
	if h > initialH {
		pcp := ph.Header.PrevCommitProof
		for target, sigs := range pcp.Proofs {
			for _, sg := range sigs {
				if idx, ok := w.verifyVote(w.VS(h-1), 'c', h-1, pcp.Round, target, sg); ok {
					s.noteDelivered('c', h-1, pcp.Round, target, idx)
				}
			}
		}
	}
	send := func() string {
		return s.call("HandleProposedHeader", func(ctx context.Context) string {
			return s.handler().HandleProposedHeader(ctx, ph).String()
		})
	}
	s.resend = send
	return send()
}

func (s *sys) applyVote(args []string) (string, bool) {
	kind := args[0][0]
	who := args[1]
	tgtPos, p := parsePos(args[2])
	variant := ""
	if len(args) > 3 {
		variant = args[3]
	}
	h, r, ok := s.resolve(p)
	if !ok {
		return "n/a", false
	}
	w := s.w
	target := s.targetHash(tgtPos, h)
	var idxs []int
	me := localIdx
	if s.eng != nil {
		me = w.idxOf(h, s.eng.keyIdx)
	}
	var others []int
	for i := 0; i < byzIdx; i++ {
		if i != me {
			others = append(others, i)
		}
	}
	switch who {
	case "h":
		idxs = []int{0, 1, 2}
	case "oh":
		idxs = others
	case "o1":
		idxs = others[:1]
	case "o2":
		idxs = others[1:2]
	case "me":
		if me < 0 {
			return "n/a:not-a-validator", false
		}
		idxs = []int{me}
	default:
		i, _ := strconv.Atoi(who)
		idxs = []int{i}
	}
	// Honest validators never equivocate; corrupted variants do not count as their vote.
	if variant == "" || variant == "mix" || variant == "dupid" || variant == "badpkh" || variant == "andnil3" {
		var may []int
		for _, i := range idxs {
			if w.honestMay(kind, h, r, i, target) {
				may = append(may, i)
			}
		}
		if len(may) == 0 {
			return "n/a:honest-validators-do-not-equivocate", false
		}
		idxs = may
	}
	var sigs []gcrypto.SparseSignature
	for _, i := range idxs {
		sigs = append(sigs, w.voteSig(kind, h, r, target, i))
	}
	pkh := string(w.VS(h).PubKeyHash)
	allInvalid := false
	other := byte('c')
	if kind == 'c' {
		other = 'p'
	}
	switch variant {
	case "":
	case "flip":
		for i := range sigs {
			sigs[i].Sig = flipBit(sigs[i].Sig)
		}
		allInvalid = true
	case "wrongkey":
		// Signed by the next validator's key but filed under this one's id.
		for i, idx := range idxs {
			sigs[i].Sig = w.voteSig(kind, h, r, target, (idx+1)%nVals).Sig
		}
		allInvalid = true
	case "crosskind":
		for i, idx := range idxs {
			sigs[i].Sig = w.voteSig(other, h, r, target, idx).Sig
		}
		allInvalid = true
	case "otherround":
		for i, idx := range idxs {
			sigs[i].Sig = w.voteSig(kind, h, r+1, target, idx).Sig
		}
		allInvalid = true
	case "othertarget":
		for i, idx := range idxs {
			sigs[i].Sig = w.voteSig(kind, h, r, target+"x", idx).Sig
		}
		allInvalid = true
	case "zerosig":
		for i := range sigs {
			sigs[i].Sig = make([]byte, 64)
		}
		allInvalid = true
	case "emptysig":
		for i := range sigs {
			sigs[i].Sig = nil
		}
		allInvalid = true
	case "idrange":
		for i := range sigs {
			sigs[i].KeyID = keyID(9)
		}
		allInvalid = true
	case "idN":
		// Exactly one past the last validator.
		for i := range sigs {
			sigs[i].KeyID = keyID(nVals)
		}
		allInvalid = true
	case "idmax":
		for i := range sigs {
			sigs[i].KeyID = []byte{0xff, 0xff}
		}
		allInvalid = true
	case "idlen0":
		for i := range sigs {
			sigs[i].KeyID = nil
		}
		allInvalid = true
	case "idlen1":
		for i := range sigs {
			sigs[i].KeyID = []byte{0}
		}
		allInvalid = true
	case "idlen3":
		for i := range sigs {
			sigs[i].KeyID = []byte{0, 0, 1}
		}
		allInvalid = true
	case "badpkh":
		pkh = "some-other-validator-set"
	case "oldset":
		// A vote made out against the PREVIOUS height's validator set (which the node's validator store holds):
		// that set's key hash, key ids by its order, signed by its members. Not a vote of this height's set wherever
		// the key at an index differs.
		if h <= initialH {
			return "n/a:no-previous-set", false
		}
		old := w.VS(h - 1)
		differs := false
		for i, idx := range idxs {
			if !old.Validators[idx].PubKey.Equal(w.VS(h).Validators[idx].PubKey) {
				differs = true
			}
			sigs[i].Sig = w.sign(h-1, idx, w.voteContent(kind, h, r, target))
		}
		if !differs {
			return "n/a:same-keys-at-these-indices", false
		}
		pkh = string(old.PubKeyHash)
		allInvalid = true
	case "mix":
		// The valid signature(s) plus a corrupted one from the Byzantine validator.
		bad := w.voteSig(kind, h, r, target, byzIdx)
		bad.Sig = flipBit(bad.Sig)
		sigs = append(sigs, bad)
	case "dupid":
		// The same valid signature listed twice.
		sigs = append(sigs, sigs[0])
	case "emptymap", "andnil3":
	default:
		panic("unknown vote variant " + variant)
	}
	proofs := map[string][]gcrypto.SparseSignature{target: sigs}
	if variant == "andnil3" && target != "" {
		// One message with two targets: the votes above plus the Byzantine validator's nil vote (it may sign anything).
		proofs[""] = []gcrypto.SparseSignature{w.voteSig(kind, h, r, "", byzIdx)}
		s.noteDelivered(kind, h, r, "", byzIdx)
		if kind == 'c' {
			w.noteHonestPrecommit(h, r, "", byzIdx)
		}
	}
	if variant == "emptymap" {
		proofs = map[string][]gcrypto.SparseSignature{}
	}
	if variant == "" || variant == "mix" || variant == "dupid" || variant == "badpkh" || variant == "andnil3" {
		for _, i := range idxs {
			s.noteDelivered(kind, h, r, target, i)
			if kind == 'c' && variant != "badpkh" {
				w.noteHonestPrecommit(h, r, target, i)
			}
		}
	}
	var send func() string
	if kind == 'p' {
		msg := tmconsensus.PrevoteSparseProof{Height: h, Round: r, PubKeyHash: pkh, Proofs: proofs}
		send = func() string {
			return s.call("HandlePrevoteProofs", func(ctx context.Context) string {
				return s.handler().HandlePrevoteProofs(ctx, msg).String()
			})
		}
	} else {
		msg := tmconsensus.PrecommitSparseProof{Height: h, Round: r, PubKeyHash: pkh, Proofs: proofs}
		send = func() string {
			return s.call("HandlePrecommitProofs", func(ctx context.Context) string {
				return s.handler().HandlePrecommitProofs(ctx, msg).String()
			})
		}
	}
	// The very same message can be delivered again (redelivery after a restart): event strings are addressed relative
	// to the network's position, which the first delivery may already have moved.
	s.resend = send
	return send(), allInvalid
}

func (s *sys) applyReplay(variant string) string {
	if !s.alive() {
		return "node-down"
	}
	w := s.w
	h := w.H
	r := w.R
	hd := w.header("A", h)
	hash := string(hd.Hash)
	signers := []int{0, 1, 2}
	switch variant {
	case "ok":
	case "lowpower":
		signers = []int{0, 1}
	case "byzonly":
		signers = []int{byzIdx}
	case "nextround":
		r = r + 1
	case "prevH":
		if h <= initialH {
			return "n/a"
		}
		h--
		hd = w.header("A", h)
		hash = string(hd.Hash)
		r = w.commitRound[h]
	case "nextH":
		h++
		hd = w.header("A", h)
		hash = string(hd.Hash)
		r = 0
	case "badhash":
		hd.DataID = []byte("tampered")
	case "badprev":
		// A conflicting header: honest validators would not precommit it, only the Byzantine one does.
		hd.PrevBlockHash = []byte("not-the-previous-block-hash-0000")
		w.rehash(&hd)
		hash = string(hd.Hash)
		signers = []int{byzIdx}
	case "foreign":
		// A self-consistent header that embeds a foreign validator set with huge power, signed by that set.
		f := w.foreignVS()
		hd.ValidatorSet = f
		hd.DataID = []byte("foreign-set")
		w.rehash(&hd)
		hash = string(hd.Hash)
	case "blockB":
		hd = w.header("B", h)
		hash = string(hd.Hash)
		signers = []int{byzIdx}
	case "nosigs", "pvsigs":
		// A commit proof without any precommit: an empty signature list, or the validators' PREVOTE signatures
		// re-labelled as precommits.
		signers = nil
	default:
		panic("unknown replay variant " + variant)
	}
	var sigs []gcrypto.SparseSignature
	if variant == "nosigs" || variant == "pvsigs" {
		if variant == "pvsigs" {
			for _, i := range []int{0, 1, 2} {
				if s.eng != nil && i == w.idxOf(h, s.eng.keyIdx) {
					continue
				}
				if w.honestMay('p', h, r, i, hash) {
					sigs = append(sigs, w.voteSig('p', h, r, hash, i))
				}
			}
		}
		if sigs == nil {
			sigs = []gcrypto.SparseSignature{}
		}
	} else if variant == "foreign" {
		content := w.voteContent('c', h, r, hash)
		for i := 0; i < 2; i++ {
			sg, _ := w.keys[nKeysPool+i].Signer.Sign(context.Background(), content)
			sigs = append(sigs, gcrypto.SparseSignature{KeyID: keyID(i), Sig: sg})
		}
	} else {
		var ok []int
		for _, i := range signers {
			if s.eng != nil && i == w.idxOf(h, s.eng.keyIdx) {
				continue // the real engine signs for itself
			}
			if !w.honestMay('c', h, r, i, hash) {
				continue
			}
			ok = append(ok, i)
			sigs = append(sigs, w.voteSig('c', h, r, hash, i))
		}
		signers = ok
		if len(sigs) == 0 {
			return "n/a:no-signer"
		}
	}
	proof := tmconsensus.CommitProof{Round: r, PubKeyHash: string(hd.ValidatorSet.PubKeyHash), Proofs: map[string][]gcrypto.SparseSignature{hash: sigs}}
	var send func() string
	send = func() string { return s.sendReplay(variant, hd, proof, signers, h, r, hash) }
	s.resend = send
	return send()
}

func (s *sys) sendReplay(variant string, hd tmconsensus.Header, proof tmconsensus.CommitProof, signers []int, h uint64, r uint32, hash string) string {
	w := s.w
	resp := make(chan tmelink.ReplayedHeaderResponse, 1)
	select {
	case s.rhr <- tmelink.ReplayedHeaderRequest{Header: hd, Proof: proof, Resp: resp}:
	default:
		return "kernel-not-receiving"
	}
	synctest.Wait()
	select {
	case rr := <-resp:
		if variant != "foreign" {
			for _, i := range signers {
				s.noteDelivered('c', h, r, hash, i)
			}
		}
		if r > w.R && h == w.H {
			s.replayJump = true
		}
		if rr.Err == nil {
			if variant == "ok" || variant == "nextround" {
				for _, i := range signers {
					w.noteHonestPrecommit(h, r, hash, i)
				}
			}
			s.replayAccepted = append(s.replayAccepted, commitEvent{step: s.step, via: "replay", h: hd.Height, hash: hash, round: r})
			return "replay-ok"
		}
		return fmt.Sprintf("replay-err:%T", rr.Err)
	default:
		return "replay-no-response"
	}
}

func (s *sys) applyFetched(blk string) string {
	if s.eng != nil {
		return "n/a:engine-mode"
	}
	if s.m == nil {
		return "node-down"
	}
	ph := s.w.proposal(s.w.header(blk, s.w.H), s.w.R, s.w.proposerIdx(blk, s.w.R))
	select {
	case s.fOut <- ph:
		return "delivered"
	default:
		return "kernel-not-receiving"
	}
}

func (s *sys) applySMNext(which string) string {
	if s.eng != nil || !s.sm.entered {
		return "n/a:not-entered"
	}
	switch which {
	case "h":
		if !s.sm.sawCommit {
			return "n/a:no-commit-seen"
		}
		return s.enter(s.sm.h+1, 0)
	case "r":
		if s.sm.sawJump {
			return s.enter(s.sm.h, s.sm.jumpTo)
		}
		if !s.sm.sawNilAdv {
			return "n/a:no-reason-to-advance"
		}
		return s.enter(s.sm.h, s.sm.r+1)
	}
	panic("bad SMN")
}

func (s *sys) applySMAction(args []string) string {
	if s.eng != nil || !s.sm.entered || s.m == nil {
		return "n/a:not-entered"
	}
	w := s.w
	h, r := s.sm.h, s.sm.r
	what := args[0]
	if s.sm.acted[what] {
		return "n/a:already-acted"
	}
	var act tmeil.StateMachineRoundAction
	switch what {
	case "ph":
		if w.proposerIdx("A", r) != localIdx {
			return "n/a:not-proposer"
		}
		act.PH = w.proposal(w.header("A", h), r, localIdx)
	case "pv", "pc":
		kind := byte('p')
		if what == "pc" {
			kind = 'c'
		}
		target := s.targetHash(args[1], h)
		if !w.honestMay(kind, h, r, localIdx, target) {
			return "n/a:honest-validators-do-not-equivocate"
		}
		content := w.voteContent(kind, h, r, target)
		sig := w.sign(h, localIdx, content)
		ss := tmeil.ScopedSignature{TargetHash: target, SignContent: content, Sig: sig}
		s.noteDelivered(kind, h, r, target, localIdx)
		if kind == 'p' {
			act.Prevote = ss
		} else {
			act.Precommit = ss
			w.noteHonestPrecommit(h, r, target, localIdx)
		}
	}
	select {
	case s.sm.actions <- act:
		s.sm.acted[what] = true
		return "sent"
	default:
		return "actions-full"
	}
}

// probeCommitAccepted: see runMirror (closing probe).
func (s *sys) probeCommitAccepted(final snap) (string, bool) {
	w := s.w
	if !final.ok || !s.alive() || s.eng != nil {
		return "", false
	}
	h, r := final.voting.Height, final.voting.Round
	if h < initialH || h+2 > maxObsHeight {
		return "", false
	}
	aHash := string(w.header("A", h).Hash)
	target := ""
	for _, ph := range final.voting.ProposedHeaders {
		if string(ph.Header.Hash) != aHash {
			target = string(ph.Header.Hash)
		}
	}
	if target == "" {
		return "", false
	}
	var idxs []int
	var pow uint64
	for i := 0; i < nVals; i++ {
		if i == localIdx {
			continue // the local validator acts through the state machine only
		}
		if w.honestMay('c', h, r, i, target) {
			idxs = append(idxs, i)
			pow += w.VS(h).Validators[i].Power
		}
	}
	if pow < majority(w.total(h)) {
		return "", false
	}
	var sigs []gcrypto.SparseSignature
	for _, i := range idxs {
		sigs = append(sigs, w.voteSig('c', h, r, target, i))
		s.noteDelivered('c', h, r, target, i)
	}
	s.step++
	s.curEvent = fmt.Sprintf("PROBE:network-precommits-accepted-header:%d/%d:%s", h, r, h8([]byte(target)))
	msg := tmconsensus.PrecommitSparseProof{Height: h, Round: r, PubKeyHash: string(w.VS(h).PubKeyHash), Proofs: map[string][]gcrypto.SparseSignature{target: sigs}}
	res := s.call("HandlePrecommitProofs", func(ctx context.Context) string {
		return s.handler().HandlePrecommitProofs(ctx, msg).String()
	})
	return res, true
}
