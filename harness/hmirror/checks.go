//go:build verif

package hmirror

import (
	"fmt"
	"os"
	"runtime/pprof"
	"testing"
	"strconv"
	"time"
	"strings"

	"github.com/gordian-engine/gordian/internal/zzverif/vx"
)

var dbgT *testing.T

const allProps = "C01,C04,C05,C06,C07,C09,C10,C11"

func init() {
	registry.Checks["DBG"] = func(c *vx.Ctx) {
		hist := []string{}
		if h := os.Getenv("VERIF_HIST"); h != "" {
			hist = strings.Split(h, " ")
		}
		mode := os.Getenv("VERIF_MODE")
		job := vx.Job{Exec: "mirror", Hist: hist, Args: map[string]string{"props": allProps, "results": "1", "mode": mode, "seed": os.Getenv("VERIF_SEEDLEN")}}
		if n, _ := strconv.Atoi(os.Getenv("VERIF_INPROC")); n > 0 {
			f, _ := os.Create("/tmp/hmirror.prof")
			pprof.StartCPUProfile(f)
			t0 := time.Now()
			for i := 0; i < n; i++ {
				execMirror(dbgT, job)
			}
			pprof.StopCPUProfile()
			f.Close()
			fmt.Printf("%d in-process jobs in %v: %v per job\n", n, time.Since(t0), time.Since(t0)/time.Duration(n))
		}
		if n, _ := strconv.Atoi(os.Getenv("VERIF_REPEAT")); n > 0 {
			jobs := make([]vx.Job, n)
			for i := range jobs {
				jobs[i] = job
			}
			t0 := time.Now()
			c.Pool.Map(jobs)
			fmt.Printf("%d jobs in %v: %v per job (all workers)\n", n, time.Since(t0), time.Since(t0)/time.Duration(n))
		}
		rs := c.Pool.Map([]vx.Job{job})
		r := rs[0]
		for i, ev := range r.Trace {
			res := ""
			if i < len(r.Next) {
				res = r.Next[i]
			}
			fmt.Printf("%3d %-28s %s\n", i, ev, res)
		}
		fmt.Println("outcome:", r.Outcome, "harnessErr:", r.HarnessErr)
		fmt.Println("crash:", r.Crash)
		for _, v := range r.Viol {
			fmt.Printf("VIOL %s %s\n   %s\n", v.Prop, v.Sig, v.Msg)
		}
		if os.Getenv("VERIF_KEY") != "" {
			fmt.Println(r.Key)
		}
		c.Absorb(job, r, strings.Split(allProps, ",")...)
		c.Rule = "debug"
	}
}

func mirrorCheck(prop string, props string, rule string) func(c *vx.Ctx) {
	return func(c *vx.Ctx) {
		c.Level = "model_checking"
		c.Rule = rule
		st := &exploreStats{keys: map[string]struct{}{}}
		maxDev, depth := 1, 2
		seeds := []int{0, 7, 16, 22}
		if !c.Quick() {
			maxDev, depth = 2, 3
		}
		n := 0
		each := func(j vx.Job, r vx.Result) {
			n++
			if n%997 == 1 {
				c.Sample(map[string]any{"deviations_or_events": j.Hist, "mode": j.Args["mode"], "seed_prefix": j.Args["seed"], "outcome": r.Outcome})
			}
		}
		exploreDeviations(c, props, maxDev, st, each)
		exploreBFS(c, props, seeds, depth, alphabet("core"), st, each)
		c.Assume("testing/synctest quiescence: between two harness events the mirror runs until every goroutine is blocked")
		c.Assume("tmconsensustest.SimpleSignatureScheme sign bytes (checked by C15) and crypto/ed25519 are the ground truth for signature validity")
		c.Assume("4 validators, one Byzantine (<1/3 power); honest validators precommit only the honest block or nil")
	}
}

const ruleCommon = "executions = benign 40-event script over 4 heights (validator sets change at heights 3,4,5; one nil round) with every single deviation (insert any alphabet event at any of 41 positions, drop or corrupt any scripted message), in the thorough tier every pair of core-alphabet deviations, plus BFS with canonical-state dedup from 4 script prefixes; oracles run after every event; "

func init() {
	registry.Checks["ALLA"] = mirrorCheck("ALLA", allProps, ruleCommon)
	registry.Checks["C01"] = mirrorCheck("C01", "C01", ruleCommon+"every commit event (committing view change, committed-header store write, committed header handed to the state machine, accepted replay) is certified by independently verifying the precommit signatures the node holds against the chain-prescribed validator set; non-trivial = execution that admitted a vote or committed a header, distinct by final canonical state")
	registry.Checks["C04"] = mirrorCheck("C04", "C04", ruleCommon+"after every event: committed hashes never change, heights contiguous from the initial height, hash links, stored and in-memory positions never regress, voting = committing+1; non-trivial as C01")
	registry.Checks["C05"] = mirrorCheck("C05", "C05", ruleCommon+"after every event every signature reachable from views, gossip updates, state-machine views, round store and header store is re-verified with crypto/ed25519 against the sign bytes of the kind/height/round/hash it is filed under; all-invalid messages must leave the full observable snapshot unchanged and must not be Accepted; non-trivial as C01")
	registry.Checks["C06"] = mirrorCheck("C06", "C06", ruleCommon+"every vote summary seen (views, gossip, state machine) is recomputed from the signer bitsets; every voting-round change must be justified by distinct validators' delivered votes; non-trivial as C01")
	registry.Checks["C07"] = mirrorCheck("C07", "C07", ruleCommon+"after every event the voting and committing views' validator sets must equal the chain-prescribed set, match the next-set hashes of the header committed below, and hash to their own hashes; non-trivial as C01")
	registry.Checks["C11"] = mirrorCheck("C11", "C11", ruleCommon+"per-consumer monitors over everything the gossip and state-machine consumers received (strictly increasing versions, growing proposals and signer sets), currency after the final drain, nil-round precommits delivered; non-trivial as C01")
}

var _ = registry
