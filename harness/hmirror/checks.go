//go:build verif

package hmirror

import (
	"fmt"
	"os"
	"runtime/pprof"
	"testing"
	"strconv"
	"time"
	"strings"

	"github.com/gordian-engine/gordian/internal/zzverif/vx"
)

var dbgT *testing.T

const allProps = "C01,C04,C05,C06,C07,C09,C10,C11"

func init() {
	registry.Checks["DBG"] = func(c *vx.Ctx) {
		hist := []string{}
		if h := os.Getenv("VERIF_HIST"); h != "" {
			hist = strings.Split(h, " ")
		}
		mode := os.Getenv("VERIF_MODE")
		job := vx.Job{Exec: "mirror", Hist: hist, Args: map[string]string{"props": allProps, "results": "1", "mode": mode, "seed": os.Getenv("VERIF_SEEDLEN")}}
		if n, _ := strconv.Atoi(os.Getenv("VERIF_INPROC")); n > 0 {
			f, _ := os.Create("/tmp/hmirror.prof")
			pprof.StartCPUProfile(f)
			t0 := time.Now()
			for i := 0; i < n; i++ {
				execMirror(dbgT, job)
			}
			pprof.StopCPUProfile()
			f.Close()
			fmt.Printf("%d in-process jobs in %v: %v per job\n", n, time.Since(t0), time.Since(t0)/time.Duration(n))
		}
		if n, _ := strconv.Atoi(os.Getenv("VERIF_REPEAT")); n > 0 {
			jobs := make([]vx.Job, n)
			for i := range jobs {
				jobs[i] = job
			}
			t0 := time.Now()
			c.Pool.Map(jobs)
			fmt.Printf("%d jobs in %v: %v per job (all workers)\n", n, time.Since(t0), time.Since(t0)/time.Duration(n))
		}
		rs := c.Pool.Map([]vx.Job{job})
		r := rs[0]
		for i, ev := range r.Trace {
			res := ""
			if i < len(r.Next) {
				res = r.Next[i]
			}
			fmt.Printf("%3d %-28s %s\n", i, ev, res)
		}
		fmt.Println("outcome:", r.Outcome, "harnessErr:", r.HarnessErr)
		fmt.Println("crash:", r.Crash)
		for _, v := range r.Viol {
			fmt.Printf("VIOL %s %s\n   %s\n", v.Prop, v.Sig, v.Msg)
		}
		if os.Getenv("VERIF_KEY") != "" {
			fmt.Println(r.Key)
		}
		c.Absorb(job, r, strings.Split(allProps, ",")...)
		c.Rule = "debug"
	}
}

func mirrorCheck(prop string, props string, rule string) func(c *vx.Ctx) {
	return func(c *vx.Ctx) {
		c.Level = "model_checking"
		c.Rule = rule
		st := &exploreStats{keys: map[string]struct{}{}}
		maxDev, depth := 1, 2
		seeds := []int{0, 7, 16, 22}
		if !c.Quick() {
			maxDev, depth = 2, 3
		}
		n := 0
		each := func(j vx.Job, r vx.Result) {
			n++
			if n%997 == 1 {
				c.Sample(map[string]any{"deviations_or_events": j.Hist, "mode": j.Args["mode"], "seed_prefix": j.Args["seed"], "outcome": r.Outcome})
			}
		}
		exploreDeviations(c, props, maxDev, st, each)
		exploreBFS(c, props, seeds, depth, alphabet("core"), st, each)
		c.Assume("testing/synctest quiescence: between two harness events the mirror runs until every goroutine is blocked")
		c.Assume("tmconsensustest.SimpleSignatureScheme sign bytes (checked by C15) and crypto/ed25519 are the ground truth for signature validity")
		c.Assume("4 validators, one Byzantine (<1/3 power); honest validators precommit only the honest block or nil")
	}
}

func init() {
	registry.Checks["C05"] = mirrorCheck("C05", "C05", "executions = benign 40-event script over 4 heights with every single deviation (insert any alphabet event at any position, drop or corrupt any scripted message) plus BFS with state dedup from 4 script prefixes; after every event every signature reachable from views, gossip, state-machine views, round store and header store is re-verified with crypto/ed25519; non-trivial = execution in which the node admitted at least one vote or committed a header, distinct by final canonical state")
}
