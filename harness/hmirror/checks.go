//go:build verif

package hmirror

import (
	"fmt"
	"os"
	"runtime/pprof"
	"testing"
	"strconv"
	"time"
	"strings"

	"github.com/gordian-engine/gordian/internal/zzverif/vx"
)

var dbgT *testing.T

const allProps = "C01,C02,C04,C05,C06,C07,C08,C09,C10,C11,C12"

func init() {
	registry.Checks["DBG"] = func(c *vx.Ctx) {
		hist := []string{}
		if h := os.Getenv("VERIF_HIST"); h != "" {
			hist = strings.Split(h, " ")
		}
		mode := os.Getenv("VERIF_MODE")
		ex := "mirror"
		if os.Getenv("VERIF_EXEC") != "" {
			ex = os.Getenv("VERIF_EXEC")
		}
		hn := os.Getenv("VERIF_HEIGHTS")
		job := vx.Job{Exec: ex, Hist: hist, Args: map[string]string{"props": allProps, "results": "1", "mode": mode, "seed": os.Getenv("VERIF_SEEDLEN"), "heights": hn, "prog": os.Getenv("VERIF_PROG"), "adversary": os.Getenv("VERIF_ADV")}}
		if n, _ := strconv.Atoi(os.Getenv("VERIF_INPROC")); n > 0 {
			f, _ := os.Create("/tmp/hmirror.prof")
			pprof.StartCPUProfile(f)
			t0 := time.Now()
			for i := 0; i < n; i++ {
				registry.Execs[ex](dbgT, job)
			}
			pprof.StopCPUProfile()
			f.Close()
			fmt.Printf("%d in-process jobs in %v: %v per job\n", n, time.Since(t0), time.Since(t0)/time.Duration(n))
		}
		if n, _ := strconv.Atoi(os.Getenv("VERIF_REPEAT")); n > 0 {
			jobs := make([]vx.Job, n)
			for i := range jobs {
				jobs[i] = job
			}
			t0 := time.Now()
			c.Pool.Map(jobs)
			fmt.Printf("%d jobs in %v: %v per job (all workers)\n", n, time.Since(t0), time.Since(t0)/time.Duration(n))
		}
		rs := c.Pool.Map([]vx.Job{job})
		r := rs[0]
		for i, ev := range r.Trace {
			res := ""
			if i < len(r.Next) {
				res = r.Next[i]
			}
			fmt.Printf("%3d %-28s %s\n", i, ev, res)
		}
		for _, l := range r.Next {
			if strings.HasPrefix(l, "TRACE") {
				fmt.Println(l)
			}
		}
		fmt.Println("outcome:", r.Outcome, "harnessErr:", r.HarnessErr)
		fmt.Println("crash:", r.Crash)
		for _, v := range r.Viol {
			fmt.Printf("VIOL %s %s\n   %s\n", v.Prop, v.Sig, v.Msg)
		}
		if os.Getenv("VERIF_KEY") != "" {
			fmt.Println(r.Key)
		}
		c.Absorb(job, r, strings.Split(allProps, ",")...)
		c.Rule = "debug"
	}
}

func mirrorCheck(prop string, props string, rule string) func(c *vx.Ctx) {
	return func(c *vx.Ctx) {
		c.Level = "model_checking"
		c.Rule = rule
		st := &exploreStats{keys: map[string]struct{}{}}
		maxDev, depth := 1, 2
		seeds := []int{0, 7, 16, 22}
		if !c.Quick() {
			maxDev, depth = 2, 3
		}
		n := 0
		each := func(j vx.Job, r vx.Result) {
			n++
			if n%997 == 1 {
				c.Sample(map[string]any{"deviations_or_events": j.Hist, "mode": j.Args["mode"], "seed_prefix": j.Args["seed"], "outcome": r.Outcome})
			}
		}
		t0 := time.Now()
		phases := map[string]float64{}
		exploreDeviations(c, props, maxDev, st, each)
		phases["deviations"] = time.Since(t0).Seconds()
		t0 = time.Now()
		exploreBFS(c, props, seeds, depth, alphabet("core"), st, each)
		phases["bfs"] = time.Since(t0).Seconds()
		t0 = time.Now()
		if prop == "C01" || prop == "C05" || prop == "C09" || prop == "C11" || prop == "ALLA" {
			exploreRaces(c, props)
		}
		phases["concurrent_callers"] = time.Since(t0).Seconds()
		c.Extra["phase_seconds"] = phases
		c.Assume("testing/synctest quiescence: between two harness events the mirror runs until every goroutine is blocked")
		c.Assume("tmconsensustest.SimpleSignatureScheme sign bytes (checked by C15) and crypto/ed25519 are the ground truth for signature validity")
		c.Assume("4 validators, one Byzantine (<1/3 power); honest validators precommit only the honest block or nil")
	}
}

const ruleCommon = "executions = benign 40-event script over 4 heights (validator sets change at heights 3,4,5; one nil round) with every single deviation (insert any alphabet event at any of 41 positions, drop or corrupt any scripted message), in the thorough tier every pair of core-alphabet deviations, plus BFS with canonical-state dedup from 4 script prefixes; oracles run after every event; The alphabet includes vote messages for height 0, votes made out against the previous height's validator set, replays without any precommit, and callers that give up at their k-th kernel round trip (CANCEL:k); poll destinations are reused across polls. Every history ends with a closing probe: if the voting view accepted a header other than the honest chain's, the network precommits it and the commit is judged like any other. "

func init() {
	registry.Checks["ALLA"] = mirrorCheck("ALLA", allProps, ruleCommon)
	registry.Checks["C01"] = mirrorCheck("C01", "C01", ruleCommon+"every commit event (committing view change, committed-header store write, committed header handed to the state machine, accepted replay) is certified by independently verifying the precommit signatures the node holds against the chain-prescribed validator set; non-trivial = execution that admitted a vote or committed a header, distinct by final canonical state")
	registry.Checks["C04"] = func(c *vx.Ctx) {
		crashEnum(c, []string{"C04"})
		c04base(c)
	}
}

var c04base func(c *vx.Ctx)

func init() {
	c04base = mirrorCheck("C04", "C04", ruleCommon+"after every event: committed hashes never change, heights contiguous from the initial height, hash links, stored and in-memory positions never regress, voting = committing+1; non-trivial as C01")
	registry.Checks["C05"] = mirrorCheck("C05", "C05", ruleCommon+"after every event every signature reachable from views, gossip updates, state-machine views, round store and header store is re-verified with crypto/ed25519 against the sign bytes of the kind/height/round/hash it is filed under; all-invalid messages must leave the full observable snapshot unchanged and must not be Accepted; non-trivial as C01")
	c06rest := nodeCheck("C06", "C06", ruleNode+ruleCommon+"C06: (a) the real VoteSummary on ALL assignments of n<=4 (thorough 5) validators x power vectors over {1,2,3,1e6} x every validator signing any subset of {nil,A,B}, compared with an order-independent recomputation; (b) every vote summary seen in any explored execution is recomputed from the signer bitsets, every voting-round change and every delay-timer start must be justified by distinct validators; non-trivial as C01", true)
	registry.Checks["C06"] = func(c *vx.Ctx) {
		n := 4
		if !c.Quick() {
			n = 5
		}
		exploreVoteSum(c, n)
		c06rest(c)
	}
	registry.Checks["C06old"] = mirrorCheck("C06", "C06", ruleCommon+"every vote summary seen (views, gossip, state machine) is recomputed from the signer bitsets; every voting-round change must be justified by distinct validators' delivered votes; non-trivial as C01")
	registry.Checks["C07"] = nodeCheck("C07", "C07", ruleNode+ruleCommon+"C07 (state machine side): the engine's own proposals carry exactly the driver's validator sets, it signs only while its key is in the set, the strategy is never shown a proposal with other sets; non-trivial as C01", true)
	registry.Checks["C07old"] = mirrorCheck("C07", "C07", ruleCommon+"after every event the voting and committing views' validator sets must equal the chain-prescribed set, match the next-set hashes of the header committed below, and hash to their own hashes; non-trivial as C01")
	registry.Checks["C11"] = mirrorCheck("C11", "C11", ruleCommon+"per-consumer monitors over everything the gossip and state-machine consumers received (strictly increasing versions, growing proposals and signer sets), currency after the final drain, nil-round precommits delivered; non-trivial as C01")
}

const ruleBare = " PLUS the bare state machine (real tmstate.StateMachine and consensus manager, the explorer playing the mirror on the round-entrance and round-view channels): benign 36-event script over 3 heights incl. a nil round with every single deviation from a 68-event alphabet (views growing by any vote or proposal for the current, next and next-but-one round, jump-ahead signals, grown views of the round or height already left, committed-header answers, height-committed signal, every strategy answer, timers, driver, late proposal, restart), thorough: pairs within 3 positions, plus BFS from 5 script prefixes with canonical-state dedup; the state machine's main select is a controlled one (harness/tools/selxform): its kernel is held at the select, released pass by pass, and BATCH deviations let 2-3 inputs (scripted, or one of 15 inserted events such as the height-committed signal, a stale view, a timer) become ready together with each select case tried as the one taken first; a lagging reader gets coalesced views (the scripted event plus every set of up to 3 further votes of the round before the next read); the same trace monitors run (timer discipline after every pass, decision-due clauses once all inputs are consumed); "

const ruleNode = "executions = one complete real engine (tmengine.New: mirror + state machine + consensus manager) in a synctest bubble with the harness as network, consensus strategy (every call blocks until released), round timer, driver and gossip consumer; benign 54-event script over 6 heights (validator sets change every height from 3, own key absent at height 5, one nil round by proposal timeout) with every single deviation (insert any alphabet event at any position, drop any scripted event, replace any strategy answer), in the thorough tier pairs of core deviations over the first 3 heights, plus BFS with canonical-state dedup from 4 script prefixes; a restart matrix (restart after every prefix of the first three heights, then every sequence of up to 2, thorough 3, strategy/timer/vote answers), duplicate strategy proposals, and batched inputs for the state machine's controlled main select (next 2-3 scripted events ready together, each select case first); trace monitors run at every quiescent point; "

func nodeCheck(prop string, props string, rule string, withMirror bool) func(c *vx.Ctx) {
	return func(c *vx.Ctx) {
		c.Level = "model_checking"
		c.Rule = rule
		st := &exploreStats{keys: map[string]struct{}{}}
		maxDev, depth := 1, 1
		if !c.Quick() {
			maxDev, depth = 2, 2
		}
		n := 0
		each := func(j vx.Job, r vx.Result) {
			n++
			if n%997 == 1 {
				c.Sample(map[string]any{"harness": j.Exec, "deviations_or_events": j.Hist, "mode": j.Args["mode"], "seed_prefix": j.Args["seed"], "outcome": r.Outcome})
			}
		}
		if !withMirror {
			// C02, C08, C12: first the state machine alone, with the explorer as its mirror (smbare.go).
			exploreBare(c, props, maxDev, depth+1, st, each)
		}
		if withMirror {
			// The bare mirror first (cheap executions: the BFS from the seed states takes seconds), the engine after it.
			mdev, mdepth := 1, 2
			if !c.Quick() {
				mdev, mdepth = 2, 3
			}
			bfsSeeds := []int{0, 7, 16, 22}
			if c.Quick() && prop != "C09" {
				// quick C06/C07: one script prefix (a precommit short of the first commit) and the seeds built on it
				bfsSeeds = []int{7}
			}
			exploreBFS(c, props, bfsSeeds, mdepth, alphabet("core"), st, each)
			exploreDeviations(c, props, mdev, st, each)
			if prop == "C09" {
				exploreRaces(c, props)
			}
		}
		exploreNode(c, props, maxDev, depth, st, each)
		c.Assume("testing/synctest quiescence; one environment event at a time")
		c.Assume("4 validators, one Byzantine (<1/3 power); honest validators precommit only the honest block or nil")
		c.Assume("the strategy only answers with a block it was offered, nil, or not-ready")
	}
}

func init() {
	registry.Checks["ALLN"] = nodeCheck("ALLN", allProps, ruleNode, false)
	registry.Checks["SMB"] = func(c *vx.Ctx) {
		c.Level = "model_checking"
		c.Rule = "debug: bare state machine exploration only"
		st := &exploreStats{keys: map[string]struct{}{}}
		d, depth := 1, 2
		if !c.Quick() {
			d, depth = 2, 3
		}
		exploreBare(c, allProps, d, depth, st, nil)
	}
	c02base := nodeCheck("C02base", "C02", ruleNode+ruleBare+"the signer wrapper records every signed content (at most one distinct content per kind/height/round across restarts), and the round-store wrapper checks at the instant the mirror persists a vote of this validator that the action store already holds it; non-trivial = execution in which the validator signed something or a header was committed, distinct by final canonical state", false)
	registry.Checks["C02"] = func(c *vx.Ctx) {
		// every crash point of the engine histories (incl. ones in which the validator proposes), with the strategy
		// proposing again after the restart
		crashEnum(c, []string{"C02"})
		c02base(c)
	}
	registry.Checks["C08"] = nodeCheck("C08", "C08", ruleNode+ruleBare+"monitors: finalize only after a deliverable precommit majority for that block/round or a committed header; next height only after the finalization was stored; next round only with a nil quorum, full precommit presence, fired precommit delay or later-round minority; one Choose, no Consider/Choose after the prevote was chosen, one Decide and a Decide whenever one is due; positions strictly forward; calls and votes for the current round only, vote targets equal the strategy's answers; non-trivial as C02", false)
	registry.Checks["C12"] = func(c *vx.Ctx) {
		c12a(c)
		checkTimerPrograms(c)
	}
}

var c12a func(c *vx.Ctx)

func init() {
	c12a = nodeCheck("C12", "C12", ruleNode+ruleBare+"at every quiescent point: at most one step timer outstanding, it belongs to the state machine's current round and matches its step, a proposal timer is armed whenever the machine still awaits a proposal; (part b, the production StandardRoundTimer under all interleavings, is exploreTimer) non-trivial as C02", false)
}

func init() {
	c09node := nodeCheck("C09", "C09", ruleNode+ruleCommon+"C09 oracles: every execution must leave the worker alive (a panic on any engine goroutine kills it and is recorded with the panic message and first engine frame), every Handle* call returns (a call making more than 4000 kernel round trips is a livelock) with a declared constant, the views still answer, the kernels are still running at the end (goroutine inspection), every witnessed result is translated by both shipped feedback mappers; plus every constructor configuration within Hamming distance 2 (thorough 3) of the empty and of the complete valid option set in several orders; non-trivial as C02", true)
	registry.Checks["C09"] = func(c *vx.Ctx) {
		d := 2
		if !c.Quick() {
			d = 3
		}
		exploreCtor(c, d)
		c09node(c)
	}
	registry.Checks["C10"] = func(c *vx.Ctx) { checkC10(c) }
}

var _ = registry

func init() {
	registry.Checks["C03"] = func(c *vx.Ctx) {
		c.Level = "model_checking"
		c.Rule = "executions = three real engines (tmengine.New, validators 0-2, lock-respecting strategy, harness timers/drivers) plus a Byzantine validator (<1/3) in one synctest bubble; every signature and proposed header appearing in a node's views becomes a network message; default schedule = FIFO delivery to everyone, timers fire only when nothing is deliverable; deviations = drop, postpone or duplicate a delivery, fire a timer early, restart a node, Byzantine proposal (two variants) or prevote/precommit (for any known block, nil or an unknown hash) to one node or all; all single deviations at every step, all single deviations after each adversarial seed prefix and on top of three scripted adversaries (split view: the victim never receives the honest proposal but a Byzantine block, the rest commits with Byzantine help; forged relay: copies of honest proposals with rewritten next-validator powers reach the victim first; forged relay with planted keys: the copies' PubKeys list is rewritten, the victim is then shown a Byzantine block with precommits signed by the planted keys and cut off while the rest keeps deciding); lost messages are retransmitted when the network is idle; thorough: all pairs of core deviations; the agreement oracle runs after every step; non-trivial = every node finalized at least one height, distinct by the set of (height, block, nodes) finalizations"
		heights, maxDev := 2, 1
		if !c.Quick() {
			heights, maxDev = 3, 2
		}
		// Adversarial seeds around the start of height 2 (competing Byzantine proposals split across the nodes) and at height 1.
		seeds := [][]string{
			{"18:BYZ:ph:A:0", "18:BYZ:ph:B:1", "18:BYZ:ph:A:2", "19:BYZ:p:P0:0", "19:BYZ:p:P1:1"},
			{"22:BYZ:ph:A:0", "22:BYZ:ph:B:1", "23:BYZ:p:P0:all", "24:BYZ:c:P0:0"},
			{"5:BYZ:c:P0:0", "6:DROP", "7:DROP", "8:RST:1"},
		}
		exploreNet(c, heights, maxDev, seeds)
		c.Assume("3 honest engines holding >2/3 of the power with the harness's lock-respecting strategy (never unlocks), 1 Byzantine validator")
		c.Assume("bounded: 4 validators, 2 (thorough 3) heights, schedules within the stated deviation bound of the FIFO schedule")
	}
}

func init() {
	registry.Checks["CTOR"] = func(c *vx.Ctx) {
		c.Rule = "constructor configurations"
		exploreCtor(c, 2)
	}
}

func init() {
	registry.Checks["RACE"] = func(c *vx.Ctx) {
		c.Rule = "debug: concurrent callers"
		exploreRaces(c, "C01,C04,C05,C06,C07,C09,C11")
		for _, s := range c.SamplesForDebug() {
			fmt.Println(s)
		}
	}
}
