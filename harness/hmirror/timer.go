//go:build verif

package hmirror

import (
	"context"
	"fmt"
	"strings"
	"testing"
	"testing/synctest"
	"time"

	"github.com/gordian-engine/gordian/internal/zzverif/vx"
	"github.com/gordian-engine/gordian/tm/tmengine/internal/tmstate"
)

// C12(b): the production StandardRoundTimer under every interleaving of its client with its background
// goroutine (held at the hook points before each of its two selects). Which READY case a select of the
// background goroutine takes is a choice of the explorer too: the checks are built against a copy of
// roundtimer.go whose selects poll their cases in a harness-chosen order first (harness/tools/selxform), so
// both outcomes of "cancel signal and expired timer ready" or "cancel signal and new request ready" are really
// executed. Only if that rewrite is not possible (VerifSelectCountRoundtimer == 0) the older ready-set analysis is used.

type fixedTimeouts struct{}

const timerDur = time.Second

func (fixedTimeouts) ProposalTimeout(uint64, uint32) time.Duration       { return timerDur }
func (fixedTimeouts) PrevoteDelayTimeout(uint64, uint32) time.Duration   { return timerDur }
func (fixedTimeouts) PrecommitDelayTimeout(uint64, uint32) time.Duration { return timerDur }
func (fixedTimeouts) CommitWaitTimeout(uint64, uint32) time.Duration     { return timerDur }

var timerPrograms = []string{
	"S C S", "S E S", "S C C S", "S C E S", "S E C S", "S C S C S", "S E S E S", "S C E", "S C S E", "S h E S",
}

func init() {
	registry.Execs["timer"] = execTimer
}

type timerHandle struct {
	ch        <-chan struct{}
	cancel    func()
	cancelled bool
	elapsedAt int // op index at which the client let its deadline pass (-1: not)
	observed  bool // the client received from the elapsed channel
}

// execTimer runs all schedules of one client program (Args["prog"]) below the schedule prefix in Hist.
func execTimer(t *testing.T, job vx.Job) (res vx.Result) {
	prog := strings.Fields(job.Args["prog"])
	outcomes := map[string]int{}
	n, complete := vx.ExploreSchedules(-1, func(prefix []int) []vx.Point {
		var pts []vx.Point
		synctest.Test(t, func(t *testing.T) {
			pts = runTimerSchedule(prog, prefix, &res, outcomes)
		})
		return pts
	}, nil)
	res.Count("schedules", int64(n))
	res.NonTrivial = n > 1
	res.Key = job.Args["prog"]
	var oc []string
	for k, v := range outcomes {
		oc = append(oc, fmt.Sprintf("%s=%d", k, v))
	}
	res.Outcome = fmt.Sprintf("%d outcomes", len(outcomes))
	res.Trace = oc
	if !complete {
		res.HarnessErr = "schedule exploration stopped early"
	}
	return res
}

func closedNow(ch <-chan struct{}) bool {
	select {
	case <-ch:
		return true
	default:
		return false
	}
}

func runTimerSchedule(prog []string, prefix []int, res *vx.Result, outcomes map[string]int) []vx.Point {
	ctx, cancel := context.WithCancel(context.Background())
	defer cancel()
	s := vx.NewThreads(ctx, prefix)
	controlled := tmstate.VerifSelectCountRoundtimer > 0
	redundantAt := -1
	if controlled {
		var asked struct {
			name  string
			first int
		}
		tmstate.VerifSetSelectHooks(func(name string, n int) []int {
			c := s.Choose(name, n)
			asked.name, asked.first = name, c
			order := []int{c}
			for i := 0; i < n; i++ {
				if i != c {
					order = append(order, i)
				}
			}
			return order
		}, func(name string, i int) {
			if name == asked.name && i != asked.first && redundantAt < 0 {
				// The case asked for first was not ready: this execution equals the one that asks for case i.
				redundantAt = len(s.Points)
			}
			res.Count("select_case_taken:"+name+"="+fmt.Sprint(i), 1)
		}, nil)
		defer tmstate.VerifSetSelectHooks(nil, nil, nil)
	}

	bgCtx := s.Adopt("bg")
	rt := tmstate.NewStandardRoundTimer(bgCtx, fixedTimeouts{})

	var timers []*timerHandle
	curOp := -1
	opKind := ""
	wantElapse := false
	s.Go("client", func(cctx context.Context) {
		for i, op := range prog {
			curOp, opKind = i, op
			switch op {
			case "S":
				// The client follows the documented protocol: the previous timer is cancelled or has elapsed.
				gchanPoint(cctx, "client.start")
				ch, c := rt.ProposalTimer(cctx, 1, 0)
				if ch == nil {
					return
				}
				timers = append(timers, &timerHandle{ch: ch, cancel: c, elapsedAt: -1})
			case "C":
				gchanPoint(cctx, "client.cancel")
				if len(timers) > 0 {
					th := timers[len(timers)-1]
					th.cancel()
					if th.elapsedAt < 0 || !closedNow(th.ch) {
						th.cancelled = true
					}
				}
			case "E":
				gchanPoint(cctx, "client.elapse")
				wantElapse = true
				gchanPoint(cctx, "client.elapsed")
				if len(timers) > 0 {
					th := timers[len(timers)-1]
					if th.elapsedAt < 0 {
						th.elapsedAt = i
					}
					if !th.cancelled {
						// Like the state machine, the client moves on only after it observed the elapse.
						select {
						case <-th.ch:
							th.observed = true
						case <-cctx.Done():
							return
						}
					}
				}
			case "h":
				// Half the duration passes: not enough to elapse.
				gchanPoint(cctx, "client.half")
				wantHalf = true
				gchanPoint(cctx, "client.halved")
			}
		}
		curOp, opKind = len(prog), "done"
	})
	violate := func(sig, msg string) {
		res.Violate("C12", sig, fmt.Sprintf("program [%s], schedule %s: %s", strings.Join(prog, " "), s.ScheduleString(), msg), len(s.Points))
	}
	wantHalf = false
	s.BeforeRelease = func(th int, at string) bool {
		// The fake clock is advanced by the controller when the client asks for it.
		if th == 1 && at == "Point:client.elapsed" && wantElapse {
			wantElapse = false
			time.Sleep(timerDur + time.Millisecond)
			synctest.Wait()
		}
		if th == 1 && at == "Point:client.halved" && wantHalf {
			wantHalf = false
			time.Sleep(timerDur / 2)
			synctest.Wait()
		}
		if redundantAt >= 0 {
			return false
		}
		if !controlled && th == 0 && at == "roundtimer.running" {
			// Ready-set analysis at the entry of the running select.
			clientInStart := opKind == "S" && s.ThreadState(1) == "blocked"
			if clientInStart {
				prev := timers[len(timers)-1]
				ok := prev.cancelled || prev.observed
				if ok {
					violate("start-after-cancel-can-hit-panic-branch",
						"the background goroutine enters its running select while the client, having cancelled (or seen elapse of) the previous timer, is blocked in the request for a new one: the 'new timer requested before previous timer elapsed or was cancelled' panic case is ready")
					return false
				}
			}
			if len(timers) > 0 {
				cur := timers[len(timers)-1]
				if cur.cancelled && cur.elapsedAt >= 0 && !closedNow(cur.ch) {
					// Both the cancel case and timer.C are ready: the runtime may close the elapsed channel of a cancelled timer.
					violate("cancelled-timer-can-report-elapsed",
						"the background goroutine enters its running select with both the cancel signal and the expired time.Timer ready: it may close the elapsed channel of a timer that was cancelled before its deadline")
					return false
				}
			}
		}
		return true
	}
	s.Run()
	// End-state oracles.
	if redundantAt >= 0 {
		// Not a new behaviour: cut the recorded schedule at the redundant choice so nothing below it is expanded.
		outcomes["redundant-select-order"]++
		pts := s.Points[:min(redundantAt, len(s.Points))]
		s.Stop()
		cancel()
		synctest.Wait()
		rt.Wait()
		return pts
	}
	if !s.Aborted {
		if s.Deadlock != "" {
			violate("timer-client-stuck", "client could not finish: "+s.Deadlock)
		}
		for _, p := range s.Panics() {
			violate("timer-client-panic", p)
		}
		for i, th := range timers {
			if th.cancelled && th.elapsedAt < 0 && closedNow(th.ch) {
				violate("cancelled-timer-reported-elapsed", fmt.Sprintf("timer %d was cancelled and never reached its deadline, yet its elapsed channel is closed", i))
			} else if th.cancelled && closedNow(th.ch) {
				violate("cancelled-timer-reported-elapsed:deadline-passed-after-cancel", fmt.Sprintf("timer %d was cancelled while it had not reported anything; its deadline passed afterwards and its elapsed channel got closed", i))
			}
		}
	}
	out := "completed"
	if s.Aborted {
		out = "aborted-at-bad-ready-set"
	}
	outcomes[out]++
	pts := s.Points
	s.Stop()
	cancel()
	synctest.Wait()
	rt.Wait()
	_ = curOp
	return pts
}

var wantHalf bool

func checkTimerPrograms(c *vx.Ctx) {
	var jobs []vx.Job
	for _, p := range timerPrograms {
		jobs = append(jobs, vx.Job{Exec: "timer", Args: map[string]string{"prog": p}})
	}
	rs := c.Pool.Map(jobs)
	var total int64
	for i, r := range rs {
		if r.Crash != "" {
			// A panic of the timer's background goroutine ends the worker: for this harness it is a C12 violation
			// (the only panic in that goroutine is "new timer requested before previous timer elapsed or was cancelled").
			r.Viol = append(r.Viol, vx.Violation{Prop: "C12", Sig: "timer-goroutine-" + vx.CrashSig(r.Crash), Msg: "client program [" + jobs[i].Args["prog"] + "]: " + r.Crash[:min(len(r.Crash), 600)]})
		}
		c.Absorb(jobs[i], r, "C12")
		total += r.Counters["schedules"]
		c.Sample(map[string]any{"timer_client_program": jobs[i].Args["prog"], "schedules": r.Counters["schedules"], "outcomes": r.Trace})
	}
	c.Extra["timer_programs"] = len(jobs)
	c.Extra["timer_schedules_all_interleavings"] = total
	c.Transitions += total
}
