//go:build verif

package hmirror

import (
	"context"
	"fmt"
	"sort"
	"strings"

	"github.com/gordian-engine/gordian/gcrypto"
	"github.com/gordian-engine/gordian/tm/tmconsensus"
)

// snapshotStoresOnly reads the durable state while the node is down.
func (s *sys) snapshotStoresOnly() snap {
	m, e := s.m, s.eng
	s.m, s.eng = nil, nil
	sn := s.snapshot()
	s.m, s.eng = m, e
	return sn
}

// afterCrash: the durable state right after the process stopped (C04 still applies to it).
func (o *oracles) afterCrash(before, durable snap) {
	o.checkChain(before, durable)
}

func sigSet(m map[string][]gcrypto.SparseSignature) map[string]bool {
	out := map[string]bool{}
	for t, sigs := range m {
		for _, sg := range sigs {
			out[t+"|"+string(sg.KeyID)+"|"+string(sg.Sig)] = true
		}
	}
	return out
}

func proofSigSet(m map[string]gcrypto.CommonMessageSignatureProof) map[string]bool {
	out := map[string]bool{}
	for t, p := range m {
		for _, sg := range p.AsSparse().Signatures {
			out[t+"|"+string(sg.KeyID)+"|"+string(sg.Sig)] = true
		}
	}
	return out
}

// notePersisted records what the round store holds at a quiescent point ("previously persisted" in C10's words).
func (o *oracles) notePersisted(sn snap) {
	if o.everPV == nil {
		o.everPV, o.everPC = map[[2]uint64]map[string]bool{}, map[[2]uint64]map[string]bool{}
	}
	for hr, rs := range sn.rounds {
		for k := range sigSet(rs.prevotes.BlockSignatures) {
			if o.everPV[hr] == nil {
				o.everPV[hr] = map[string]bool{}
			}
			o.everPV[hr][k] = true
		}
		for k := range sigSet(rs.precommits.BlockSignatures) {
			if o.everPC[hr] == nil {
				o.everPC[hr] = map[string]bool{}
			}
			o.everPC[hr][k] = true
		}
	}
}

// afterRestart checks what C10 promises about the restarted node against the durable state it started from.
func (o *oracles) afterRestart(durable snap) {
	if !o.on["C10"] {
		return
	}
	s := o.s
	preStop := o.prevSnap // the last quiescent point before the stop
	now := s.snapshot()
	o.res.Count("restarts_checked", 1)
	if !now.ok {
		o.violate("C10", "restarted-node-not-serving", "views cannot be read after restart")
		return
	}
	if durable.nhrErr == "" {
		if lexLess([2]uint64{now.voting.Height, uint64(now.voting.Round)}, [2]uint64{durable.nhr[0], durable.nhr[1]}) {
			o.violate("C10", "voting-position-behind-durable", fmt.Sprintf("restarted voting view %d/%d is behind the stored %d/%d", now.voting.Height, now.voting.Round, durable.nhr[0], durable.nhr[1]))
		}
		if lexLess([2]uint64{now.committing.Height, uint64(now.committing.Round)}, [2]uint64{durable.nhr[2], durable.nhr[3]}) {
			o.violate("C10", "committing-position-behind-durable", fmt.Sprintf("restarted committing view %d/%d is behind the stored %d/%d", now.committing.Height, now.committing.Round, durable.nhr[2], durable.nhr[3]))
		}
	}
	for h, ch := range durable.headers {
		nh, ok := now.headers[h]
		if !ok || string(nh.Header.Hash) != string(ch.Header.Hash) {
			o.violate("C10", "committed-header-lost-on-restart", fmt.Sprintf("committed header at height %d changed or vanished across restart", h))
		}
	}
	// Votes and proposed headers persisted for the rounds now in view are present again.
	chk := func(where string, v *tmconsensus.VersionedRoundView) {
		if v.Height == 0 {
			return
		}
		rs, ok := durable.rounds[[2]uint64{v.Height, uint64(v.Round)}]
		if !ok {
			return
		}
		have := proofSigSet(v.PrevoteProofs)
		for k := range sigSet(rs.prevotes.BlockSignatures) {
			if !have[k] {
				o.violate("C10", "persisted-prevote-missing-after-restart:"+where, fmt.Sprintf("%s %d/%d lacks a prevote signature that the round store holds", where, v.Height, v.Round))
				break
			}
		}
		have = proofSigSet(v.PrecommitProofs)
		for k := range sigSet(rs.precommits.BlockSignatures) {
			if !have[k] {
				o.violate("C10", "persisted-precommit-missing-after-restart:"+where, fmt.Sprintf("%s %d/%d lacks a precommit signature that the round store holds", where, v.Height, v.Round))
				break
			}
		}
		// ... and so is every vote the running process still held before the stop and had persisted at an earlier
		// quiescent point of this history: a later write that silently took it out of the store again loses it here.
		// (A vote the process itself had dropped from the round before the stop is not lost by the restart.)
		hr := [2]uint64{v.Height, uint64(v.Round)}
		var pre *tmconsensus.VersionedRoundView
		for _, pv := range []*tmconsensus.VersionedRoundView{&preStop.voting, &preStop.committing} {
			if preStop.ok && pv.Height == v.Height && pv.Round == v.Round {
				pre = pv
			}
		}
		if pre != nil {
			have = proofSigSet(v.PrevoteProofs)
			for k := range proofSigSet(pre.PrevoteProofs) {
				if o.everPV[hr][k] && !have[k] {
					o.violate("C10", "earlier-persisted-prevote-missing-after-restart:"+where, fmt.Sprintf("%s %d/%d lacks a prevote signature (target %s) that the process held before the stop and that the round store held at an earlier point of this history", where, v.Height, v.Round, h8([]byte(strings.SplitN(k, "|", 2)[0]))))
					break
				}
			}
			have = proofSigSet(v.PrecommitProofs)
			for k := range proofSigSet(pre.PrecommitProofs) {
				if o.everPC[hr][k] && !have[k] {
					o.violate("C10", "earlier-persisted-precommit-missing-after-restart:"+where, fmt.Sprintf("%s %d/%d lacks a precommit signature (target %s) that the process held before the stop and that the round store held at an earlier point of this history", where, v.Height, v.Round, h8([]byte(strings.SplitN(k, "|", 2)[0]))))
					break
				}
			}
		}
		for _, ph := range rs.phs {
			found := false
			for _, vp := range v.ProposedHeaders {
				if string(vp.Header.Hash) == string(ph.Header.Hash) {
					found = true
				}
			}
			if !found {
				o.violate("C10", "persisted-proposal-missing-after-restart:"+where, fmt.Sprintf("%s %d/%d lacks proposed header %s that the round store holds", where, v.Height, v.Round, h8(ph.Header.Hash)))
			}
		}
	}
	chk("voting-view", &now.voting)
	chk("committing-view", &now.committing)
	o.checkAuthentic(now)
	o.checkChain(durable, now)
}

// afterRedelivery (C10, last sentence): before is the node's state at the quiescent point before the event during
// which the process stopped (nothing but that event was in flight); once the node was restarted and the event
// delivered again it must have reached at least that position and chain again, since without the stop it would
// never have gone below it.
func (o *oracles) afterRedelivery(before, after snap) {
	if !o.on["C10"] || !before.ok || !after.ok {
		return
	}
	o.res.Count("redeliveries_checked", 1)
	if lexLess([2]uint64{after.voting.Height, uint64(after.voting.Round)}, [2]uint64{before.voting.Height, uint64(before.voting.Round)}) {
		o.violate("C10", "voting-position-behind-pre-stop-position", fmt.Sprintf("before the stop the node was voting on %d/%d; restarted and with the interrupted message delivered again it is voting on %d/%d", before.voting.Height, before.voting.Round, after.voting.Height, after.voting.Round))
	}
	if lexLess([2]uint64{after.committing.Height, uint64(after.committing.Round)}, [2]uint64{before.committing.Height, uint64(before.committing.Round)}) {
		o.violate("C10", "committing-position-behind-pre-stop-position", fmt.Sprintf("before the stop the node was committing %d/%d; restarted and with the interrupted message delivered again it is committing %d/%d", before.committing.Height, before.committing.Round, after.committing.Height, after.committing.Round))
	}
	for h, ch := range before.headers {
		nh, ok := after.headers[h]
		if !ok || string(nh.Header.Hash) != string(ch.Header.Hash) {
			o.violate("C10", "committed-header-lost-across-stop", fmt.Sprintf("committed header at height %d changed or vanished across the stop", h))
		}
	}
}

// endKey is the part of the final state that C10 compares with the crash-free run of the same history.
func endKey(sn snap) string {
	var sb strings.Builder
	hs := make([]int, 0, len(sn.headers))
	for h := range sn.headers {
		hs = append(hs, int(h))
	}
	sort.Ints(hs)
	for _, h := range hs {
		fmt.Fprintf(&sb, "H%d=%s ", h, h8(sn.headers[uint64(h)].Header.Hash))
	}
	fmt.Fprintf(&sb, "| V %d/%d ph=[%s] pv={%s} pc={%s} | C %d/%d pc={%s}", sn.voting.Height, sn.voting.Round, phsString(sn.voting.ProposedHeaders),
		proofsString(sn.voting.PrevoteProofs), proofsString(sn.voting.PrecommitProofs), sn.committing.Height, sn.committing.Round, proofsString(sn.committing.PrecommitProofs))
	return sb.String()
}

var _ = context.Background
