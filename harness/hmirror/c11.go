//go:build verif

package hmirror

import (
	"fmt"

	"github.com/bits-and-blooms/bitset"
	"github.com/gordian-engine/gordian/gcrypto"
	"github.com/gordian-engine/gordian/tm/tmconsensus"
)

// viewMon is a per-consumer monitor of the views received for one (height, round).
type viewMon struct {
	version uint32
	phs     map[string]bool
	pv, pc  map[string]*bitset.BitSet
	seen    bool
}

func bitsOf(m map[string]gcrypto.CommonMessageSignatureProof) map[string]*bitset.BitSet {
	out := map[string]*bitset.BitSet{}
	for t, p := range m {
		var bs bitset.BitSet
		p.SignatureBitSet(&bs)
		out[t] = bs.Clone()
	}
	return out
}

// observe feeds one received view; strict says the version must be strictly newer than the last one.
func (o *oracles) monObserve(consumer string, mons map[[2]uint64]*viewMon, v *tmconsensus.VersionedRoundView, strict bool) {
	if v == nil || v.Height == 0 {
		return
	}
	k := [2]uint64{v.Height, uint64(v.Round)}
	m := mons[k]
	if m == nil {
		m = &viewMon{}
		mons[k] = m
	}
	o.res.Count("views_monitored", 1)
	phs := map[string]bool{}
	for _, ph := range v.ProposedHeaders {
		phs[string(ph.Signature)+"|"+string(ph.Header.Hash)] = true
	}
	pv, pc := bitsOf(v.PrevoteProofs), bitsOf(v.PrecommitProofs)
	if m.seen {
		if strict && v.Version <= m.version {
			o.violate("C11", "version-not-increasing:"+consumer, fmt.Sprintf("%s received view %d/%d version %d after version %d", consumer, v.Height, v.Round, v.Version, m.version))
		}
		if !strict && v.Version < m.version {
			o.violate("C11", "version-decreased:"+consumer, fmt.Sprintf("%s received view %d/%d version %d after version %d", consumer, v.Height, v.Round, v.Version, m.version))
		}
		for p := range m.phs {
			if !phs[p] {
				o.violate("C11", "proposal-disappeared:"+consumer, fmt.Sprintf("%s: a proposed header of %d/%d present in version %d is missing in version %d", consumer, v.Height, v.Round, m.version, v.Version))
				break
			}
		}
		shrunk := func(kind string, old, cur map[string]*bitset.BitSet) {
			for t, ob := range old {
				cb := cur[t]
				if cb == nil {
					if ob.Any() {
						o.violate("C11", "votes-disappeared:"+kind+":"+consumer, fmt.Sprintf("%s: %s for %s in %d/%d present in version %d are missing in version %d", consumer, kind, h8([]byte(t)), v.Height, v.Round, m.version, v.Version))
					}
					continue
				}
				if !cb.IsSuperSet(ob) {
					o.violate("C11", "votes-shrunk:"+kind+":"+consumer, fmt.Sprintf("%s: %s signer set for %s in %d/%d shrank from %s to %s", consumer, kind, h8([]byte(t)), v.Height, v.Round, ob, cb))
				}
			}
		}
		shrunk("prevotes", m.pv, pv)
		shrunk("precommits", m.pc, pc)
	}
	m.seen = true
	if v.Version > m.version {
		m.version = v.Version
	}
	m.phs, m.pv, m.pc = phs, pv, pc
}

// finalC11 runs the consumer monitors over the whole execution (segments between restarts are independent:
// a restarted mirror starts new version counters) and the end-of-history clauses.
func (o *oracles) finalC11(final snap) {
	if !o.on["C11"] {
		return
	}
	s := o.s
	// Gossip consumer.
	gm := map[[2]uint64]*viewMon{}
	seg := 0
	for i, u := range s.gLog {
		if sg := s.gSeg[i]; sg != seg {
			seg = sg
			gm = map[[2]uint64]*viewMon{}
		}
		o.monObserve("gossip", gm, u.Committing, true)
		o.monObserve("gossip", gm, u.Voting, true)
		o.monObserve("gossip", gm, u.NextRound, true)
		o.monObserve("gossip", gm, u.NilVotedRound, false)
	}
	// State machine consumer: monitors restart at every entrance.
	var sm map[[2]uint64]*viewMon
	for i := range s.sLog {
		r := &s.sLog[i]
		if r.resp != nil {
			sm = map[[2]uint64]*viewMon{}
			if r.resp.IsVRV() {
				if r.resp.VRV.Height != r.h || r.resp.VRV.Round != r.r {
					o.violate("C11", "entrance-response-for-other-round", fmt.Sprintf("state machine entered %d/%d and was answered with the view of %d/%d", r.h, r.r, r.resp.VRV.Height, r.resp.VRV.Round))
				}
				o.monObserve("state-machine", sm, &r.resp.VRV, true)
			}
			continue
		}
		if sm == nil {
			sm = map[[2]uint64]*viewMon{}
		}
		if r.v.VRV.Height > 0 {
			if r.v.VRV.Height != r.h || r.v.VRV.Round != r.r {
				o.violate("C11", "view-for-other-round-sent-to-state-machine", fmt.Sprintf("state machine in %d/%d received the view of %d/%d", r.h, r.r, r.v.VRV.Height, r.v.VRV.Round))
			}
			o.monObserve("state-machine", sm, &r.v.VRV, true)
		}
		// A jump-ahead view is a view of its round too: never older or smaller than what the state machine was
		// already given for that round.
		o.monObserve("state-machine", sm, r.v.JumpAheadRoundView, false)
		// The votes that justified skipping ahead travel in the jump-ahead view: at least a Byzantine minority of
		// prevotes or of precommits for the later round (or the view is a committing view, which holds more).
		if j := r.v.JumpAheadRoundView; j != nil && j.Height == r.h && j.Round > r.r && len(j.ValidatorSet.Validators) > 0 {
			vals := j.ValidatorSet.Validators
			var avail uint64
			for _, x := range vals {
				avail += x.Power
			}
			distinct := func(proofs map[string]gcrypto.CommonMessageSignatureProof) uint64 {
				var union, bs bitset.BitSet
				for _, pr := range proofs {
					pr.SignatureBitSet(&bs)
					union.InPlaceUnion(&bs)
				}
				return powerOf(vals, &union)
			}
			pv, pc := distinct(j.PrevoteProofs), distinct(j.PrecommitProofs)
			o.res.Count("jump_ahead_views_justification_checked", 1)
			if min := tmconsensus.ByzantineMinority(avail); pv < min && pc < min {
				o.violate("C11", "jump-ahead-view-without-the-votes-that-justify-skipping",
					fmt.Sprintf("state machine in %d/%d was told to jump to %d/%d by a view holding prevote power %d and precommit power %d; skipping needs %d of %d",
						r.h, r.r, j.Height, j.Round, pv, pc, min, avail))
			}
		}
	}
	if !final.ok {
		return
	}
	// Once inputs stop each consumer holds the mirror's latest view of the rounds it is entitled to.
	cur := func(consumer string, mons map[[2]uint64]*viewMon, v *tmconsensus.VersionedRoundView) {
		if v.Height == 0 {
			return
		}
		m := mons[[2]uint64{v.Height, uint64(v.Round)}]
		if m == nil || !m.seen {
			o.violate("C11", "consumer-never-received-current-view:"+consumer, fmt.Sprintf("%s never received the mirror's view of %d/%d (mirror version %d)", consumer, v.Height, v.Round, v.Version))
			return
		}
		if m.version != v.Version {
			o.violate("C11", "consumer-not-current:"+consumer, fmt.Sprintf("after inputs stopped %s holds version %d of %d/%d, the mirror is at version %d", consumer, m.version, v.Height, v.Round, v.Version))
			return
		}
		want := &viewMon{}
		tmp := map[[2]uint64]*viewMon{{v.Height, uint64(v.Round)}: want}
		saved := o.on["C11"]
		o.on["C11"] = false
		o.monObserve("x", tmp, v, false)
		o.on["C11"] = saved
		if fmt.Sprint(len(want.phs), bitsStr(want.pv), bitsStr(want.pc)) != fmt.Sprint(len(m.phs), bitsStr(m.pv), bitsStr(m.pc)) {
			// Name the shape of the difference, so that a known finding does not hide a different one.
			what := "votes"
			if len(want.phs) != len(m.phs) {
				what = "proposals"
				for _, ph := range v.ProposedHeaders {
					if len(ph.Signature) == 0 && !m.phs[string(ph.Signature)+"|"+string(ph.Header.Hash)] {
						what = "unsigned-replayed-header-added-without-version-bump"
					}
				}
			}
			o.violate("C11", "consumer-content-differs:"+consumer+":"+what, fmt.Sprintf("%s holds version %d of %d/%d with different content than the mirror's view of that version", consumer, m.version, v.Height, v.Round))
		}
	}
	cur("gossip", gm, &final.voting)
	cur("gossip", gm, &final.committing)
	if s.sm.entered && sm != nil {
		if s.sm.h == final.voting.Height && s.sm.r == final.voting.Round {
			cur("state-machine", sm, &final.voting)
		} else if s.sm.h == final.committing.Height && s.sm.r == final.committing.Round {
			cur("state-machine", sm, &final.committing)
		} else if lexLess([2]uint64{s.sm.h, uint64(s.sm.r)}, [2]uint64{final.voting.Height, uint64(final.voting.Round)}) {
			// The mirror left the state machine's round: the state machine must have been given what it needs to leave it too.
			if !(s.sm.sawCommit || s.sm.sawNilAdv || s.sm.sawJump) {
				rel := "behind-the-mirror"
				if s.sm.h == final.committing.Height && s.sm.r > final.committing.Round {
					rel = "in-a-later-round-of-the-committed-height"
				}
				o.violate("C11", "state-machine-left-behind:"+rel, fmt.Sprintf("the mirror is at %d/%d (committing %d/%d); the state machine is still in %d/%d and never received the votes that ended its round, a jump-ahead or the commit",
					final.voting.Height, final.voting.Round, final.committing.Height, final.committing.Round, s.sm.h, s.sm.r))
			}
		}
	}
	// Rounds that ended with a nil quorum: gossip must have been given that round's final precommits.
	for _, ra := range s.roundEnds {
		if ra.seg != seg {
			continue // the consumer of an earlier process lifetime is gone
		}
		m := gm[[2]uint64{ra.h, uint64(ra.r)}]
		ok := false
		if m != nil {
			if b := m.pc[""]; b != nil {
				if powerOf(s.w.VS(ra.h).Validators, b) >= majority(s.w.total(ra.h)) {
					ok = true
				}
			}
			// A round may also end because all precommit power is present without quorum.
			var union bitset.BitSet
			for _, b := range m.pc {
				union.InPlaceUnion(b)
			}
			if powerOf(s.w.VS(ra.h).Validators, &union) == s.w.total(ra.h) {
				ok = true
			}
		}
		if !ok && ra.nilQuorum {
			o.violate("C11", "nil-round-precommits-not-gossiped", fmt.Sprintf("round %d/%d ended by nil precommit quorum but gossip never received a view of it holding that quorum", ra.h, ra.r))
		}
	}
}

func bitsStr(m map[string]*bitset.BitSet) string {
	out := ""
	for _, k := range sortedKeys(m) {
		out += h8([]byte(k)) + "=" + m[k].String() + ";"
	}
	return out
}

func sortedKeys(m map[string]*bitset.BitSet) []string {
	ks := make([]string, 0, len(m))
	for k := range m {
		ks = append(ks, k)
	}
	for i := 1; i < len(ks); i++ {
		for j := i; j > 0 && ks[j] < ks[j-1]; j-- {
			ks[j], ks[j-1] = ks[j-1], ks[j]
		}
	}
	return ks
}
