//go:build verif

package hmirror

import (
	"context"
	"fmt"
	"sort"
	"strconv"
	"strings"
	"testing"
	"testing/synctest"

	"github.com/gordian-engine/gordian/internal/zzverif/vx"
)

// Concurrent callers (E-THR): two network messages are handled by two threads whose every kernel round trip
// (gchan request/response inside Mirror.Handle*) is a scheduling point; ALL interleavings are explored from a
// seed state. This is the only way to reach the optimistic-concurrency paths (version conflict -> retry,
// view shift between lookup and add).

var racePairs = [][2]string{
	{"V:c:2:A", "V:c:3:A"},
	{"V:c:2:A", "V:p:3:B"},
	{"PH:B", "V:c:2:A"},
	{"V:p:2:A", "V:p:3:A"},
	{"V:p:2:A", "V:p:2:A"},
	{"V:p:3:A", "V:p:3:B"},
	{"V:c:2:A", "V:c:3:A:flip"},
	{"PH:A", "PH:A"},
	{"PH:A", "PH:A:forgedNext"},
	{"V:c:2:A", "PH:A@1,0"},
	{"V:p:2:A", "V:c:2:A"},
	{"V:c:3:nil", "V:c:2:A"},
	{"V:c:2:A", "V:c:3:A@0,1"},
	{"V:p:3:X", "V:p:3:X:zerosig"},
	// two targets in one message, one of which conflicts with the other caller's update (partial acceptance, retry)
	{"V:p:h:A", "V:p:0:A:andnil3"},
	{"V:c:h:A", "V:c:0:A:andnil3"},
	{"V:p:1:A", "V:p:0:A:andnil3"},
	// two honest validators' precommits for the block that already holds one (version conflict and retry on a view
	// whose prevote and precommit versions differ)
	{"V:c:1:A", "V:c:2:A"},
	{"V:p:1:A", "V:p:2:A"},
}

const raceMaxPoints = 1500

var raceSeeds = []int{1, 2, 3, 4, 6, 7, 9, 14}

func init() {
	registry.Execs["mrace"] = execMRace
}

func execMRace(t *testing.T, job vx.Job) (res vx.Result) {
	seed, _ := strconv.Atoi(job.Args["seed"])
	a, b := job.Args["a"], job.Args["b"]
	props := strings.Split(job.Args["props"], ",")
	outcomes := map[string]int{}
	// The two sequential orders, for classification of the concurrent outcomes.
	seq := map[string]string{}
	for _, order := range [][2]string{{a, b}, {b, a}} {
		synctest.Test(t, func(t *testing.T) {
			r := runMirror(append(append([]string{}, benignScript()[:seed]...), order[0], order[1]), nil, 0, nil)
			seq[vx.ShortHash(r.Key)] = order[0] + " then " + order[1]
		})
	}
	maxPoints := 0
	livelocked := false
	n, complete := vx.ExploreSchedules(-1, func(prefix []int) []vx.Point {
		var pts []vx.Point
		synctest.Test(t, func(t *testing.T) {
			pts = runRaceSchedule(seed, a, b, props, prefix, &res, outcomes, seq)
		})
		if len(pts) > maxPoints {
			maxPoints = len(pts)
		}
		if len(pts) >= raceMaxPoints {
			// A handler that retries forever: reported; expanding the alternatives of that schedule is pointless.
			livelocked = true
		}
		return pts
	}, func() bool { return livelocked })
	if livelocked {
		complete = true
	}
	res.Count("schedules", int64(n))
	res.Count("max_points_in_a_schedule", int64(maxPoints))
	res.NonTrivial = len(outcomes) > 0
	res.Key = fmt.Sprintf("%d|%s|%s", seed, a, b)
	var oc []string
	for k, v := range outcomes {
		oc = append(oc, fmt.Sprintf("%s=%d", k, v))
	}
	sort.Strings(oc)
	res.Trace = oc
	res.Outcome = strings.Join(oc, " ")
	if !complete {
		res.HarnessErr = "schedule exploration stopped early"
	}
	return res
}

func runRaceSchedule(seed int, a, b string, props []string, prefix []int, res *vx.Result, outcomes map[string]int, seq map[string]string) []vx.Point {
	w := newWorld()
	s := newSys(w)
	o := newOracles(s, res, props)
	defer s.stop()
	before := s.snapshot()
	for i, ev := range benignScript()[:seed] {
		s.step = i
		s.apply(ev)
		s.drain(false)
	}
	before = s.snapshot()
	o.afterStep(before, before, applied{ev: "seed"})
	s.step = seed
	s.curEvent = a + " || " + b
	s.deferCalls = true
	s.apply(a)
	s.apply(b)
	s.deferCalls = false
	calls := s.deferred
	results := make([]string, len(calls))
	th := vx.NewThreads(s.ctx, prefix)
	th.MaxPoints = raceMaxPoints
	for i := range calls {
		i := i
		th.Go(fmt.Sprintf("T%d", i), func(ctx context.Context) { results[i] = calls[i](ctx) })
	}
	th.Run()
	pts := th.Points
	if th.Deadlock != "" {
		o.violate("C09", "concurrent-handlers-deadlock", "concurrent handlers did not finish: "+th.Deadlock+" schedule "+th.ScheduleString())
	}
	for _, p := range th.Panics() {
		o.violate("C09", "concurrent-handler-panic", p)
	}
	th.Stop()
	synctest.Wait()
	gFrom, sFrom := 0, 0
	s.drain(false)
	after := s.snapshot()
	o.afterStep(before, after, applied{ev: a + " || " + b, result: strings.Join(results, "|")})
	o.checkOutputs(gFrom, sFrom)
	s.stallG, s.stallS = false, false
	s.drain(true)
	final := s.snapshot()
	o.afterStep(after, final, applied{ev: "final-drain"})
	o.finalC11(final)
	k := vx.ShortHash(s.key(final))
	cls := "differs-from-both-sequential-orders"
	if name, ok := seq[k]; ok {
		cls = "as " + name
		if len(seq) == 1 {
			cls = "as either order"
		}
	}
	outcomes[fmt.Sprintf("%s [%s] points=%d", cls, strings.Join(results, ","), len(pts))]++
	return pts
}

func exploreRaces(c *vx.Ctx, props string) {
	var jobs []vx.Job
	seeds := raceSeeds
	if c.Quick() {
		seeds = []int{2, 3, 6, 7, 9}
	}
	for _, sd := range seeds {
		for _, p := range racePairs {
			jobs = append(jobs, vx.Job{Exec: "mrace", Args: map[string]string{"seed": fmt.Sprint(sd), "a": p[0], "b": p[1], "props": props}})
		}
	}
	rs := c.Pool.Map(jobs)
	var total int64
	distinct := 0
	for i, r := range rs {
		c.Absorb(jobs[i], r, strings.Split(props, ",")...)
		total += r.Counters["schedules"]
		distinct += len(r.Trace)
		if i%17 == 3 {
			c.Sample(map[string]any{"concurrent_messages": []string{jobs[i].Args["a"], jobs[i].Args["b"]}, "after_script_prefix": jobs[i].Args["seed"], "schedules": r.Counters["schedules"], "outcomes": r.Trace})
		}
	}
	c.Extra["concurrent_scenarios"] = len(jobs)
	c.Extra["concurrent_schedules_all_interleavings"] = total
	c.Extra["concurrent_distinct_outcomes"] = distinct
	c.Transitions += total
}
