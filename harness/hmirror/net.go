//go:build verif

package hmirror

import (
	"context"
	"fmt"
	"os"
	"sort"
	"strconv"
	"strings"
	"testing"
	"testing/synctest"

	"github.com/gordian-engine/gordian/gcrypto"
	"github.com/gordian-engine/gordian/internal/zzverif/vx"
	"github.com/gordian-engine/gordian/tm/tmconsensus"
)

// Network harness (C03): three real engines (validators 0,1,2 of the key pool) plus the Byzantine
// validator 3 played by the explorer. Every engine's gossip output is turned into individual network
// messages by the harness (flooding: everything a node's views contain is offered to the other nodes).

// lockStrategy is the lock-respecting consensus strategy of the property statement: it precommits a block only
// on a prevote majority for it, locks it, and from then on prevotes only the locked block in that height.
type lockStrategy struct {
	locked map[uint64]string // height -> locked block hash
}

func designatedProposer(h uint64, r uint32) int { return int((h + uint64(r)) % nVals) }

func (ls *lockStrategy) answer(n *node, c *stratCall) stratAnswer {
	w := n.w
	switch c.kind {
	case "enter":
		me := w.idxOf(c.h, n.keyIdx)
		if me >= 0 && me == designatedProposer(c.h, c.r) && c.out != nil {
			select {
			case c.out <- tmconsensus.Proposal{DataID: fmt.Sprintf("blk-%d-%d-by-%d", c.h, c.r, n.keyIdx)}:
			default:
			}
		}
		return stratAnswer{}
	case "consider", "choose":
		want := w.VS(c.h).Validators[designatedProposer(c.h, c.r)].PubKey
		pick := ""
		for _, ph := range c.phs {
			if ph.ProposerPubKey != nil && ph.ProposerPubKey.Equal(want) {
				if pick == "" || string(ph.Header.Hash) < pick {
					pick = string(ph.Header.Hash)
				}
			}
		}
		if l, ok := ls.locked[c.h]; ok {
			for _, ph := range c.phs {
				if string(ph.Header.Hash) == l {
					return stratAnswer{hash: l}
				}
			}
			if c.kind == "consider" {
				return stratAnswer{err: tmconsensus.ErrProposedBlockChoiceNotReady}
			}
			return stratAnswer{hash: ""}
		}
		if pick == "" && c.kind == "consider" {
			return stratAnswer{err: tmconsensus.ErrProposedBlockChoiceNotReady}
		}
		if pick == "" {
			// At the proposal timeout: rather than nil, prevote any proposed block that is known (lowest hash);
			// which block an unlocked validator prevotes does not matter for safety.
			for _, ph := range c.phs {
				if pick == "" || string(ph.Header.Hash) < pick {
					pick = string(ph.Header.Hash)
				}
			}
		}
		return stratAnswer{hash: pick}
	case "decide":
		maj := majority(c.vs.AvailablePower)
		for hash, pow := range c.vs.PrevoteBlockPower {
			if hash != "" && pow >= maj {
				if l, ok := ls.locked[c.h]; ok && l != hash {
					return stratAnswer{hash: ""}
				}
				ls.locked[c.h] = hash
				return stratAnswer{hash: hash}
			}
		}
		return stratAnswer{hash: ""}
	}
	return stratAnswer{}
}

type netMsg struct {
	id     int
	kind   string // "ph", "p", "c"
	h      uint64
	r      uint32
	target string
	ph     tmconsensus.ProposedHeader
	sig    gcrypto.SparseSignature
	pkh    string
	from   int // node that first offered it (-1: Byzantine)
	key    string
}

type delivery struct {
	msg  int
	to   int
	done bool
	// dropped: lost in transit (DROP deviation, scripted adversary); retx: the loss was made up for by a retransmission.
	dropped, retx bool
}

type netw struct {
	w     *world
	nodes []*node
	msgs  []*netMsg
	seen  map[string]int
	queue []*delivery
	gPos  []int // per node: gossip log entries already scanned

	fins      map[uint64]map[string][]int // height -> hash -> nodes that were asked to finalize it
	finSeq    [][]uint64                  // per node: heights requested, in order
	finPos    []int                       // per node: trace position scanned
	ignoredTimers map[*hTimer]bool
	trace     []string
	lastDelivered *delivery
}

func newNet(w *world) *netw {
	nw := &netw{w: w, seen: map[string]int{}, fins: map[uint64]map[string][]int{}, ignoredTimers: map[*hTimer]bool{}}
	for i := 0; i < 3; i++ {
		n := &node{w: w, keyIdx: i, name: fmt.Sprintf("n%d", i), auto: &lockStrategy{locked: map[uint64]string{}}}
		n.st = newNodeStores(w)
		n.start()
		nw.nodes = append(nw.nodes, n)
	}
	nw.gPos = make([]int, 3)
	nw.finSeq = make([][]uint64, 3)
	nw.finPos = make([]int, 3)
	return nw
}

func (nw *netw) addMsg(m *netMsg) {
	if _, ok := nw.seen[m.key]; ok {
		return
	}
	m.id = len(nw.msgs)
	nw.seen[m.key] = m.id
	nw.msgs = append(nw.msgs, m)
	for j := range nw.nodes {
		if j != m.from {
			nw.queue = append(nw.queue, &delivery{msg: m.id, to: j})
		}
	}
}

// collect drains every node and turns new view content into messages.
func (nw *netw) collect() {
	for round := 0; round < 8; round++ {
		before := len(nw.msgs)
		for i, n := range nw.nodes {
			if n.e == nil {
				continue
			}
			n.drain()
			for ; nw.gPos[i] < len(n.gLog); nw.gPos[i]++ {
				u := n.gLog[nw.gPos[i]]
				for _, v := range []*tmconsensus.VersionedRoundView{u.Committing, u.Voting, u.NextRound, u.NilVotedRound} {
					if v == nil {
						continue
					}
					for _, ph := range v.ProposedHeaders {
						if len(ph.Signature) == 0 {
							continue
						}
						nw.addMsg(&netMsg{kind: "ph", h: ph.Header.Height, r: ph.Round, ph: ph, from: i, key: "ph|" + string(ph.Signature)})
					}
					for k, proofs := range map[string]map[string]gcrypto.CommonMessageSignatureProof{"p": v.PrevoteProofs, "c": v.PrecommitProofs} {
						targets := make([]string, 0, len(proofs))
						for t := range proofs {
							targets = append(targets, t)
						}
						sort.Strings(targets)
						for _, t := range targets {
							sp := proofs[t].AsSparse()
							for _, sg := range sp.Signatures {
								nw.addMsg(&netMsg{kind: k, h: v.Height, r: v.Round, target: t, sig: sg, pkh: sp.PubKeyHash, from: i,
									key: fmt.Sprintf("%s|%d|%d|%s|%s", k, v.Height, v.Round, t, sg.Sig)})
							}
						}
					}
				}
			}
		}
		synctest.Wait()
		if len(nw.msgs) == before {
			break
		}
	}
	// Finalization requests.
	for i, n := range nw.nodes {
		for ; nw.finPos[i] < len(n.trace); nw.finPos[i]++ {
			e := n.trace[nw.finPos[i]]
			if e.kind != "fin-req" {
				continue
			}
			if nw.fins[e.h] == nil {
				nw.fins[e.h] = map[string][]int{}
			}
			nw.fins[e.h][e.hash] = append(nw.fins[e.h][e.hash], i)
			nw.finSeq[i] = append(nw.finSeq[i], e.h)
		}
	}
}

func (nw *netw) deliver(d *delivery) string {
	m := nw.msgs[d.msg]
	n := nw.nodes[d.to]
	d.done = true
	nw.lastDelivered = d
	if n.e == nil {
		return "node-down"
	}
	switch m.kind {
	case "ph":
		return n.call("HandleProposedHeader", func(ctx context.Context) string { return n.e.HandleProposedHeader(ctx, m.ph).String() })
	case "p":
		msg := tmconsensus.PrevoteSparseProof{Height: m.h, Round: m.r, PubKeyHash: m.pkh, Proofs: map[string][]gcrypto.SparseSignature{m.target: {m.sig}}}
		return n.call("HandlePrevoteProofs", func(ctx context.Context) string { return n.e.HandlePrevoteProofs(ctx, msg).String() })
	default:
		msg := tmconsensus.PrecommitSparseProof{Height: m.h, Round: m.r, PubKeyHash: m.pkh, Proofs: map[string][]gcrypto.SparseSignature{m.target: {m.sig}}}
		return n.call("HandlePrecommitProofs", func(ctx context.Context) string { return n.e.HandlePrecommitProofs(ctx, msg).String() })
	}
}

// defaultAction: FIFO delivery; when nothing is left to deliver, fire the oldest outstanding timer (lowest node first).
func (nw *netw) defaultAction() (string, func() string) {
	// Drivers answer finalization requests first (as a separate step, so that the request itself is observed
	// by the agreement oracle before anything else happens).
	for i, n := range nw.nodes {
		if n.e != nil && len(n.pendingFin) > 0 {
			n := n
			return fmt.Sprintf("FIN:%d:%d", i, n.pendingFin[0].Header.Height), func() string { return n.finalize() }
		}
	}
	for _, d := range nw.queue {
		if !d.done {
			d := d
			m := nw.msgs[d.msg]
			return fmt.Sprintf("D:%d>%d(%s %d/%d %s from n%d)", d.msg, d.to, m.kind, m.h, m.r, h8(append([]byte(m.target), m.ph.Header.Hash...)), m.from), func() string { return nw.deliver(d) }
		}
	}
	// Loss with retransmission: once nothing else is in flight, a message lost by a DROP deviation is sent again
	// (each loss is made up for once).
	for _, d := range nw.queue {
		if d.dropped && !d.retx {
			d.retx = true
			nd := &delivery{msg: d.msg, to: d.to}
			nw.queue = append(nw.queue, nd)
			m := nw.msgs[nd.msg]
			return fmt.Sprintf("RETX:%d>%d(%s %d/%d %s from n%d)", nd.msg, nd.to, m.kind, m.h, m.r, h8(append([]byte(m.target), m.ph.Header.Hash...)), m.from), func() string { return nw.deliver(nd) }
		}
	}
	for i, n := range nw.nodes {
		if n.e == nil {
			continue
		}
		for _, t := range n.outstandingTimers() {
			if !nw.ignoredTimers[t] {
				t := t
				n := n
				return fmt.Sprintf("TF:%d:%s@%d/%d", i, t.kind, t.h, t.r), func() string {
					t.fired = true
					n.t("timer-fire", t.kind, t.h, t.r, "", "")
					close(t.ch)
					return "fired"
				}
			}
		}
	}
	return "", nil
}

// byzProposal builds a well-formed proposal by the Byzantine validator for (h, r) on top of what node j has committed.
func (nw *netw) byzProposal(h uint64, r uint32, variant string, src int) (tmconsensus.ProposedHeader, bool) {
	w := nw.w
	hd := tmconsensus.Header{
		Height:           h,
		ValidatorSet:     w.VS(h),
		NextValidatorSet: w.VS(h + 1),
		DataID:           []byte("byz-" + variant),
		PrevAppStateHash: []byte(fmt.Sprintf("app-%d", h-1)),
		PrevCommitProof:  tmconsensus.CommitProof{Proofs: map[string][]gcrypto.SparseSignature{}},
	}
	if h == initialH {
		g, _ := w.genesis.Header(w.hs)
		hd.PrevBlockHash = g.Hash
	} else {
		ch, err := nw.nodes[src].st.hs.LoadCommittedHeader(context.Background(), h-1)
		if err != nil {
			return tmconsensus.ProposedHeader{}, false
		}
		hd.PrevBlockHash = ch.Header.Hash
		hd.PrevCommitProof = ch.Proof.Clone()
	}
	w.rehash(&hd)
	return w.proposal(hd, r, byzIdx), true
}

func (nw *netw) position() (uint64, uint32) {
	// The lowest voting position among live nodes, from their last known voting views.
	var h uint64
	var r uint32
	first := true
	for _, n := range nw.nodes {
		v := n.lastVotingNet
		if v.Height == 0 {
			continue
		}
		if first || v.Height < h || (v.Height == h && v.Round < r) {
			h, r, first = v.Height, v.Round, false
		}
	}
	if first {
		return initialH, 0
	}
	return h, r
}

// deviation applies one non-default action; it reports whether the default action of this step is consumed.
func (nw *netw) deviation(op string) (res string, consumeDefault bool) {
	parts := strings.Split(op, ":")
	w := nw.w
	switch parts[0] {
	case "DROP":
		name, _ := nw.defaultAction()
		if strings.HasPrefix(name, "D:") {
			for _, d := range nw.queue {
				if !d.done {
					d.done = true
					d.dropped = true
					return "dropped " + name, true
				}
			}
		}
		if strings.HasPrefix(name, "TF:") {
			i, _ := strconv.Atoi(strings.Split(name, ":")[1])
			for _, t := range nw.nodes[i].outstandingTimers() {
				if !nw.ignoredTimers[t] {
					nw.ignoredTimers[t] = true
					return "ignored " + name, true
				}
			}
		}
		return "n/a", false
	case "LATE":
		for k, d := range nw.queue {
			if !d.done {
				nw.queue = append(append(append([]*delivery{}, nw.queue[:k]...), nw.queue[k+1:]...), d)
				return fmt.Sprintf("postponed D:%d>%d", d.msg, d.to), true
			}
		}
		return "n/a", false
	case "DUP":
		if nw.lastDelivered == nil {
			return "n/a", false
		}
		d := &delivery{msg: nw.lastDelivered.msg, to: nw.lastDelivered.to}
		return "dup " + nw.deliver(d), false
	case "TF":
		i, _ := strconv.Atoi(parts[1])
		n := nw.nodes[i]
		if n.e == nil {
			return "n/a", false
		}
		return n.fireTimer(), false
	case "RST":
		i, _ := strconv.Atoi(parts[1])
		n := nw.nodes[i]
		r := n.restart()
		nw.gPos[i] = len(n.gLog)
		return r, false
	case "BYZ":
		// BYZ:<ph|p|c>:<variant or target>:<to node or "all">
		h, r := nw.position()
		tos := []int{0, 1, 2}
		if parts[3] != "all" {
			i, _ := strconv.Atoi(parts[3])
			tos = []int{i}
		}
		var out []string
		for _, to := range tos {
			n := nw.nodes[to]
			if n.e == nil {
				continue
			}
			switch parts[1] {
			case "ph":
				ph, ok := nw.byzProposal(h, r, parts[2], to)
				if !ok {
					out = append(out, "n/a")
					continue
				}
				out = append(out, n.call("HandleProposedHeader", func(ctx context.Context) string { return n.e.HandleProposedHeader(ctx, ph).String() }))
			default:
				kind := parts[1][0]
				target := ""
				switch parts[2] {
				case "nil":
				case "X":
					target = "unknown-block-hash-0123456789abcdef"[:32]
				default:
					// "P<k>": the k-th proposed header known for (h, r), in hash order.
					var hs []string
					for _, m := range nw.msgs {
						if m.kind == "ph" && m.h == h && m.r == r {
							hs = append(hs, string(m.ph.Header.Hash))
						}
					}
					for _, v := range []string{"A", "B"} {
						if ph, ok := nw.byzProposal(h, r, v, to); ok {
							hs = append(hs, string(ph.Header.Hash))
						}
					}
					sort.Strings(hs)
					k, _ := strconv.Atoi(parts[2][1:])
					if k >= len(hs) {
						out = append(out, "n/a")
						continue
					}
					target = hs[k]
				}
				sg := w.voteSig(kind, h, r, target, byzIdx)
				pkh := string(w.VS(h).PubKeyHash)
				proofs := map[string][]gcrypto.SparseSignature{target: {sg}}
				if kind == 'p' {
					msg := tmconsensus.PrevoteSparseProof{Height: h, Round: r, PubKeyHash: pkh, Proofs: proofs}
					out = append(out, n.call("HandlePrevoteProofs", func(ctx context.Context) string { return n.e.HandlePrevoteProofs(ctx, msg).String() }))
				} else {
					msg := tmconsensus.PrecommitSparseProof{Height: h, Round: r, PubKeyHash: pkh, Proofs: proofs}
					out = append(out, n.call("HandlePrecommitProofs", func(ctx context.Context) string { return n.e.HandlePrecommitProofs(ctx, msg).String() }))
				}
			}
		}
		return strings.Join(out, ","), false
	}
	panic("unknown net deviation " + op)
}

// advState drives the scripted adversary "missing-proposal": a correct node (the victim, node 2) never receives the
// honest proposal of 1/0 but a competing block from the Byzantine validator, which also prevotes it there, while
// the rest of the network (helped by Byzantine votes for the honest block) commits the honest block; the victim
// learns of the commit through precommits only and waits for the header. A classic split-view attack; every
// single deviation is then explored on top of it.
type advState struct {
	fed, votedA, precommittedA, poked bool
	droppedPV                         int
}

func (nw *netw) adversary(st *advState) (did []string, consume bool) {
	const victim = 2
	w := nw.w
	var next *delivery
	for _, d := range nw.queue {
		if !d.done {
			next = d
			break
		}
	}
	honestA := ""
	for _, m := range nw.msgs {
		if m.kind == "ph" && m.h == initialH && m.r == 0 && m.from >= 0 && m.from != victim {
			honestA = string(m.ph.Header.Hash)
		}
	}
	byz := func(kind byte, target string, tos ...int) {
		sg := w.voteSig(kind, initialH, 0, target, byzIdx)
		pkh := string(w.VS(initialH).PubKeyHash)
		proofs := map[string][]gcrypto.SparseSignature{target: {sg}}
		for _, to := range tos {
			n := nw.nodes[to]
			if n.e == nil {
				continue
			}
			if kind == 'p' {
				msg := tmconsensus.PrevoteSparseProof{Height: initialH, Round: 0, PubKeyHash: pkh, Proofs: proofs}
				n.call("HandlePrevoteProofs", func(ctx context.Context) string { return n.e.HandlePrevoteProofs(ctx, msg).String() })
			} else {
				msg := tmconsensus.PrecommitSparseProof{Height: initialH, Round: 0, PubKeyHash: pkh, Proofs: proofs}
				n.call("HandlePrecommitProofs", func(ctx context.Context) string { return n.e.HandlePrecommitProofs(ctx, msg).String() })
			}
		}
	}
	if next != nil {
		m := nw.msgs[next.msg]
		if m.h == initialH && m.r == 0 && next.to == victim {
			if m.kind == "ph" && string(m.ph.Header.Hash) == honestA {
				next.done = true
				did = append(did, "adv: drop honest proposal to the victim")
				if !st.fed {
					st.fed = true
					if ph, ok := nw.byzProposal(initialH, 0, "B", victim); ok {
						v := nw.nodes[victim]
						v.call("HandleProposedHeader", func(ctx context.Context) string { return v.e.HandleProposedHeader(ctx, ph).String() })
						v.fireTimer()
						synctest.Wait()
						byz('p', string(ph.Header.Hash), victim)
						did = append(did, "adv: Byzantine proposal and prevote for it to the victim, its proposal timer fires")
					}
				}
				return did, true
			}
			if m.kind == "p" && m.target == honestA && honestA != "" {
				// The victim sees at most one prevote for the honest block.
				cnt := 0
				for _, d := range nw.queue {
					mm := nw.msgs[d.msg]
					if d.done && d.to == victim && mm.kind == "p" && mm.h == initialH && mm.r == 0 && mm.target == honestA && d != next {
						cnt++
					}
				}
				if cnt >= 1 || st.droppedPV == 0 {
					st.droppedPV++
					next.done = true
					return append(did, "adv: drop a prevote for the honest block to the victim"), true
				}
			}
		}
	}
	if honestA != "" && !st.votedA {
		st.votedA = true
		byz('p', honestA, 0, 1)
		did = append(did, "adv: Byzantine prevote for the honest block to nodes 0 and 1")
	}
	if honestA != "" && st.votedA && !st.precommittedA {
		n := 0
		for _, m := range nw.msgs {
			if m.kind == "c" && m.h == initialH && m.r == 0 && m.target == honestA {
				n++
			}
		}
		if n >= 2 {
			st.precommittedA = true
			byz('c', honestA, 0, 1, victim)
			did = append(did, "adv: Byzantine precommit for the honest block to everyone")
		}
	}
	if st.precommittedA && !st.poked && next == nil {
		st.poked = true
		byz('p', "", victim)
		did = append(did, "adv: a late Byzantine nil prevote to the victim (one more view update)")
	}
	return did, false
}

// advForged drives the scripted adversary "forged-relay": the Byzantine validator relays, to one correct node (the
// victim, node 2) and ahead of the original, a copy of every honest proposal in which the listed next validators were
// rewritten (its own power raised beyond everyone else's) while hashes and signature are left as they were; at each
// later height, when the victim proposes, the Byzantine validator proposes its own block to the victim and precommits
// it there, while it supports the victim's block at the other nodes. A node that took the rewritten list for the real
// one would weigh nobody's precommits but that one.
type advForged struct {
	forged   map[int]bool
	attacked map[uint64]bool
	echoed   map[int]bool
	// pk: instead of the listed powers the copy's redundant PubKeys list is rewritten (keys the Byzantine validator
	// holds: two outside keys and its own); the later attack then signs a precommit with the planted key of every
	// position.
	pk bool
}

// plantedKey: the key the forged-relay-pk adversary plants at position i of a rewritten PubKeys list.
func (w *world) plantedKey(i int) gcrypto.PubKey {
	ks := []gcrypto.PubKey{w.keys[nKeysPool].Val.PubKey, w.keys[nKeysPool+1].Val.PubKey, w.keys[byzIdx].Val.PubKey}
	return ks[i%len(ks)]
}

func (nw *netw) adversaryForged(st *advForged) (did []string, consume bool) {
	const victim = 2
	w := nw.w
	v := nw.nodes[victim]
	if v.e == nil {
		return nil, false
	}
	for _, d := range nw.queue {
		if d.done {
			continue
		}
		m := nw.msgs[d.msg]
		if st.pk && d.to == victim && st.attacked[m.h] {
			// Once it has been shown the Byzantine block, the victim is cut off from that height's traffic.
			d.done = true
			return []string{fmt.Sprintf("adv: the victim is partitioned from height %d: %s %d/%d lost", m.h, m.kind, m.h, m.r)}, true
		}
		if m.kind == "ph" && d.to == victim && m.from >= 0 && !st.forged[m.id] {
			st.forged[m.id] = true
			f := m.ph
			if st.pk {
				pks := make([]gcrypto.PubKey, len(f.Header.NextValidatorSet.PubKeys))
				for i := range pks {
					pks[i] = w.plantedKey(i)
				}
				f.Header.NextValidatorSet.PubKeys = pks
			} else {
				vals := append([]tmconsensus.Validator{}, f.Header.NextValidatorSet.Validators...)
				for i := range vals {
					if vals[i].PubKey.Equal(w.keys[byzIdx].Val.PubKey) {
						vals[i].Power = 1_000_000_000
					}
				}
				f.Header.NextValidatorSet.Validators = vals
			}
			r := v.call("HandleProposedHeader", func(ctx context.Context) string { return v.e.HandleProposedHeader(ctx, f).String() })
			did = append(did, fmt.Sprintf("adv: copy of the proposal %d/%d %s with rewritten next validators to the victim first => %s", m.h, m.r, h8(m.ph.Header.Hash), r))
			// ... and it votes for that block everywhere, so that the block does not depend on the victim's votes.
			if bi := w.idxOf(m.h, byzIdx); bi >= 0 {
				target := string(m.ph.Header.Hash)
				pkh := string(w.VS(m.h).PubKeyHash)
				for _, n := range nw.nodes {
					if n.e == nil {
						continue
					}
					n := n
					pv := tmconsensus.PrevoteSparseProof{Height: m.h, Round: m.r, PubKeyHash: pkh, Proofs: map[string][]gcrypto.SparseSignature{target: {w.voteSig('p', m.h, m.r, target, bi)}}}
					n.call("HandlePrevoteProofs", func(ctx context.Context) string { return n.e.HandlePrevoteProofs(ctx, pv).String() })
					pc := tmconsensus.PrecommitSparseProof{Height: m.h, Round: m.r, PubKeyHash: pkh, Proofs: map[string][]gcrypto.SparseSignature{target: {w.voteSig('c', m.h, m.r, target, bi)}}}
					n.call("HandlePrecommitProofs", func(ctx context.Context) string { return n.e.HandlePrecommitProofs(ctx, pc).String() })
				}
				did = append(did, "adv: Byzantine prevote and precommit for that block to everyone")
			}
		}
		break
	}
	// The victim's own proposal of a later height: the Byzantine validator at once proposes a block of its own to
	// the victim and precommits it there, and supports the victim's block at the other two nodes.
	for _, m := range nw.msgs {
		if m.kind != "ph" || (m.from != victim && !st.pk) || m.h <= initialH || st.attacked[m.h] || w.idxOf(m.h, byzIdx) < 0 || v.curH != m.h {
			continue
		}
		h, r := m.h, m.r
		st.attacked[h] = true
		bi := w.idxOf(h, byzIdx)
		pkh := string(w.VS(h).PubKeyHash)
		if ph, ok := nw.byzProposal(h, r, "F", victim); ok {
			r1 := v.call("HandleProposedHeader", func(ctx context.Context) string { return v.e.HandleProposedHeader(ctx, ph).String() })
			synctest.Wait()
			target := string(ph.Header.Hash)
			sigs := []gcrypto.SparseSignature{w.voteSig('c', h, r, target, bi)}
			if st.pk {
				// its own signature filed under every validator's key id
				sigs = nil
				for i := range w.VS(h).Validators {
					sg, err := w.signerFor(w.plantedKey(i)).Sign(context.Background(), w.voteContent('c', h, r, target))
					if err != nil {
						panic(err)
					}
					sigs = append(sigs, gcrypto.SparseSignature{KeyID: keyID(i), Sig: sg})
				}
			}
			msg := tmconsensus.PrecommitSparseProof{Height: h, Round: r, PubKeyHash: pkh,
				Proofs: map[string][]gcrypto.SparseSignature{target: sigs}}
			r2 := v.call("HandlePrecommitProofs", func(ctx context.Context) string { return v.e.HandlePrecommitProofs(ctx, msg).String() })
			did = append(did, fmt.Sprintf("adv: Byzantine proposal for %d/%d and its own precommit for it to the victim => %s, %s", h, r, r1, r2))
		}
		target := string(m.ph.Header.Hash)
		for _, n := range nw.nodes[:victim] {
			if n.e == nil {
				continue
			}
			n := n
			pv := tmconsensus.PrevoteSparseProof{Height: h, Round: r, PubKeyHash: pkh, Proofs: map[string][]gcrypto.SparseSignature{target: {w.voteSig('p', h, r, target, bi)}}}
			n.call("HandlePrevoteProofs", func(ctx context.Context) string { return n.e.HandlePrevoteProofs(ctx, pv).String() })
			pc := tmconsensus.PrecommitSparseProof{Height: h, Round: r, PubKeyHash: pkh, Proofs: map[string][]gcrypto.SparseSignature{target: {w.voteSig('c', h, r, target, bi)}}}
			n.call("HandlePrecommitProofs", func(ctx context.Context) string { return n.e.HandlePrecommitProofs(ctx, pc).String() })
		}
		did = append(did, "adv: Byzantine prevote and precommit for the victim's block to nodes 0 and 1")
	}
	// From the attacked height on the Byzantine validator echoes node 0's votes (same kind, round and target, nil
	// included) to nodes 0 and 1, so that the rest of the network keeps deciding without the victim.
	for _, m := range nw.msgs {
		if (m.kind != "p" && m.kind != "c") || !st.attacked[m.h] || st.echoed[m.id] || len(m.sig.KeyID) != 2 {
			continue
		}
		bi := w.idxOf(m.h, byzIdx)
		if bi < 0 || int(m.sig.KeyID[0])<<8|int(m.sig.KeyID[1]) != w.idxOf(m.h, 0) {
			continue
		}
		st.echoed[m.id] = true
		pkh := string(w.VS(m.h).PubKeyHash)
		proofs := map[string][]gcrypto.SparseSignature{m.target: {w.voteSig(m.kind[0], m.h, m.r, m.target, bi)}}
		for _, n := range nw.nodes[:victim] {
			if n.e == nil {
				continue
			}
			n := n
			if m.kind == "p" {
				msg := tmconsensus.PrevoteSparseProof{Height: m.h, Round: m.r, PubKeyHash: pkh, Proofs: proofs}
				n.call("HandlePrevoteProofs", func(ctx context.Context) string { return n.e.HandlePrevoteProofs(ctx, msg).String() })
			} else {
				msg := tmconsensus.PrecommitSparseProof{Height: m.h, Round: m.r, PubKeyHash: pkh, Proofs: proofs}
				n.call("HandlePrecommitProofs", func(ctx context.Context) string { return n.e.HandlePrecommitProofs(ctx, msg).String() })
			}
		}
		did = append(did, fmt.Sprintf("adv: Byzantine echo of node 0's %s %d/%d %s to nodes 0 and 1", m.kind, m.h, m.r, h8([]byte(m.target))))
	}
	return did, false
}

func init() {
	registry.Execs["net"] = execNet
}

// execNet: Hist holds deviations "step:op"; Args: heights (stop when every node finalized that many), maxsteps.
func execNet(t *testing.T, job vx.Job) (res vx.Result) {
	synctest.Test(t, func(t *testing.T) {
		res = runNet(job)
	})
	return res
}

func runNet(job vx.Job) (res vx.Result) {
	heights, _ := strconv.Atoi(job.Args["heights"])
	if heights == 0 {
		heights = 2
	}
	maxSteps, _ := strconv.Atoi(job.Args["maxsteps"])
	if maxSteps == 0 {
		maxSteps = 400
	}
	devs := map[int][]string{}
	for _, d := range job.Hist {
		j := strings.IndexByte(d, ':')
		p, _ := strconv.Atoi(d[:j])
		devs[p] = append(devs[p], d[j+1:])
	}
	w := newWorld()
	nw := newNet(w)
	defer func() {
		for _, n := range nw.nodes {
			n.stop()
		}
	}()
	for _, n := range nw.nodes {
		if n.startErr != "" {
			res.HarnessErr = "engine failed to start: " + n.startErr
			return
		}
	}
	violate := func(sig, msg string, step int) {
		res.Violate("C03", sig, fmt.Sprintf("step %d: %s", step, msg), step)
	}
	check := func(step int) {
		for i, n := range nw.nodes {
			if len(n.gLog) > 0 {
				for k := len(n.gLog) - 1; k >= 0; k-- {
					if n.gLog[k].Voting != nil {
						n.lastVotingNet = n.gLog[k].Voting.Clone()
						break
					}
				}
			}
			_ = i
		}
		for h, byHash := range nw.fins {
			if len(byHash) > 1 {
				var d []string
				for hash, ns := range byHash {
					d = append(d, fmt.Sprintf("%s by nodes %v", h8([]byte(hash)), ns))
				}
				sort.Strings(d)
				violate("different-blocks-finalized", fmt.Sprintf("height %d finalized as %s", h, strings.Join(d, " and ")), step)
			}
		}
		for i, seq := range nw.finSeq {
			for k := 1; k < len(seq); k++ {
				if seq[k] != seq[k-1]+1 && seq[k] != seq[k-1] {
					violate("finalization-heights-not-contiguous", fmt.Sprintf("node %d was asked to finalize heights %v", i, seq), step)
				}
			}
			if len(seq) > 0 && seq[0] != initialH {
				violate("finalization-does-not-start-at-initial-height", fmt.Sprintf("node %d first finalized height %d", i, seq[0]), step)
			}
		}
		// Committed header stores agree.
		for h := uint64(initialH); h < uint64(initialH+8); h++ {
			var first string
			var who int
			for i, n := range nw.nodes {
				ch, err := n.st.hs.LoadCommittedHeader(context.Background(), h)
				if err != nil {
					continue
				}
				if first == "" {
					first, who = string(ch.Header.Hash), i
				} else if first != string(ch.Header.Hash) {
					violate("different-headers-committed", fmt.Sprintf("height %d: node %d committed %s, node %d committed %s", h, who, h8([]byte(first)), i, h8(ch.Header.Hash)), step)
				}
			}
		}
		for i, n := range nw.nodes {
			if n.blocked != "" {
				res.Violate("C09", "net-handler-stuck", fmt.Sprintf("node %d: %s", i, n.blocked), step)
				n.blocked = ""
			}
			if n.startErr != "" {
				res.Violate("C10", "restart-failed:"+normRestartErr(n.startErr), fmt.Sprintf("node %d: %s", i, n.startErr), step)
			}
		}
	}
	nw.collect()
	check(0)
	var adv *advState
	if job.Args["adversary"] == "missing-proposal" {
		adv = &advState{}
	}
	var advF *advForged
	if job.Args["adversary"] == "forged-relay" || job.Args["adversary"] == "forged-relay-pk" {
		advF = &advForged{forged: map[int]bool{}, attacked: map[uint64]bool{}, echoed: map[int]bool{}, pk: job.Args["adversary"] == "forged-relay-pk"}
	}
	steps := 0
	for ; steps < maxSteps; steps++ {
		for _, n := range nw.nodes {
			n.step = steps
		}
		consumed := false
		if adv != nil || advF != nil {
			var did []string
			var c bool
			if adv != nil {
				did, c = nw.adversary(adv)
			} else {
				did, c = nw.adversaryForged(advF)
			}
			if len(did) > 0 {
				synctest.Wait()
				for _, d := range did {
					nw.trace = append(nw.trace, fmt.Sprintf("s%d %s", steps, d))
				}
				nw.collect()
				check(steps)
			}
			consumed = c
		}
		for _, op := range devs[steps] {
			r, c := nw.deviation(op)
			synctest.Wait()
			nw.trace = append(nw.trace, fmt.Sprintf("s%d %s => %s", steps, op, r))
			consumed = consumed || c
			nw.collect()
			check(steps)
		}
		if !consumed {
			name, act := nw.defaultAction()
			if act == nil {
				break
			}
			r := act()
			synctest.Wait()
			nw.trace = append(nw.trace, fmt.Sprintf("s%d %s => %s", steps, name, r))
			nw.collect()
			check(steps)
		}
		// A disagreement is final: stop here, so that a later crash of the (already wrong) node cannot take the
		// finding down with the worker.
		agree := true
		for _, v := range res.Viol {
			if v.Prop == "C03" {
				agree = false
			}
		}
		if !agree {
			steps++
			break
		}
		done := true
		for _, seq := range nw.finSeq {
			if len(seq) == 0 || seq[len(seq)-1] < uint64(heights) {
				done = false
			}
		}
		if done {
			steps++
			break
		}
	}
	res.Count("steps", int64(steps))
	res.Count("messages", int64(len(nw.msgs)))
	var fk []string
	for h, byHash := range nw.fins {
		for hash, ns := range byHash {
			fk = append(fk, fmt.Sprintf("%d:%s:%v", h, h8([]byte(hash)), ns))
		}
	}
	sort.Strings(fk)
	res.Key = strings.Join(fk, " ")
	res.Outcome = fmt.Sprintf("fin=%v steps=%d", len(nw.fins), steps)
	minFin := 99
	for _, seq := range nw.finSeq {
		if len(seq) < minFin {
			minFin = len(seq)
		}
	}
	res.NonTrivial = minFin >= 1
	res.Trace = nw.trace
	if os.Getenv("VERIF_NODETRACE") != "" {
		for i, n := range nw.nodes {
			for _, e := range n.trace {
				res.Trace = append(res.Trace, fmt.Sprintf("n%d s%d %s %s %d/%d %s %s", i, e.step, e.kind, e.a, e.h, e.r, h8([]byte(e.hash)), e.x))
			}
		}
	}
	if job.Args["results"] != "1" && len(res.Viol) == 0 {
		res.Trace = nil
	}
	res.Counters["min_heights_finalized_by_every_node"] = int64(minFin)
	return res
}
