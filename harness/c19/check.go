//go:build verif

package c19

import (
	"bytes"
	"encoding/json"
	"fmt"
	"os"
	"os/exec"
	"path/filepath"
	"regexp"
	"sort"
	"strconv"
	"strings"
	"sync"
	"testing"
	"time"

	"github.com/gordian-engine/gordian/internal/zzverif/vx"
)

func init() {
	registry.Execs["c19seq"] = execSeq
	registry.Execs["c19conc"] = execConc
	registry.Execs["c19race"] = execRaceReplay
	registry.Checks["C19"] = checkC19
}

type concPlan struct {
	shape string
	alpha string
	chunk int // programs per job
	setup int // -1: both setups
}

func checkC19(c *vx.Ctx) {
	c.Level = "model_checking"
	c.Pool.JobWall = 10 * time.Minute // jobs take seconds; the default 2 min is too tight on an overloaded machine
	depth := 5
	plans := []concPlan{{"1,1", "t", 64, -1}, {"2,1", "t", 250, -1}, {"1,1,1", "q", 10, -1}, {"2,2", "q", 50, 1}}
	raceShapes, raceAlpha, raceShards := "1,1;1,1,1", "q", 4
	if !c.Quick() {
		depth = 6
		plans = []concPlan{{"1,1", "t", 64, -1}, {"2,1", "t", 250, -1}, {"1,1,1", "t", 10, -1}, {"2,2", "t", 50, -1}, {"2,1,1", "q", 2, 1}}
		raceShapes, raceAlpha, raceShards = "1,1;2,1;1,1,1", "q", 6
	}

	// (3) free-running -race companion, started first and collected at the end.
	type raceOut struct {
		shard int
		out   string
		err   error
	}
	raceExe := os.Getenv("VERIF_RACE_EXE")
	var raceWG sync.WaitGroup
	raceRes := make([]raceOut, raceShards)
	if raceExe != "" {
		for i := 0; i < raceShards; i++ {
			i := i
			raceWG.Add(1)
			go func() {
				defer raceWG.Done()
				out, err := runRace(raceExe, fmt.Sprintf("%d/%d", i, raceShards), raceShapes, raceAlpha, "", 200)
				raceRes[i] = raceOut{i, out, err}
			}()
		}
	}

	// (1) sequential jobs: one per (family, initial base, 2-operation prefix).
	var jobs []vx.Job
	var prefixEdges int64
	for _, f := range families {
		for _, b0 := range f.Bases {
			for _, o1 := range f.seqOps(nil) {
				prefixEdges++
				_, p1 := modelAfter(f, b0, []op{o1})
				for _, o2 := range f.seqOps(p1) {
					prefixEdges++
					jobs = append(jobs, vx.Job{Exec: "c19seq", Hist: []string{o1.String(), o2.String()},
						Args: map[string]string{"fam": f.Name, "base0": strconv.Itoa(b0), "depth": strconv.Itoa(depth)}})
				}
			}
		}
	}
	nSeqJobs := len(jobs)
	// Interleave the sequential shards of the (family, initial base) groups so that a run cut by the deadline is balanced.
	{
		groups := map[string][]vx.Job{}
		var order []string
		for _, j := range jobs {
			k := j.Args["fam"] + "/" + j.Args["base0"]
			if _, ok := groups[k]; !ok {
				order = append(order, k)
			}
			groups[k] = append(groups[k], j)
		}
		jobs = jobs[:0]
		for i := 0; len(jobs) < nSeqJobs; i++ {
			for _, k := range order {
				if i < len(groups[k]) {
					jobs = append(jobs, groups[k][i])
				}
			}
		}
	}

	// (2) concurrent jobs: program ranges per (family, setup, shape).
	var concJobs []vx.Job
	for _, pl := range plans {
		for _, f := range families {
			n := len(programs(f.concAlphabet(pl.alpha), parseShape(pl.shape)))
			for si := range f.setups() {
				if pl.setup >= 0 && si != pl.setup {
					continue
				}
				for lo := 0; lo < n; lo += pl.chunk {
					concJobs = append(concJobs, vx.Job{Exec: "c19conc", Args: map[string]string{"fam": f.Name, "setup": strconv.Itoa(si),
						"alpha": pl.alpha, "shape": pl.shape, "lo": strconv.Itoa(lo), "hi": strconv.Itoa(min(lo+pl.chunk, n))}})
				}
			}
		}
	}
	// Heavy concurrent shapes first for load balance.
	for i, j := 0, len(concJobs)-1; i < j; i, j = i+1, j-1 {
		concJobs[i], concJobs[j] = concJobs[j], concJobs[i]
	}
	jobs = append(concJobs, jobs...)

	type foundViol struct {
		v   vx.Violation
		job vx.Job
	}
	var found []foundViol
	states := map[string]struct{}{}
	var sampled int
	sampleKinds := map[string]int{}
	batch := 512
	done := 0
	for lo := 0; lo < len(jobs); lo += batch {
		if c.OverBudget() {
			c.Cap(fmt.Sprintf("%d of %d jobs not run", len(jobs)-lo, len(jobs)))
			break
		}
		hi := min(lo+batch, len(jobs))
		rs := c.Pool.Map(jobs[lo:hi])
		for i, r := range rs {
			job := jobs[lo+i]
			done++
			if r.Crash != "" {
				// A panic or bubble deadlock on a goroutine of the buffer: "holds under any concurrent mix" fails.
				c.Violate(vx.Violation{Prop: "C19", Sig: "crash/" + vx.CrashSig(r.Crash), Msg: "worker died while running this shard:\n" + r.Crash}, job)
				r.Crash = ""
				r.Outcome = "crash"
			}
			// Violations are reported after the loop, shortest witness first (Absorb would keep the first one seen).
			for _, v := range r.Viol {
				found = append(found, foundViol{v, job})
			}
			r.Viol = nil
			c.Absorb(job, r)
			var o seqObs
			if len(r.Obs) > 0 && json.Unmarshal(r.Obs, &o) == nil {
				for _, s := range o.States {
					states[s] = struct{}{}
				}
				for _, k := range o.NT {
					c.NonTrivial(job.Exec + "|" + k)
				}
				if o.Sample != nil && sampleKinds[job.Exec] < 2 && sampled < 5 {
					o.Sample["part"] = job.Exec
					c.Sample(o.Sample)
					sampleKinds[job.Exec]++
					sampled++
				}
			}
		}
	}
	sort.SliceStable(found, func(i, j int) bool {
		if found[i].v.Step != found[j].v.Step {
			return found[i].v.Step < found[j].v.Step
		}
		return len(found[i].v.Msg) < len(found[j].v.Msg)
	})
	for _, fv := range found {
		if fv.v.Prop == c.Prop {
			c.Violate(fv.v, replayJob(fv.job, fv.v))
		}
	}

	// collect the race pass
	raceWG.Wait()
	var racePrograms, raceRuns int64
	if raceExe == "" {
		c.Cap("VERIF_RACE_EXE not set: the free-running -race companion pass did not run")
	}
	reDone := regexp.MustCompile(`C19RACE-DONE programs=(\d+) runs=(\d+) nontrivial=(\d+)`)
	for _, ro := range raceRes {
		if raceExe == "" {
			break
		}
		job := vx.Job{Exec: "c19race", Args: map[string]string{"shard": fmt.Sprintf("%d/%d", ro.shard, raceShards), "shapes": raceShapes, "alpha": raceAlpha}}
		absorbRaceOutput(c, job, ro.out, ro.err, reDone, &racePrograms, &raceRuns)
	}

	seqLeaves := c.Counter("seq_sequences")
	concExecs := c.Counter("conc_executions")
	c.Extra["jobs"] = done
	c.Evaluations = seqLeaves + concExecs + raceRuns
	c.Traces = seqLeaves + concExecs
	c.States = int64(len(states))
	c.Transitions = c.Counter("seq_tree_edges") + prefixEdges + c.Counter("conc_schedule_tree_edges")
	c.Extra["seq_depth"] = depth
	c.Extra["seq_sequences_nontrivial"] = c.Counter("seq_sequences_nontrivial")
	c.Extra["conc_plans"] = fmt.Sprint(plans)
	c.Extra["race_pass"] = map[string]any{"ran": raceExe != "", "programs": racePrograms, "free_running_runs": raceRuns, "shapes": raceShapes, "reps_per_program": 200}
	c.Extra["explanation"] = "states = distinct abstract buffer states (family, base, pending list) reached on the real buffer in the sequential part or as final state of a concurrent history; " +
		"transitions = distinct edges of the explored trees: the operation-sequence tree (every edge executed on the real buffer with the oracle after it) plus, per concurrent program, the schedule tree; " +
		"traces_validated_against_impl = complete operation sequences + complete concurrent histories checked against the reference; evaluations additionally counts the free-running -race runs"
	c.Rule = fmt.Sprintf("(1) sequential: for 3 semantics families x 3 initial bases, EVERY sequence of exactly %d operations over {AddTx(5 txs), Buffered, Rebase(3 bases x all subsets of the distinct pending ids x with/without a foreign tx)} "+
		"(alphabet depends on the reference's pending list) is run on a fresh real gtxbuf.Buffer in a synctest bubble with the oracle after every operation; "+
		"(2) concurrent: for the listed shapes (ops per thread) and alphabets every program up to renaming of equal-length threads, 2 setups per family, ALL interleavings of the gchan SendC/RecvC points by vx.ExploreSchedules(-1), each history checked for linearizability by brute force; "+
		"(3) the same bodies free-running 200x per program in the -race build. "+
		"distinct_nontrivial counts distinct keys of two kinds: sequential (state, operation) pairs where the operation is a Rebase or AddTx on a NON-EMPTY pending list (so the verdict depends on order / re-application), "+
		"and concurrent (family, setup, program) triples that had at least one history with two overlapping operations of different threads and a mutating operation. It is a conservative (coarser) count than the number of distinct non-trivial sequences/histories, which are in counters seq_sequences_nontrivial / conc_executions_nontrivial.", depth)
	c.Assume("the harness's apply functions are deterministic and pure; invalid transactions are reported wrapped in gtxbuf.TxInvalidError as the package requires (non-wrapped, 'fatal' errors are out of scope)")
	c.Assume("testing/synctest: Wait returns only when every goroutine of the bubble is durably blocked, so the kernel goroutine is quiescent between two releases of the cooperative scheduler")
	c.Assume("unsynchronised accesses are invisible to the cooperative scheduler; they are covered only by the free-running -race pass (a sampling pass, not exhaustive)")
	c.Assume("programs that differ only by renaming threads of equal length have the same histories (symmetry reduction)")
}

func runRace(exe, shard, shapes, alpha, prog string, reps int) (string, error) {
	cmd := exec.Command(exe, "-test.run", "^TestVerif$", "-test.timeout", "0")
	env := []string{}
	for _, e := range os.Environ() {
		if strings.HasPrefix(e, "VERIF_ROLE=") || strings.HasPrefix(e, "GOMAXPROCS=") {
			continue
		}
		env = append(env, e)
	}
	env = append(env, "C19_RACE="+shard, "C19_RACE_SHAPES="+shapes, "C19_RACE_ALPHA="+alpha, "C19_RACE_REPS="+strconv.Itoa(reps), "GOMAXPROCS=4",
		"GORACE=halt_on_error=0")
	if prog != "" {
		env = append(env, "C19_RACE_PROG="+prog)
	}
	cmd.Env = env
	var buf bytes.Buffer
	cmd.Stdout = &buf
	cmd.Stderr = &buf
	err := cmd.Run()
	return buf.String(), err
}

var reRaceFrame = regexp.MustCompile(`(?m)^\s+(github\.com/gordian-engine/gordian/[^\s(]+(?:\([^)]*\))?[^\s(]*)\(`)

func absorbRaceOutput(c *vx.Ctx, job vx.Job, out string, err error, reDone *regexp.Regexp, programs, runs *int64) {
	if strings.Contains(out, "DATA RACE") {
		// signature: first gordian frame outside the harness in the first report
		frame := ""
		for _, m := range reRaceFrame.FindAllStringSubmatch(out, -1) {
			if strings.Contains(m[1], "/zzverif/") {
				continue
			}
			frame = strings.TrimPrefix(m[1], "github.com/gordian-engine/gordian/")
			break
		}
		i := strings.Index(out, "WARNING: DATA RACE")
		if i < 0 {
			i = strings.Index(out, "DATA RACE")
		}
		rep := out[i:]
		if len(rep) > 5000 {
			rep = rep[:5000]
		}
		c.Violate(vx.Violation{Prop: "C19", Sig: "race/data-race @" + frame, Msg: "the -race build reported a data race while the thread bodies ran free-running:\n" + rep}, job)
	}
	for _, line := range strings.Split(out, "\n") {
		if strings.HasPrefix(line, "C19RACE-VIOL ") {
			rest := strings.TrimPrefix(line, "C19RACE-VIOL ")
			sig, msg, _ := strings.Cut(rest, "\t")
			c.Violate(vx.Violation{Prop: "C19", Sig: sig, Msg: msg}, job)
		}
	}
	if m := reDone.FindStringSubmatch(out); m != nil {
		p, _ := strconv.ParseInt(m[1], 10, 64)
		r, _ := strconv.ParseInt(m[2], 10, 64)
		nt, _ := strconv.ParseInt(m[3], 10, 64)
		*programs += p
		*runs += r
		c.AddCounter("race_programs", p)
		c.AddCounter("race_runs", r)
		c.AddCounter("race_runs_with_mutating_op", nt)
		return
	}
	if strings.Contains(out, "DATA RACE") {
		return
	}
	// No summary line: the race process died. A panic inside the buffer is a finding, anything else a harness error.
	if strings.Contains(out, "panic:") || strings.Contains(out, "fatal error:") {
		c.Violate(vx.Violation{Prop: "C19", Sig: "race/crash/" + vx.CrashSig(out), Msg: "the free-running -race process crashed:\n" + tail(out, 4000)}, job)
		return
	}
	c.HarnessError(fmt.Sprintf("race pass %v produced no summary (err=%v): %s", job.Args, err, tail(out, 1500)))
}

func tail(s string, n int) string {
	if len(s) > n {
		return s[len(s)-n:]
	}
	return s
}

// execRaceReplay re-runs one shard of the -race pass (replay of a race violation). It needs the -race binary of the last build.
func execRaceReplay(t *testing.T, job vx.Job) (res vx.Result) {
	exe := os.Getenv("VERIF_RACE_EXE")
	if exe == "" {
		exe = filepath.Join(os.Getenv("VERIF_BUILD_DIR"), "c19.race.test")
	}
	if _, err := os.Stat(exe); err != nil {
		res.HarnessErr = "no -race binary at " + exe + " (run ./vcheck build c19 first)"
		return
	}
	out, _ := runRace(exe, job.Args["shard"], job.Args["shapes"], job.Args["alpha"], job.Args["prog"], 200)
	fmt.Println(tail(out, 8000))
	if strings.Contains(out, "DATA RACE") {
		frame := ""
		for _, m := range reRaceFrame.FindAllStringSubmatch(out, -1) {
			if strings.Contains(m[1], "/zzverif/") {
				continue
			}
			frame = strings.TrimPrefix(m[1], "github.com/gordian-engine/gordian/")
			break
		}
		res.Violate("C19", "race/data-race @"+frame, "data race reported", 0)
	}
	for _, line := range strings.Split(out, "\n") {
		if strings.HasPrefix(line, "C19RACE-VIOL ") {
			sig, msg, _ := strings.Cut(strings.TrimPrefix(line, "C19RACE-VIOL "), "\t")
			res.Violate("C19", sig, msg, 0)
		}
	}
	return
}

var (
	reSeqWitness  = regexp.MustCompile(`initial base (-?\d+), .*?\(ops: ([^)]*)\)`)
	reConcWitness = regexp.MustCompile(`program \{([^}]*)\}`)
)

// replayJob narrows a shard job to the exact witness named in the violation message, so that a replay runs just that
// operation sequence (c19seq, single=1) or all schedules of just that program (c19conc, prog=...).
func replayJob(job vx.Job, v vx.Violation) vx.Job {
	switch job.Exec {
	case "c19seq":
		if m := reSeqWitness.FindStringSubmatch(v.Msg); m != nil {
			return vx.Job{Exec: "c19seq", Hist: strings.Fields(m[2]), Args: map[string]string{"fam": job.Args["fam"], "base0": m[1], "single": "1"}}
		}
	case "c19conc":
		if m := reConcWitness.FindStringSubmatch(v.Msg); m != nil {
			return vx.Job{Exec: "c19conc", Args: map[string]string{"fam": job.Args["fam"], "setup": job.Args["setup"], "prog": m[1]}}
		}
	}
	return job
}
