//go:build verif

package c19

import (
	"os"
	"testing"

	"github.com/gordian-engine/gordian/internal/zzverif/vx"
)

var registry = vx.Registry{
	Pkg:    "c19",
	Execs:  map[string]vx.Executor{},
	Checks: map[string]func(*vx.Ctx){},
}

func TestVerif(t *testing.T) {
	// Free-running companion pass in the -race build (see race.go); selected by the orchestrator of the C19 check.
	if os.Getenv("C19_RACE") != "" {
		raceMain(t)
		return
	}
	vx.Main(t, registry)
}
