//go:build verif

package c19

import (
	"context"
	"fmt"
	"sort"
	"strconv"
	"strings"

	"github.com/gordian-engine/gordian/gdriver/gtxbuf"
)

// C19 — the tx buffer's pending list always applies cleanly in order.
//
// This file holds everything that is NOT the system under test:
// the three state/transaction semantics families, the operation alphabet and the
// sequential reference model (recomputed with the same user apply function the buffer is given).

// st and tx are the S and T type arguments of gtxbuf.Buffer.
type st struct{ V int }
type tx struct{ ID int }

const foreignTx = 9 // a transaction id that is never added; used as the "foreign" entry of applied lists

// family is one semantics: states are ints, transactions are ids 0..NTx-1.
type family struct {
	Name   string
	Bases  []int // the three base states; Bases[0] is also used as an initial state
	NTx    int
	TxName []string
	Apply  func(s, id int) (int, bool)

	// concurrent part
	Prelude []int // a short list of txs that applies in order on Bases[0]
	ConcTx  []int // the adds of the quick concurrent alphabet
	ConcApp int   // the tx used in the non-empty applied list of the concurrent alphabet
}

var families = []*family{
	{
		// Counter: inc always applies, dec only when positive, "zero" only at exactly 0 (sets the counter to 2).
		// Validity is order dependent (dec before/after inc) and changes after a rebase to a smaller base.
		Name: "ctr", Bases: []int{2, 1, 0}, NTx: 5,
		TxName: []string{"inc_a", "inc_b", "dec_a", "dec_b", "zero"},
		Apply: func(s, id int) (int, bool) {
			switch id {
			case 0, 1:
				return s + 1, true
			case 2, 3:
				if s > 0 {
					return s - 1, true
				}
			case 4:
				if s == 0 {
					return 2, true
				}
			}
			return 0, false
		},
		Prelude: []int{2}, ConcTx: []int{0, 2, 4}, ConcApp: 2,
	},
	{
		// Flags A=1 B=2 C=4 D=8. setA needs !A; setB needs A, !B and conflicts with C; setC needs !C and conflicts with B;
		// clrA needs A; setD needs B and !D.
		Name: "flg", Bases: []int{0, 1, 5}, NTx: 5,
		TxName: []string{"setA", "setB", "setC", "clrA", "setD"},
		Apply: func(s, id int) (int, bool) {
			has := func(f int) bool { return s&f != 0 }
			switch id {
			case 0:
				if !has(1) {
					return s | 1, true
				}
			case 1:
				if has(1) && !has(2) && !has(4) {
					return s | 2, true
				}
			case 2:
				if !has(4) && !has(2) {
					return s | 4, true
				}
			case 3:
				if has(1) {
					return s &^ 1, true
				}
			case 4:
				if has(2) && !has(8) {
					return s | 8, true
				}
			}
			return 0, false
		},
		Prelude: []int{0}, ConcTx: []int{0, 1, 2}, ConcApp: 0,
	},
	{
		// Account balance: withdrawals need enough balance, deposit always applies.
		// w2a and w2b are jointly valid on base 4 but not after a rebase to 3 or 1.
		Name: "acc", Bases: []int{4, 3, 1}, NTx: 5,
		TxName: []string{"w2a", "w2b", "w3", "dep1", "w1"},
		Apply: func(s, id int) (int, bool) {
			amt := map[int]int{0: 2, 1: 2, 2: 3, 4: 1}
			if id == 3 {
				return s + 1, true
			}
			if a, ok := amt[id]; ok && s >= a {
				return s - a, true
			}
			return 0, false
		},
		Prelude: []int{0}, ConcTx: []int{0, 1, 3}, ConcApp: 0,
	},
}

func familyByName(n string) *family {
	for _, f := range families {
		if f.Name == n {
			return f
		}
	}
	return nil
}

// applyFunc is the addTxFunc handed to gtxbuf.New: invalid transactions are wrapped in TxInvalidError as the package requires.
func (f *family) applyFunc() func(context.Context, st, tx) (st, error) {
	return func(_ context.Context, s st, t tx) (st, error) {
		n, ok := f.Apply(s.V, t.ID)
		if !ok {
			return st{}, gtxbuf.TxInvalidError{Err: fmt.Errorf("tx %d does not apply to state %d", t.ID, s.V)}
		}
		return st{n}, nil
	}
}

// deleter is the txDeleterFunc of the package documentation: a set of rejected values.
func deleter(_ context.Context, reject []tx) func(tx) bool {
	m := make(map[int]struct{}, len(reject))
	for _, r := range reject {
		m[r.ID] = struct{}{}
	}
	return func(t tx) bool {
		_, ok := m[t.ID]
		return ok
	}
}

// ---- operations ----

type op struct {
	Kind    byte  // 'A' AddTx, 'B' Buffered, 'R' Rebase
	Tx      int   // A
	Base    int   // R: index into family.Bases
	Applied []int // R
}

func (o op) String() string {
	switch o.Kind {
	case 'A':
		return "A" + strconv.Itoa(o.Tx)
	case 'B':
		return "B"
	}
	return "R" + strconv.Itoa(o.Base) + ":" + joinInts(o.Applied)
}

func joinInts(a []int) string {
	var sb strings.Builder
	for i, x := range a {
		if i > 0 {
			sb.WriteByte(',')
		}
		sb.WriteString(strconv.Itoa(x))
	}
	return sb.String()
}

func parseInts(s string) ([]int, error) {
	if s == "" {
		return nil, nil
	}
	var out []int
	for _, p := range strings.Split(s, ",") {
		n, err := strconv.Atoi(p)
		if err != nil {
			return nil, err
		}
		out = append(out, n)
	}
	return out, nil
}

func parseOp(s string) (op, error) {
	if s == "B" {
		return op{Kind: 'B'}, nil
	}
	if len(s) >= 2 && s[0] == 'A' {
		n, err := strconv.Atoi(s[1:])
		return op{Kind: 'A', Tx: n}, err
	}
	if len(s) >= 3 && s[0] == 'R' {
		i := strings.IndexByte(s, ':')
		if i < 0 {
			return op{}, fmt.Errorf("bad op %q", s)
		}
		b, err := strconv.Atoi(s[1:i])
		if err != nil {
			return op{}, err
		}
		ap, err := parseInts(s[i+1:])
		return op{Kind: 'R', Base: b, Applied: ap}, err
	}
	return op{}, fmt.Errorf("bad op %q", s)
}

func opsString(ops []op) string {
	ss := make([]string, len(ops))
	for i, o := range ops {
		ss[i] = o.String()
	}
	return strings.Join(ss, " ")
}

// describe renders an operation with the family's names, for messages.
func (f *family) describe(o op) string {
	name := func(id int) string {
		if id >= 0 && id < len(f.TxName) {
			return f.TxName[id]
		}
		return "foreign" + strconv.Itoa(id)
	}
	switch o.Kind {
	case 'A':
		return "AddTx(" + name(o.Tx) + ")"
	case 'B':
		return "Buffered"
	}
	var ns []string
	for _, id := range o.Applied {
		ns = append(ns, name(id))
	}
	return fmt.Sprintf("Rebase(base=%d, applied=[%s])", f.Bases[o.Base], strings.Join(ns, ","))
}

func (f *family) describeAll(ops []op) string {
	ss := make([]string, len(ops))
	for i, o := range ops {
		ss[i] = f.describe(o)
	}
	return strings.Join(ss, "; ")
}

// seqOps is the sequential alphabet at a model state with the given pending list:
// AddTx of every tx, Buffered, and Rebase(base in 3 states, applied in all subsets of the distinct pending ids, with and without a foreign tx).
func (f *family) seqOps(pend []int) []op {
	ops := make([]op, 0, 16)
	for id := 0; id < f.NTx; id++ {
		ops = append(ops, op{Kind: 'A', Tx: id})
	}
	ops = append(ops, op{Kind: 'B'})
	var distinct []int
	seen := map[int]bool{}
	for _, id := range pend {
		if !seen[id] {
			seen[id] = true
			distinct = append(distinct, id)
		}
	}
	for b := range f.Bases {
		for mask := 0; mask < 1<<len(distinct); mask++ {
			var ap []int
			for i, id := range distinct {
				if mask&(1<<i) != 0 {
					ap = append(ap, id)
				}
			}
			ops = append(ops, op{Kind: 'R', Base: b, Applied: ap})
			ops = append(ops, op{Kind: 'R', Base: b, Applied: append(append([]int{}, ap...), foreignTx)})
		}
	}
	return ops
}

// ---- sequential reference ----

// fold applies list in order from base. clean is false if some element does not apply; failAt is its index.
func (f *family) fold(base int, list []int) (s int, clean bool, failAt int) {
	s = base
	for i, id := range list {
		n, ok := f.Apply(s, id)
		if !ok {
			return s, false, i
		}
		s = n
	}
	return s, true, -1
}

// refAdd: the statement's criterion for AddTx on (base, pend).
func (f *family) refAdd(base int, pend []int, id int) (ok bool, after []int) {
	s, clean, _ := f.fold(base, pend)
	if !clean {
		return false, pend
	}
	if _, ok := f.Apply(s, id); !ok {
		return false, pend
	}
	return true, append(append([]int{}, pend...), id)
}

// refRebase: the statement's rebase. Transactions reported applied are dropped (by value, as the deleter contract says),
// the rest is re-applied greedily in order on the new base; survivors are kept, the others are invalidated.
// dupSplit reports that one transaction value occurs both among the kept and among the invalidated ones
// (possible only when the same value is pending twice).
func (f *family) refRebase(newBase int, pend, applied []int) (kept, invalidated []int, dupSplit bool) {
	ap := map[int]bool{}
	for _, id := range applied {
		ap[id] = true
	}
	s := newBase
	k := map[int]bool{}
	iv := map[int]bool{}
	for _, id := range pend {
		if ap[id] {
			continue
		}
		n, ok := f.Apply(s, id)
		if ok {
			s = n
			kept = append(kept, id)
			k[id] = true
		} else {
			invalidated = append(invalidated, id)
			iv[id] = true
		}
	}
	for id := range k {
		if iv[id] {
			dupSplit = true
		}
	}
	return
}

// model is a sequential specification state used by the linearizability checker.
// With AsImpl set it reproduces the behaviour of the known duplicate-value defect (FINDINGS.md);
// that variant is used ONLY to classify a violation's signature, never to accept a history.
type model struct {
	f      *family
	base   int
	pend   []int
	AsImpl bool
	cur    int // AsImpl only: the buffer's cached state after the pending list
}

func newModel(f *family, base int, pend []int, asImpl bool) model {
	m := model{f: f, base: base, pend: append([]int{}, pend...), AsImpl: asImpl}
	m.cur, _, _ = f.fold(base, pend)
	return m
}

func (m model) clone() model {
	m.pend = append([]int{}, m.pend...)
	return m
}

// opResult is what one call returned, in comparable form.
type opResult struct {
	ErrNil bool   // A, R
	List   []int  // B: returned list; R: invalidated (compared as a multiset)
	ErrStr string // diagnostic only
}

func (m *model) step(o op) opResult {
	f := m.f
	switch o.Kind {
	case 'A':
		if m.AsImpl {
			n, ok := f.Apply(m.cur, o.Tx)
			if ok {
				m.cur = n
				m.pend = append(m.pend, o.Tx)
			}
			return opResult{ErrNil: ok}
		}
		ok, after := f.refAdd(m.base, m.pend, o.Tx)
		m.pend = after
		return opResult{ErrNil: ok}
	case 'B':
		return opResult{ErrNil: true, List: append([]int{}, m.pend...)}
	}
	nb := f.Bases[o.Base]
	kept, inv, _ := f.refRebase(nb, m.pend, o.Applied)
	m.base = nb
	if m.AsImpl {
		// value-based pruning of the invalidated ones, cached state left as computed by the re-application
		ivs := map[int]bool{}
		for _, id := range inv {
			ivs[id] = true
		}
		m.cur, _, _ = f.fold(nb, kept)
		var k2 []int
		for _, id := range kept {
			if !ivs[id] {
				k2 = append(k2, id)
			}
		}
		kept = k2
	}
	m.pend = kept
	return opResult{ErrNil: true, List: inv}
}

func sameList(a, b []int) bool {
	if len(a) != len(b) {
		return false
	}
	for i := range a {
		if a[i] != b[i] {
			return false
		}
	}
	return true
}

func sameMultiset(a, b []int) bool {
	if len(a) != len(b) {
		return false
	}
	x := append([]int{}, a...)
	y := append([]int{}, b...)
	sort.Ints(x)
	sort.Ints(y)
	return sameList(x, y)
}

// resultMatches compares an observed result with the model's for the same operation.
func resultMatches(o op, got, want opResult) bool {
	switch o.Kind {
	case 'A':
		return got.ErrNil == want.ErrNil
	case 'B':
		return sameList(got.List, want.List)
	}
	return got.ErrNil == want.ErrNil && sameMultiset(got.List, want.List)
}

func ids(ts []tx) []int {
	out := make([]int, len(ts))
	for i, t := range ts {
		out[i] = t.ID
	}
	return out
}

func txs(is []int) []tx {
	if is == nil {
		return nil
	}
	out := make([]tx, len(is))
	for i, id := range is {
		out[i] = tx{id}
	}
	return out
}
