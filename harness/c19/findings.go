//go:build verif

package c19

// FINDINGS on the unchanged tree (kept here as source documentation of the known-finding entry
// /verif/known_findings.d/C19.json, signature prefix "dupsplit/").
//
// F1. Rebase prunes invalidated transactions BY VALUE after re-applying them BY POSITION.
//
// Where: gdriver/gtxbuf/workingstate.go, workingState.Rebase, the final
//     w.Txs = slices.DeleteFunc(w.Txs, w.txDeleter(ctx, invalidated))
//
// Mechanism: Rebase walks the pending list by position, threading w.curState through every transaction that still
// applies and collecting the others in `invalidated`. It then removes the invalidated ones from w.Txs with the user's
// txDeleter, which matches by value. If the same transaction value is pending twice and, on the new base, the first
// occurrence still applies while the second does not, the deleter removes BOTH occurrences, but w.curState keeps the
// effect of the first. From then on the cached state is not the state produced by the pending list and every later
// AddTx is judged against the wrong state. Nothing in gtxbuf forbids adding the same value twice; gordian's own test
// semantics (AddCounterTx) and any apply function without replay protection accept it.
//
// Smallest failing inputs (family ctr: dec_* applies iff counter > 0, zero applies iff counter == 0). Replay file job:
//     {"exec":"c19seq","hist":[...],"args":{"fam":"ctr","base0":"2","single":"1"}}
//  1. hist A2 A2 R1:      base 2; AddTx(dec_a); AddTx(dec_a); Rebase(base=1, applied=[]).
//                         Observed: invalidated [dec_a], pending []. Statement ("keeps exactly the pending transactions
//                         that ... still apply in order on the new base"): pending [dec_a], invalidated [dec_a].
//  2. hist A2 A2 R1: A3   then AddTx(dec_b) is rejected ("does not apply to state 0") although the buffer reports
//                         pending [] on base 1, where dec_b applies.
//  3. hist A2 A2 R1: A4   then AddTx(zero) returns nil and Buffered() is [zero], but zero does not apply to base 1:
//                         the pending list no longer applies to its base — the first sentence of the property fails
//                         under every reading.
//  4. hist A2 A2 A4 R1:   shortest witness of the literal invariant: pending [dec_a, dec_a, zero] on base 2 (states 1, 0, 2);
//                         Rebase(base=1, applied=[]) re-applies dec_a (ok, 0), dec_a (invalid), zero (ok at 0), returns
//                         invalidated [dec_a], prunes both dec_a and leaves pending [zero], which does not apply to base 1.
// Same shape in family acc (base 4, w2a twice, rebase to 3), flg (setA, clrA, setA with clrA reported applied) and in
// the concurrent part (two threads adding the same value while a third rebases).
//
// Why it is the code, not the oracle: cases 2 and 3 are judged only from what the buffer itself reports (pending []
// before the AddTx), the base the harness passed to the last Rebase, and the user apply function.
//
// Signature scoping: a sequential violation gets the "dupsplit/" prefix only if a Rebase of the same history had one value
// both surviving and invalidated; a concurrent / free-running history only if it is linearizable against a model that
// reproduces exactly this by-value behaviour (model.AsImpl in sem.go, used for classification only). Every other violation
// keeps its plain seq/…, conc/…, race/… signature and alarms.
//
// Candidate fix (survivors kept by position; verified: gtxbuf's own tests pass and the quick check on a copy with this
// change reports no violation and no dupsplit signature):
//
//     	var invalidated []T
//     +	kept := make([]T, 0, len(w.Txs))
//     	for _, tx := range w.Txs {
//     		...
//     		w.curState = newState
//     		w.isUpdated = true
//     +		kept = append(kept, tx)
//     	}
//     -	if len(invalidated) > 0 {
//     -		w.Txs = slices.DeleteFunc(w.Txs, w.txDeleter(ctx, invalidated))
//     -	}
//     +	w.Txs = kept
//
// Checked and clean: everything without duplicate values; Buffered/Rebase results are fresh slices; the caller's applied
// slice is not modified; no data race in the free-running -race pass. A non-TxInvalidError error from the apply function
// during Rebase leaves the buffer half-rebased, which the package documents as fatal, so the harness never produces one.
