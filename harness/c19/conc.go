//go:build verif

package c19

import (
	"context"
	"encoding/json"
	"fmt"
	"runtime"
	"strconv"
	"strings"
	"testing"
	"testing/synctest"

	"github.com/gordian-engine/gordian/gdriver/gtxbuf"
	"github.com/gordian-engine/gordian/internal/zzverif/vx"
)

// Concurrent part (E-THR): 2-3 caller threads, each running 1-2 operations on one real Buffer, under vx.Threads in a
// synctest bubble. Every method of Buffer is one gchan.ReqResp = SendC (request to the kernel) + RecvC (response), both
// scheduling points for a thread that calls with its thread ctx, plus the thread's start: 2k+1 points for k operations.
// vx.ExploreSchedules(-1, ...) enumerates ALL interleavings of those points; between two releases the kernel goroutine
// runs to quiescence (synctest.Wait).
//
// History: operation a of a thread is INVOKED at the release of its SendC point (the latest moment the call can be said to
// have started: nothing before it touches shared state) and RETURNS at the release of its RecvC point (the thread then runs
// to its next point within the same step). a precedes b in real time iff ret(a) < call(b).
// Oracle: there is a total order of the operations, consistent with program order and real-time order, such that the
// sequential reference (sem.go) started from the setup state returns exactly the observed results (AddTx: nil/error;
// Buffered: the exact list; Rebase: error-nil and the invalidated multiset) and ends with the pending list that a final
// Buffered call (after all threads finished) reports. Searched by brute force over all permutations.
// Further clauses: no deadlock, no panic on a caller, slices returned to callers stay unchanged afterwards,
// the final pending list applies in order to the final base of the witness order.

type concSetup struct {
	Base0   int
	Prelude []int
}

func (f *family) setups() []concSetup {
	return []concSetup{
		{Base0: f.Bases[0]},
		{Base0: f.Bases[0], Prelude: f.Prelude},
	}
}

func (f *family) concAlphabet(alpha string) []op {
	var ops []op
	if alpha == "t" {
		for id := 0; id < f.NTx; id++ {
			ops = append(ops, op{Kind: 'A', Tx: id})
		}
		ops = append(ops, op{Kind: 'B'})
		for _, b := range []int{1, 2} {
			ops = append(ops, op{Kind: 'R', Base: b}, op{Kind: 'R', Base: b, Applied: []int{f.ConcApp}})
		}
		return ops
	}
	for _, id := range f.ConcTx {
		ops = append(ops, op{Kind: 'A', Tx: id})
	}
	ops = append(ops, op{Kind: 'B'})
	ops = append(ops, op{Kind: 'R', Base: 1}, op{Kind: 'R', Base: 2, Applied: []int{f.ConcApp}})
	return ops
}

type program [][]op

func (p program) String() string {
	ss := make([]string, len(p))
	for i, t := range p {
		ss[i] = opsString(t)
	}
	return strings.Join(ss, " | ")
}

func parseProgram(s string) (program, error) {
	var p program
	for _, ts := range strings.Split(s, "|") {
		var t []op
		for _, os := range strings.Fields(ts) {
			o, err := parseOp(os)
			if err != nil {
				return nil, err
			}
			t = append(t, o)
		}
		p = append(p, t)
	}
	return p, nil
}

func parseShape(s string) []int {
	sh, _ := parseInts(s)
	return sh
}

// programs lists all programs of a shape over the alphabet. Threads are interchangeable (thread ids only fix the canonical
// enumeration order of schedules), so among threads of equal length only non-decreasing tuples of op-sequence indices are
// listed: every other program is a renaming of a listed one and has the same set of histories.
func programs(alpha []op, shape []int) []program {
	seqs := map[int][][]op{}
	for _, l := range shape {
		if _, ok := seqs[l]; ok {
			continue
		}
		cur := [][]op{nil}
		for k := 0; k < l; k++ {
			var nx [][]op
			for _, s := range cur {
				for _, o := range alpha {
					nx = append(nx, append(append([]op{}, s...), o))
				}
			}
			cur = nx
		}
		seqs[l] = cur
	}
	var out []program
	idx := make([]int, len(shape))
	var rec func(t int)
	rec = func(t int) {
		if t == len(shape) {
			p := make(program, len(shape))
			for i, l := range shape {
				p[i] = seqs[l][idx[i]]
			}
			out = append(out, p)
			return
		}
		lo := 0
		if t > 0 && shape[t-1] == shape[t] {
			lo = idx[t-1]
		}
		for i := lo; i < len(seqs[shape[t]]); i++ {
			idx[t] = i
			rec(t + 1)
		}
	}
	rec(0)
	return out
}

// doOp performs one operation on the real buffer and returns its result in comparable form plus the slice handed out.
func doOp(ctx context.Context, buf *gtxbuf.Buffer[st, tx], f *family, o op) (opResult, []tx) {
	switch o.Kind {
	case 'A':
		err := buf.AddTx(ctx, tx{o.Tx})
		return opResult{ErrNil: err == nil, ErrStr: fmt.Sprint(err)}, nil
	case 'B':
		got := buf.Buffered(ctx, nil)
		return opResult{ErrNil: true, List: ids(got)}, got
	}
	inv, err := buf.Rebase(ctx, st{f.Bases[o.Base]}, txs(o.Applied))
	return opResult{ErrNil: err == nil, List: ids(inv), ErrStr: fmt.Sprint(err)}, inv
}

type hop struct {
	Th, Idx   int
	O         op
	Call, Ret int
	Res       opResult
}

// linearize searches a sequential witness. It returns the witness order (indices into h) and the final model.
func linearize(f *family, su concSetup, h []hop, final []int, asImpl bool) ([]int, *model) {
	n := len(h)
	done := make([]bool, n)
	order := make([]int, 0, n)
	var found []int
	var foundModel *model
	var rec func(m model) bool
	rec = func(m model) bool {
		if len(order) == n {
			if !sameList(m.pend, final) {
				return false
			}
			found = append([]int{}, order...)
			fm := m.clone()
			foundModel = &fm
			return true
		}
	next:
		for i := 0; i < n; i++ {
			if done[i] {
				continue
			}
			for j := 0; j < n; j++ {
				if j == i || done[j] {
					continue
				}
				// j must come before i if it precedes i in program order or in real time
				if (h[j].Th == h[i].Th && h[j].Idx < h[i].Idx) || h[j].Ret < h[i].Call {
					continue next
				}
			}
			m2 := m.clone()
			want := m2.step(h[i].O)
			if !resultMatches(h[i].O, h[i].Res, want) {
				continue
			}
			done[i] = true
			order = append(order, i)
			if rec(m2) {
				return true
			}
			order = order[:len(order)-1]
			done[i] = false
		}
		return false
	}
	rec(newModel(f, su.Base0, su.Prelude, asImpl))
	return found, foundModel
}

type concRunner struct {
	f      *family
	su     concSetup
	suIdx  int
	res    *vx.Result
	states map[string]struct{}
	nt     map[string]struct{}
	sample map[string]any

	execs, steps, treeEdges, ntExecs int64
	outcomes                         map[string]int64
}

func (r *concRunner) viol(clause string, dup bool, p program, sched string, msg string) {
	sig := "conc/" + clause + "/" + r.f.Name
	if dup {
		sig = "dupsplit/" + sig
	}
	for _, v := range r.res.Viol {
		if v.Sig == sig {
			return
		}
	}
	r.res.Violate("C19", sig, fmt.Sprintf("family %s, base %d, prelude adds %v, program {%s} = {%s}, schedule [%s]: %s",
		r.f.Name, r.su.Base0, r.su.Prelude, p.String(), r.describeProgram(p), sched, msg), 0)
}

func (r *concRunner) describeProgram(p program) string {
	ss := make([]string, len(p))
	for i, t := range p {
		ss[i] = fmt.Sprintf("T%d: %s", i, r.f.describeAll(t))
	}
	return strings.Join(ss, " || ")
}

// runSchedule runs program p once under the schedule prefix (default choice 0 afterwards) and checks the history.
func (r *concRunner) runSchedule(p program, prefix []int) []vx.Point {
	f := r.f
	ctx, cancel := context.WithCancel(context.Background())
	buf := gtxbuf.New(ctx, discardLog, f.applyFunc(), deleter)
	defer buf.Wait()
	defer cancel()
	if !buf.Initialize(ctx, st{r.su.Base0}) {
		r.res.HarnessErr = "Initialize returned false"
		return nil
	}
	for _, id := range r.su.Prelude {
		if err := buf.AddTx(ctx, tx{id}); err != nil {
			r.res.HarnessErr = fmt.Sprintf("prelude tx %d rejected: %v", id, err)
			return nil
		}
	}

	type got struct {
		res  opResult
		sl   []tx
		snap []tx
	}
	results := make([][]got, len(p))
	s := vx.NewThreads(ctx, prefix)
	for ti := range p {
		ti := ti
		s.Go("T"+strconv.Itoa(ti), func(tctx context.Context) {
			for _, o := range p[ti] {
				res, sl := doOp(tctx, buf, f, o)
				results[ti] = append(results[ti], got{res, sl, append([]tx(nil), sl...)})
			}
		})
	}
	s.Run()
	pts := s.Points
	sched := s.ScheduleString()
	deadlock := s.Deadlock
	panics := s.Panics()
	s.Stop()
	final := ids(buf.Buffered(ctx, nil))

	r.execs++
	r.steps += int64(len(pts))
	if len(prefix) == 0 {
		r.treeEdges += int64(len(pts))
	} else {
		r.treeEdges += int64(len(pts) - len(prefix) + 1)
	}

	dupProg := hasDupAdd(r.su, p)
	if len(panics) > 0 {
		r.viol("panic", false, p, sched, "panic on a caller thread: "+strings.Join(panics, "; "))
		return pts
	}
	if deadlock != "" {
		r.viol("deadlock", false, p, sched, "no thread can run but not all finished: "+deadlock)
		return pts
	}

	// Build the history from the release steps.
	var h []hop
	for ti := range p {
		var sends, recvs []int
		for step, pt := range pts {
			if pt.Enabled[pt.Chosen] != ti {
				continue
			}
			name := pt.Names[pt.Chosen]
			switch {
			case strings.HasPrefix(name, "SendC:"):
				sends = append(sends, step)
			case strings.HasPrefix(name, "RecvC:"):
				recvs = append(recvs, step)
			}
		}
		if len(sends) != len(p[ti]) || len(recvs) != len(p[ti]) || len(results[ti]) != len(p[ti]) {
			r.res.HarnessErr = fmt.Sprintf("program {%s} schedule [%s]: thread %d has %d SendC / %d RecvC points and %d results for %d operations",
				p.String(), sched, ti, len(sends), len(recvs), len(results[ti]), len(p[ti]))
			return pts
		}
		for k, o := range p[ti] {
			h = append(h, hop{Th: ti, Idx: k, O: o, Call: sends[k], Ret: recvs[k], Res: results[ti][k].res})
		}
	}

	hist := func() string {
		var sb strings.Builder
		for _, x := range h {
			fmt.Fprintf(&sb, " T%d.%d %s call@%d ret@%d -> ", x.Th, x.Idx, f.describe(x.O), x.Call, x.Ret)
			switch x.O.Kind {
			case 'A':
				fmt.Fprintf(&sb, "err=%s;", x.Res.ErrStr)
			case 'B':
				fmt.Fprintf(&sb, "%v;", x.Res.List)
			default:
				fmt.Fprintf(&sb, "invalidated=%v err=%s;", x.Res.List, x.Res.ErrStr)
			}
		}
		fmt.Fprintf(&sb, " final pending %v", final)
		return sb.String()
	}

	order, fm := linearize(f, r.su, h, final, false)
	if order == nil {
		dup := false
		if dupProg {
			if o2, _ := linearize(f, r.su, h, final, true); o2 != nil {
				dup = true
			}
		}
		r.viol("nonlinearizable", dup, p, sched, "no sequential order of the operations (respecting program and real-time order) explains the results:"+hist())
		return pts
	}
	if _, clean, at := f.fold(fm.base, final); !clean {
		r.viol("pending-inapplicable", false, p, sched, fmt.Sprintf("final pending %v does not apply to base %d at element #%d;%s", final, fm.base, at, hist()))
	}
	for ti := range results {
		for k, g := range results[ti] {
			if !sameList(ids(g.sl), ids(g.snap)) {
				r.viol("result-mutated", false, p, sched, fmt.Sprintf("slice returned to T%d by %s was %v at return and %v after all threads finished", ti, f.describe(p[ti][k]), ids(g.snap), ids(g.sl)))
			}
		}
	}
	r.states[stateKey(f, fm.base, fm.pend)] = struct{}{}

	// classification
	overlap, mutating := false, false
	for i := range h {
		if h[i].O.Kind != 'B' {
			mutating = true
		}
		for j := range h {
			if h[i].Th != h[j].Th && !(h[i].Ret < h[j].Call) && !(h[j].Ret < h[i].Call) {
				overlap = true
			}
		}
	}
	var ob strings.Builder
	ob.WriteString("lin=")
	rej, inv := 0, 0
	for _, i := range order {
		ob.WriteString(strconv.Itoa(h[i].Th))
	}
	for _, x := range h {
		if x.O.Kind == 'A' && !x.Res.ErrNil {
			rej++
		}
		if x.O.Kind == 'R' {
			inv += len(x.Res.List)
		}
	}
	fmt.Fprintf(&ob, " rejected=%d invalidated=%d", rej, inv)
	r.outcomes[ob.String()]++
	if overlap && mutating {
		r.ntExecs++
		r.nt[fmt.Sprintf("%s|%d|%s", f.Name, r.suIdx, p.String())] = struct{}{}
		if r.sample == nil && rej+inv > 0 && len(prefix) > 2 {
			r.sample = map[string]any{"family": f.Name, "base": r.su.Base0, "prelude": r.su.Prelude, "program": r.describeProgram(p),
				"schedule": sched, "history": strings.TrimSpace(hist()), "witness_order": ob.String()}
		}
	}
	return pts
}

func hasDupAdd(su concSetup, p program) bool {
	cnt := map[int]int{}
	for _, id := range su.Prelude {
		cnt[id]++
	}
	for _, t := range p {
		for _, o := range t {
			if o.Kind == 'A' {
				cnt[o.Tx]++
			}
		}
	}
	for _, c := range cnt {
		if c > 1 {
			return true
		}
	}
	return false
}

// execConc: Args fam, setup (index), alpha (q|t), shape ("2,2"), lo, hi (program index range) or prog (explicit program).
func execConc(t *testing.T, job vx.Job) (res vx.Result) {
	// Everything here is a synchronous hand-off between two goroutines at a time; one P avoids cross-thread wake-ups (about 10x faster).
	runtime.GOMAXPROCS(1)
	f := familyByName(job.Args["fam"])
	if f == nil {
		return vx.Result{HarnessErr: "unknown family " + job.Args["fam"]}
	}
	si, _ := strconv.Atoi(job.Args["setup"])
	sus := f.setups()
	if si < 0 || si >= len(sus) {
		return vx.Result{HarnessErr: "bad setup"}
	}
	var progs []program
	if ps := job.Args["prog"]; ps != "" {
		p, err := parseProgram(ps)
		if err != nil {
			return vx.Result{HarnessErr: err.Error()}
		}
		progs = []program{p}
	} else {
		all := programs(f.concAlphabet(job.Args["alpha"]), parseShape(job.Args["shape"]))
		lo, _ := strconv.Atoi(job.Args["lo"])
		hi, _ := strconv.Atoi(job.Args["hi"])
		if hi > len(all) {
			hi = len(all)
		}
		if lo > hi {
			lo = hi
		}
		progs = all[lo:hi]
	}
	r := &concRunner{f: f, su: sus[si], suIdx: si, res: &res, states: map[string]struct{}{}, nt: map[string]struct{}{}, outcomes: map[string]int64{}}
	synctest.Test(t, func(t *testing.T) {
		for _, p := range progs {
			if res.HarnessErr != "" {
				return
			}
			vx.ExploreSchedules(-1, func(prefix []int) []vx.Point { return r.runSchedule(p, prefix) }, func() bool { return res.HarnessErr != "" })
		}
	})
	res.Count("conc_programs", int64(len(progs)))
	res.Count("conc_executions", r.execs)
	res.Count("conc_executions_nontrivial", r.ntExecs)
	res.Count("conc_schedule_steps", r.steps)
	res.Count("conc_schedule_tree_edges", r.treeEdges)
	for k, v := range r.outcomes {
		res.Count("conc_outcome["+k+"]", v)
	}
	o := seqObs{States: vx.SortedKeys(r.states), NT: vx.SortedKeys(r.nt), Sample: r.sample}
	res.Obs, _ = json.Marshal(o)
	res.Outcome = "conc-ok"
	if len(res.Viol) > 0 {
		res.Outcome = "conc-violation"
	}
	return res
}
