//go:build verif

package c19

import (
	"context"
	"fmt"
	"os"
	"strconv"
	"strings"
	"sync"
	"testing"

	"github.com/gordian-engine/gordian/gdriver/gtxbuf"
)

// Free-running companion pass (DESIGN.md §2.2): the cooperative scheduler's hand-offs are happens-before edges, so an
// unsynchronised access is invisible to it. The same thread bodies are therefore run free-running (real goroutines started
// together, no scheduler, no bubble) in the -race build of this package, C19_RACE_REPS times per program. A "DATA RACE"
// report in that process's output is a violation of "safe for concurrent use". The threads share nothing but the start
// barrier and the WaitGroup, so the harness adds no happens-before edge between two threads' operations.
// Each run is additionally checked for linearizability WITHOUT real-time constraints (program order only; weaker than the
// cooperative pass, which is the deciding one) and for stability of returned slices.
//
// Selected by env C19_RACE=<shard>/<shards> at the top of TestVerif. Output protocol on stdout:
//   C19RACE-VIOL <sig>\t<message>
//   C19RACE-DONE programs=<n> runs=<n> nontrivial=<n>

func raceMain(t *testing.T) {
	spec := os.Getenv("C19_RACE")
	shard, shards := 0, 1
	if i := strings.IndexByte(spec, '/'); i > 0 {
		shard, _ = strconv.Atoi(spec[:i])
		shards, _ = strconv.Atoi(spec[i+1:])
	}
	if shards < 1 {
		shards = 1
	}
	reps, _ := strconv.Atoi(os.Getenv("C19_RACE_REPS"))
	if reps <= 0 {
		reps = 200
	}
	alpha := os.Getenv("C19_RACE_ALPHA")
	if alpha == "" {
		alpha = "q"
	}
	shapes := strings.Split(os.Getenv("C19_RACE_SHAPES"), ";")
	if os.Getenv("C19_RACE_SHAPES") == "" {
		shapes = []string{"1,1", "2,1", "1,1,1"}
	}
	var nprog, nruns, nnt int64
	seen := map[string]bool{}
	k := 0
	for _, f := range families {
		for si, su := range f.setups() {
			for _, sh := range shapes {
				var progs []program
				if ps := os.Getenv("C19_RACE_PROG"); ps != "" {
					p, err := parseProgram(ps)
					if err != nil {
						fmt.Println("C19RACE-ERR", err)
						return
					}
					progs = []program{p}
				} else {
					progs = programs(f.concAlphabet(alpha), parseShape(sh))
				}
				for _, p := range progs {
					k++
					if k%shards != shard {
						continue
					}
					nprog++
					for rep := 0; rep < reps; rep++ {
						sig, msg, nt := raceOne(f, su, p)
						nruns++
						if nt {
							nnt++
						}
						if sig != "" && !seen[sig] {
							seen[sig] = true
							fmt.Printf("C19RACE-VIOL %s\tfamily %s setup %d base %d prelude %v program {%s}: %s\n", sig, f.Name, si, su.Base0, su.Prelude, p.String(), msg)
						}
					}
				}
			}
		}
	}
	fmt.Printf("C19RACE-DONE programs=%d runs=%d nontrivial=%d\n", nprog, nruns, nnt)
}

func raceOne(f *family, su concSetup, p program) (sig, msg string, nontrivial bool) {
	ctx, cancel := context.WithCancel(context.Background())
	buf := gtxbuf.New(ctx, discardLog, f.applyFunc(), deleter)
	defer buf.Wait()
	defer cancel()
	buf.Initialize(ctx, st{su.Base0})
	for _, id := range su.Prelude {
		if err := buf.AddTx(ctx, tx{id}); err != nil {
			return "race/harness", fmt.Sprintf("prelude tx %d rejected: %v", id, err), false
		}
	}
	type got struct {
		res  opResult
		sl   []tx
		snap []tx
	}
	results := make([][]got, len(p))
	panics := make([]any, len(p))
	start := make(chan struct{})
	var wg sync.WaitGroup
	for ti := range p {
		ti := ti
		wg.Add(1)
		go func() {
			defer wg.Done()
			defer func() { panics[ti] = recover() }()
			<-start
			for _, o := range p[ti] {
				res, sl := doOp(ctx, buf, f, o)
				// Reading the returned slice here (the copy) is what exposes an aliased internal slice to the race detector.
				results[ti] = append(results[ti], got{res, sl, append([]tx(nil), sl...)})
			}
		}()
	}
	close(start)
	wg.Wait()
	final := ids(buf.Buffered(ctx, nil))
	for ti, pv := range panics {
		if pv != nil {
			return "race/panic/" + f.Name, fmt.Sprintf("thread %d panicked: %v", ti, pv), false
		}
	}
	var h []hop
	mut := false
	for ti := range p {
		for k, o := range p[ti] {
			// Call=0, Ret=1 for all: no operation precedes another in real time; only program order constrains the witness.
			h = append(h, hop{Th: ti, Idx: k, O: o, Call: 0, Ret: 1, Res: results[ti][k].res})
			if o.Kind != 'B' {
				mut = true
			}
		}
	}
	for ti := range results {
		for k, g := range results[ti] {
			if !sameList(ids(g.sl), ids(g.snap)) {
				return "race/result-mutated/" + f.Name, fmt.Sprintf("slice returned to thread %d op %d changed from %v to %v", ti, k, ids(g.snap), ids(g.sl)), mut
			}
		}
	}
	if order, _ := linearize(f, su, h, final, false); order == nil {
		dup := ""
		if hasDupAdd(su, p) {
			if o2, _ := linearize(f, su, h, final, true); o2 != nil {
				dup = "dupsplit/"
			}
		}
		var sb strings.Builder
		for _, x := range h {
			fmt.Fprintf(&sb, " T%d.%d %s -> errnil=%v list=%v;", x.Th, x.Idx, f.describe(x.O), x.Res.ErrNil, x.Res.List)
		}
		return dup + "race/nonlinearizable/" + f.Name, "free-running results have no sequential explanation (program order only):" + sb.String() + fmt.Sprintf(" final %v", final), mut
	}
	return "", "", mut
}
