//go:build verif

package c19

import (
	"context"
	"encoding/json"
	"errors"
	"fmt"
	"log/slog"
	"runtime"
	"strconv"
	"testing"
	"testing/synctest"

	"github.com/gordian-engine/gordian/gdriver/gtxbuf"
	"github.com/gordian-engine/gordian/internal/zzverif/vx"
)

// Sequential part (E-SEQ): every operation sequence of exactly `depth` operations below the job's prefix is run on a fresh real
// Buffer (real kernel goroutine) inside a synctest bubble; the oracle is evaluated after EVERY operation, so all shorter sequences
// are covered as prefixes.
//
// Oracle clauses (each is local to one operation: the expectation is computed from the pending list the buffer itself reported
// before the operation, the base state the harness passed last, and the user apply function):
//   init-nonempty        a fresh buffer reports an empty pending list
//   pending-inapplicable the list reported by Buffered does not apply, in order, to the current base      (the literal invariant)
//   add-accepted         AddTx returned nil although the tx does not apply after the pending ones          ("appended only if")
//   add-rejected         AddTx returned an error although the tx applies after the pending ones. The statement gives
//                        "applies to the state produced by the earlier pending ones" as THE criterion for appending and
//                        DESIGN.md reads it as iff; a buffer that evaluates a tx against any other state fails one of the two.
//   add-error-kind       a rejection is not the user function's TxInvalidError ("errors are returned directly")
//   add-pending          after AddTx the pending list is not prev (+tx when accepted)
//   buffered-result      Buffered(dst) is not dst followed by the pending list / changed the list
//   rebase-error         Rebase returned an error (the apply function only fails with TxInvalidError)
//   rebase-invalidated   the returned invalidated txs are not (as a multiset) pending∖applied minus the greedy in-order survivors
//   rebase-kept          the pending list after Rebase is not exactly the greedy in-order survivors
//   result-mutated       a slice returned by Buffered/Rebase changed after the call returned, or the caller's applied slice was modified
//   panic                a call panicked on the caller's goroutine
//
// A history in which some Rebase had the same tx VALUE both surviving and invalidated (possible only if that value was pending
// twice) is marked "dupsplit/": the statement does not say which occurrence "the" transaction is, see FINDINGS.md.

var discardLog = slog.New(slog.DiscardHandler)

type seqObs struct {
	States []string       `json:"states,omitempty"`
	NT     []string       `json:"nt,omitempty"`
	Sample map[string]any `json:"sample,omitempty"`
}

type seqRunner struct {
	f       *family
	base0   int
	res     *vx.Result
	states  map[string]struct{}
	nt      map[string]struct{}
	leaves  int64
	ntLeaf  int64
	opsRun  int64
	nodes   int64
	sample  map[string]any
	outcome map[string]int64
}

func stateKey(f *family, base int, pend []int) string {
	return f.Name + "|" + strconv.Itoa(base) + "|" + joinInts(pend)
}

// runOne executes ops on a fresh real buffer and evaluates the oracle after every operation.
func (r *seqRunner) runOne(ops []op, wantTrace bool) (trace []map[string]any) {
	f := r.f
	ctx, cancel := context.WithCancel(context.Background())
	buf := gtxbuf.New(ctx, discardLog, f.applyFunc(), deleter)
	defer buf.Wait()
	defer cancel()

	viol := func(step int, tainted bool, clause, msg string) {
		sig := "seq/" + clause + "/" + f.Name
		if tainted {
			sig = "dupsplit/" + sig
		}
		for vi, v := range r.res.Viol {
			if v.Sig == sig {
				if v.Step <= step+1 {
					return // already have a shorter or equal witness for this signature in this shard
				}
				r.res.Viol = append(r.res.Viol[:vi], r.res.Viol[vi+1:]...)
				break
			}
		}
		r.res.Violate("C19", sig, fmt.Sprintf("family %s, initial base %d, sequence [%s] (ops: %s), at operation #%d %s: %s",
			f.Name, r.base0, f.describeAll(ops[:min(step+1, len(ops))]), opsString(ops[:min(step+1, len(ops))]), step+1,
			func() string {
				if step >= 0 && step < len(ops) {
					return f.describe(ops[step])
				}
				return "(init)"
			}(), msg), step+1)
	}

	step := -1
	tainted := false
	defer func() {
		if p := recover(); p != nil {
			viol(step, tainted, "panic", fmt.Sprintf("panic on the caller: %v", p))
		}
	}()

	if !buf.Initialize(ctx, st{r.base0}) {
		r.res.HarnessErr = "Initialize returned false"
		return
	}
	base := r.base0
	prev := ids(buf.Buffered(ctx, nil))
	if len(prev) != 0 {
		viol(-1, false, "init-nonempty", fmt.Sprintf("fresh buffer reports %v", prev))
	}

	// Slices handed out by the buffer, with a snapshot taken at return time.
	type held struct {
		what string
		got  []tx
		snap []tx
		step int
	}
	var helds []held
	hold := func(what string, got []tx) {
		helds = append(helds, held{what, got, append([]tx(nil), got...), step})
	}

	nontrivial := false
	for i, o := range ops {
		step = i
		r.opsRun++
		var expect []int
		var tr map[string]any
		if wantTrace {
			tr = map[string]any{"op": f.describe(o)}
		}
		switch o.Kind {
		case 'A':
			s, clean, _ := f.fold(base, prev)
			err := buf.AddTx(ctx, tx{o.Tx})
			if wantTrace {
				tr["err"] = fmt.Sprint(err)
			}
			if clean {
				_, ok := f.Apply(s, o.Tx)
				switch {
				case ok && err != nil:
					viol(i, tainted, "add-rejected", fmt.Sprintf("pending %v on base %d gives state %d where the tx applies, but AddTx returned %v", prev, base, s, err))
				case !ok && err == nil:
					viol(i, tainted, "add-accepted", fmt.Sprintf("pending %v on base %d gives state %d where the tx does NOT apply, but AddTx returned nil", prev, base, s))
				}
				if len(prev) > 0 {
					r.nt[stateKey(f, base, prev)+"|"+o.String()] = struct{}{}
				}
			}
			if err != nil && !errors.As(err, new(gtxbuf.TxInvalidError)) {
				viol(i, tainted, "add-error-kind", fmt.Sprintf("AddTx returned %T %v, not the apply function's TxInvalidError", err, err))
			}
			if err == nil {
				expect = append(append([]int{}, prev...), o.Tx)
			} else {
				expect = prev
			}
		case 'B':
			dst := make([]tx, 1, 8)
			dst[0] = tx{-7}
			got := buf.Buffered(ctx, dst)
			want := append([]int{-7}, prev...)
			if !sameList(ids(got), want) {
				viol(i, tainted, "buffered-result", fmt.Sprintf("Buffered(dst=[-7]) returned %v, want %v", ids(got), want))
			}
			hold("Buffered result", got)
			expect = prev
		case 'R':
			nb := f.Bases[o.Base]
			kept, inv, split := f.refRebase(nb, prev, o.Applied)
			if split {
				tainted = true
			}
			applied := txs(o.Applied)
			appliedSnap := append([]tx(nil), applied...)
			gotInv, err := buf.Rebase(ctx, st{nb}, applied)
			if wantTrace {
				tr["invalidated"] = ids(gotInv)
				tr["err"] = fmt.Sprint(err)
			}
			if err != nil {
				viol(i, tainted, "rebase-error", fmt.Sprintf("Rebase returned error %v", err))
			}
			if !sameMultiset(ids(gotInv), inv) {
				viol(i, tainted, "rebase-invalidated", fmt.Sprintf("pending before %v, new base %d: Rebase returned invalidated %v, want %v", prev, nb, ids(gotInv), inv))
			}
			if !sameList(ids(applied), ids(appliedSnap)) {
				viol(i, tainted, "result-mutated", fmt.Sprintf("the caller's applied slice was modified: %v -> %v", ids(appliedSnap), ids(applied)))
			}
			hold("Rebase invalidated result", gotInv)
			if len(prev) > 0 {
				nontrivial = true
				r.nt[stateKey(f, base, prev)+"|"+o.String()] = struct{}{}
			}
			base = nb
			expect = kept
		}
		obsTx := buf.Buffered(ctx, nil)
		hold("Buffered(nil) result", obsTx)
		obs := ids(obsTx)
		if !sameList(obs, expect) {
			clause := map[byte]string{'A': "add-pending", 'B': "buffered-result", 'R': "rebase-kept"}[o.Kind]
			viol(i, tainted, clause, fmt.Sprintf("pending before %v; pending after %v, want %v (base now %d)", prev, obs, expect, base))
		}
		if _, clean, at := f.fold(base, obs); !clean {
			viol(i, tainted, "pending-inapplicable", fmt.Sprintf("pending list %v does not apply in order to base %d: element #%d (tx %d) fails", obs, base, at, obs[at]))
		}
		r.states[stateKey(f, base, obs)] = struct{}{}
		if wantTrace {
			tr["pending_after"] = obs
			tr["base_after"] = base
			trace = append(trace, tr)
		}
		prev = obs
	}
	step = len(ops) - 1
	for _, h := range helds {
		if !sameList(ids(h.got), ids(h.snap)) {
			viol(h.step, tainted, "result-mutated", fmt.Sprintf("%s of operation #%d was %v when returned and is %v at the end of the sequence [%s]", h.what, h.step+1, ids(h.snap), ids(h.got), opsString(ops)))
		}
	}
	r.leaves++
	if nontrivial {
		r.ntLeaf++
	}
	return
}

// dfs enumerates, by the reference model, every extension of ops to exactly depth operations.
func (r *seqRunner) dfs(ops []op, base int, pend []int, depth int, interesting bool) {
	if len(ops) == depth {
		// sample: a sequence in which some Rebase kept one pending tx and invalidated another
		want := r.sample == nil && interesting
		tr := r.runOne(ops, want)
		if want && tr != nil {
			r.sample = map[string]any{"family": r.f.Name, "initial_base": r.base0, "ops": opsString(ops), "trace": tr}
		}
		return
	}
	for _, o := range r.f.seqOps(pend) {
		r.nodes++
		nb, np, in := base, pend, interesting
		switch o.Kind {
		case 'A':
			_, np = r.f.refAdd(base, pend, o.Tx)
		case 'R':
			nb = r.f.Bases[o.Base]
			var inv []int
			var split bool
			np, inv, split = r.f.refRebase(nb, pend, o.Applied)
			if len(np) > 0 && len(inv) > 0 && !split {
				in = true
			}
		}
		r.dfs(append(ops, o), nb, np, depth, in)
	}
}

// modelAfter replays ops on the reference model.
func modelAfter(f *family, base0 int, ops []op) (base int, pend []int) {
	base = base0
	for _, o := range ops {
		switch o.Kind {
		case 'A':
			_, pend = f.refAdd(base, pend, o.Tx)
		case 'R':
			base = f.Bases[o.Base]
			pend, _, _ = f.refRebase(base, pend, o.Applied)
		}
	}
	return
}

// execSeq: Args fam, base0 (value), depth; Hist = prefix operations. Args single=1 runs exactly Hist.
func execSeq(t *testing.T, job vx.Job) (res vx.Result) {
	// Everything here is a synchronous hand-off between two goroutines at a time; one P avoids cross-thread wake-ups (about 10x faster).
	runtime.GOMAXPROCS(1)
	f := familyByName(job.Args["fam"])
	if f == nil {
		return vx.Result{HarnessErr: "unknown family " + job.Args["fam"]}
	}
	base0, _ := strconv.Atoi(job.Args["base0"])
	depth, _ := strconv.Atoi(job.Args["depth"])
	var prefix []op
	for _, s := range job.Hist {
		o, err := parseOp(s)
		if err != nil {
			return vx.Result{HarnessErr: err.Error()}
		}
		prefix = append(prefix, o)
	}
	if job.Args["single"] != "" || depth < len(prefix) {
		depth = len(prefix)
	}
	r := &seqRunner{f: f, base0: base0, res: &res, states: map[string]struct{}{}, nt: map[string]struct{}{}}
	synctest.Test(t, func(t *testing.T) {
		if job.Args["single"] != "" {
			tr := r.runOne(prefix, true)
			r.sample = map[string]any{"family": f.Name, "initial_base": base0, "ops": opsString(prefix), "trace": tr}
			return
		}
		b, p := modelAfter(f, base0, prefix)
		r.dfs(append([]op{}, prefix...), b, p, depth, false)
	})
	res.Count("seq_sequences", r.leaves)
	res.Count("seq_sequences_nontrivial", r.ntLeaf)
	res.Count("seq_ops_executed", r.opsRun)
	res.Count("seq_tree_edges", r.nodes)
	o := seqObs{States: vx.SortedKeys(r.states), NT: vx.SortedKeys(r.nt), Sample: r.sample}
	res.Obs, _ = json.Marshal(o)
	res.NonTrivial = false // distinct non-trivial cases are counted by the orchestrator from Obs
	res.Outcome = "seq-ok"
	if len(res.Viol) > 0 {
		res.Outcome = "seq-violation"
	}
	return res
}
