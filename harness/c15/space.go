//go:build verif

package c15

import (
	"bytes"
	"encoding/hex"
	"fmt"
	"math"
	"sort"
	"strconv"
	"strings"
	"sync"

	"github.com/gordian-engine/gordian/gcrypto"
	"github.com/gordian-engine/gordian/tm/tmconsensus"
	"github.com/gordian-engine/gordian/tm/tmconsensus/tmconsensustest"
)

// The header space of part 1.
//
// A header is described by a choice vector: one alternative per descriptor field, alternative 0 being the
// base (well-formed) header. A descriptor (desc) lists the non-base choices only. Fields are the leaf fields
// of tmconsensus.Header other than Hash, with the PrevCommitProof.Proofs map split into one "slot" field per
// candidate map key (absent, or present with one of a list of signature slices).
//
// Canonical form (what "the same header" means for the oracle; weaker reading of the statement, on purpose):
//   - nil and zero-length byte slices / maps are the same value;
//   - the signatures of one proof entry are a multiset (the shipped format sorts them, DESIGN.md C15);
//   - Header.Hash is not part of the canonical form;
//   - everything else, including validator lists, PubKeys, both validator hashes, every proof key and every
//     (KeyID, Sig) pair, is part of it.
// Validator lists are only ever produced by tmconsensus.NewValidatorSet, so lists and hashes agree whenever the
// list changes (headers whose lists disagree with their hashes are C07's subject). Raw changes of the two hash
// fields (list unchanged) are included: they are header fields like any other.

type kv struct{ path, val string }

type slotState struct {
	present bool
	nilList bool  // present with a nil slice instead of an empty non-nil one
	list    []int // indices into space.entries
}

type alt struct {
	label string
	set   func(h *tmconsensus.Header) // non-slot fields
	slot  *slotState                  // slot fields
	canon []kv                        // canonical (path, value) pairs contributed by this alternative
}

type field struct {
	name string
	slot bool
	key  string // slot fields: the raw map key
	alts []alt
}

type space struct {
	name    string
	fields  []field
	entries []gcrypto.SparseSignature
	prod    [][]int // per field: alternatives taking part in the full product over the slot fields (nil: not a slot)
}

type ent struct{ f, a int }

// desc is sorted by field index and holds non-base choices only.
type desc []ent

func (d desc) pack() uint64 {
	if len(d) > 5 {
		panic("c15: descriptor with more than 5 entries")
	}
	var u uint64
	for i, e := range d {
		if e.f+1 > 15 || e.a > 255 || e.a <= 0 {
			panic("c15: descriptor entry out of packing range")
		}
		u |= uint64((e.f+1)<<8|e.a) << (12 * uint(i))
	}
	return u
}

func unpackDesc(u uint64) desc {
	var d desc
	for ; u != 0; u >>= 12 {
		x := int(u & 0xfff)
		d = append(d, ent{f: x>>8 - 1, a: x & 0xff})
	}
	return d
}

func (d desc) String() string {
	if len(d) == 0 {
		return "base"
	}
	var sb strings.Builder
	for i, e := range d {
		if i > 0 {
			sb.WriteByte(',')
		}
		fmt.Fprintf(&sb, "%d.%d", e.f, e.a)
	}
	return sb.String()
}

func (s *space) parseDesc(str string) (desc, error) {
	if str == "" || str == "base" {
		return nil, nil
	}
	var d desc
	for _, p := range strings.Split(str, ",") {
		fa := strings.Split(p, ".")
		if len(fa) != 2 {
			return nil, fmt.Errorf("bad descriptor %q", str)
		}
		f, err1 := strconv.Atoi(fa[0])
		a, err2 := strconv.Atoi(fa[1])
		if err1 != nil || err2 != nil || f < 0 || f >= len(s.fields) || a <= 0 || a >= len(s.fields[f].alts) {
			return nil, fmt.Errorf("bad descriptor %q", str)
		}
		d = append(d, ent{f, a})
	}
	sort.Slice(d, func(i, j int) bool { return d[i].f < d[j].f })
	for i := 1; i < len(d); i++ {
		if d[i].f == d[i-1].f {
			return nil, fmt.Errorf("bad descriptor %q: field twice", str)
		}
	}
	return d, nil
}

// describe renders a descriptor with field names and alternative labels (for messages and samples).
func (s *space) describe(d desc) string {
	if len(d) == 0 {
		return "base header"
	}
	var parts []string
	for _, e := range d {
		parts = append(parts, s.fields[e.f].name+" := "+s.fields[e.f].alts[e.a].label)
	}
	return "base header with " + strings.Join(parts, "; ")
}

func (s *space) choices(d desc, out []int) []int {
	out = out[:0]
	for range s.fields {
		out = append(out, 0)
	}
	for _, e := range d {
		out[e.f] = e.a
	}
	return out
}

// build constructs a fresh header. order selects the insertion order (and capacity hint) of the proofs map.
func (s *space) build(d desc, order int) tmconsensus.Header {
	var h tmconsensus.Header
	var chBuf [16]int
	ch := s.choices(d, chBuf[:0])
	var slotBuf [8]int
	slots := slotBuf[:0]
	for f := range s.fields {
		a := &s.fields[f].alts[ch[f]]
		if s.fields[f].slot {
			if a.slot.present {
				slots = append(slots, f)
			}
			continue
		}
		a.set(&h)
	}
	var m map[string][]gcrypto.SparseSignature
	if order == 0 {
		if len(slots) > 0 {
			m = make(map[string][]gcrypto.SparseSignature, len(slots))
		}
	} else {
		m = make(map[string][]gcrypto.SparseSignature)
		for i, j := 0, len(slots)-1; i < j; i, j = i+1, j-1 {
			slots[i], slots[j] = slots[j], slots[i]
		}
	}
	for _, f := range slots {
		st := s.fields[f].alts[ch[f]].slot
		var l []gcrypto.SparseSignature
		if !st.nilList {
			l = make([]gcrypto.SparseSignature, 0, len(st.list))
		}
		for _, ei := range st.list {
			e := s.entries[ei]
			l = append(l, gcrypto.SparseSignature{KeyID: bytes.Clone(e.KeyID), Sig: bytes.Clone(e.Sig)})
		}
		m[s.fields[f].key] = l
	}
	h.PrevCommitProof.Proofs = m
	return h
}

// canonTable is the canonical form derived from the descriptor tables (sorted by path).
func (s *space) canonTable(d desc) []kv {
	var chBuf [16]int
	ch := s.choices(d, chBuf[:0])
	var out []kv
	for f := range s.fields {
		out = append(out, s.fields[f].alts[ch[f]].canon...)
	}
	sort.Slice(out, func(i, j int) bool { return out[i].path < out[j].path })
	return out
}

func canonString(c []kv) string {
	var sb strings.Builder
	for _, e := range c {
		sb.WriteString(e.path)
		sb.WriteByte('=')
		sb.WriteString(e.val)
		sb.WriteByte('\n')
	}
	return sb.String()
}

func hx(b []byte) string { return hex.EncodeToString(b) }

var (
	hxMu    sync.Mutex
	hxCache = map[string]string{}
)

// hxKey is hx for public key bytes (a handful of distinct 32-byte values, encoded over and over).
func hxKey(b []byte) string {
	hxMu.Lock()
	defer hxMu.Unlock()
	if v, ok := hxCache[string(b)]; ok {
		return v
	}
	v := hex.EncodeToString(b)
	hxCache[string(b)] = v
	return v
}

func sigMultiset(l []gcrypto.SparseSignature) string {
	ss := make([]string, len(l))
	for i, e := range l {
		ss[i] = hx(e.KeyID) + ":" + hx(e.Sig)
	}
	sort.Strings(ss)
	return strings.Join(ss, ",")
}

func canonValSet(prefix string, vs tmconsensus.ValidatorSet) []kv {
	var a, b []string
	for _, v := range vs.Validators {
		a = append(a, hxKey(v.PubKey.PubKeyBytes())+"/"+strconv.FormatUint(v.Power, 10))
	}
	for _, k := range vs.PubKeys {
		b = append(b, hxKey(k.PubKeyBytes()))
	}
	return []kv{
		{prefix + ".PubKeyHash", hx(vs.PubKeyHash)},
		{prefix + ".PubKeys", strings.Join(b, ",")},
		{prefix + ".Validators", strings.Join(a, ",")},
		{prefix + ".VotePowerHash", hx(vs.VotePowerHash)},
	}
}

// canonOfHeader derives the canonical form from the header value itself, independently of the descriptor tables.
// Every leaf of tmconsensus.Header except Hash appears in it.
func canonOfHeader(h tmconsensus.Header) []kv {
	out := []kv{
		{"Annotations.Driver", hx(h.Annotations.Driver)},
		{"Annotations.User", hx(h.Annotations.User)},
		{"DataID", hx(h.DataID)},
		{"Height", strconv.FormatUint(h.Height, 10)},
		{"PrevAppStateHash", hx(h.PrevAppStateHash)},
		{"PrevBlockHash", hx(h.PrevBlockHash)},
		{"PrevCommitProof.PubKeyHash", hx([]byte(h.PrevCommitProof.PubKeyHash))},
		{"PrevCommitProof.Round", strconv.FormatUint(uint64(h.PrevCommitProof.Round), 10)},
	}
	for k, l := range h.PrevCommitProof.Proofs {
		out = append(out,
			kv{"PrevCommitProof.Proofs.keys[" + hx([]byte(k)) + "]", "present"},
			kv{"PrevCommitProof.Proofs.sigs[" + hx([]byte(k)) + "]", sigMultiset(l)})
	}
	out = append(out, canonValSet("ValidatorSet", h.ValidatorSet)...)
	out = append(out, canonValSet("NextValidatorSet", h.NextValidatorSet)...)
	sort.Slice(out, func(i, j int) bool { return out[i].path < out[j].path })
	return out
}

func stripIndex(p string) string {
	if i := strings.IndexByte(p, '['); i >= 0 {
		return p[:i]
	}
	return p
}

// diffClass names the header fields (map indices stripped) in which two canonical forms differ; "" if none.
func diffClass(a, b []kv) string {
	am := map[string]string{}
	for _, e := range a {
		am[e.path] = e.val
	}
	set := map[string]struct{}{}
	for _, e := range b {
		v, ok := am[e.path]
		if !ok || v != e.val {
			set[stripIndex(e.path)] = struct{}{}
		}
		delete(am, e.path)
	}
	for p := range am {
		set[stripIndex(p)] = struct{}{}
	}
	ps := make([]string, 0, len(set))
	for p := range set {
		ps = append(ps, p)
	}
	sort.Strings(ps)
	return strings.Join(ps, "+")
}

// classOf is diffClass on the table-derived canonical forms, restricted to the fields whose choice differs.
func (s *space) classOf(a, b desc) string {
	var ba, bb [16]int
	ca, cb := s.choices(a, ba[:0]), s.choices(b, bb[:0])
	var xa, xb []kv
	for f := range s.fields {
		if ca[f] != cb[f] {
			xa = append(xa, s.fields[f].alts[ca[f]].canon...)
			xb = append(xb, s.fields[f].alts[cb[f]].canon...)
		}
	}
	if len(xa) == 0 && len(xb) == 0 {
		return ""
	}
	return diffClass(xa, xb)
}

// ---- enumeration ----

type subset struct {
	fields []int
	size   int64
}

// subsets lists all sets of at most t fields (lexicographic by size then index), with the number of
// descriptors that change exactly those fields.
func (s *space) subsets(t int) []subset {
	var out []subset
	var rec func(start int, cur []int, size int64)
	for k := 0; k <= t; k++ {
		k := k
		rec = func(start int, cur []int, size int64) {
			if len(cur) == k {
				out = append(out, subset{append([]int(nil), cur...), size})
				return
			}
			for f := start; f < len(s.fields); f++ {
				rec(f+1, append(cur, f), size*int64(len(s.fields[f].alts)-1))
			}
		}
		rec(0, nil, 1)
	}
	return out
}

// inFamily reports whether a subset belongs to a family (at least minSz fields; only "pcp": PrevCommitProof fields only).
func (s *space) inFamily(sub subset, minSz int, only string) bool {
	if len(sub.fields) < minSz {
		return false
	}
	if only == "pcp" {
		for _, f := range sub.fields {
			if !strings.HasPrefix(s.fields[f].name, "PrevCommitProof") {
				return false
			}
		}
	}
	return true
}

// forEach calls fn with every descriptor that changes exactly the fields of sub (the slice is reused).
func (s *space) forEach(sub subset, fn func(d desc)) {
	d := make(desc, len(sub.fields))
	for i, f := range sub.fields {
		d[i] = ent{f, 1}
	}
	for {
		fn(d)
		i := len(d) - 1
		for ; i >= 0; i-- {
			d[i].a++
			if d[i].a < len(s.fields[d[i].f].alts) {
				break
			}
			d[i].a = 1
		}
		if i < 0 {
			return
		}
	}
}

// slotFields returns the indices of the slot fields.
func (s *space) slotFields() []int {
	var out []int
	for f := range s.fields {
		if s.fields[f].slot {
			out = append(out, f)
		}
	}
	return out
}

// forEachProd enumerates the full product of s.prod over all slot fields with the first slot fixed to
// its first-th product alternative.
func (s *space) forEachProd(first int, fn func(d desc)) {
	sf := s.slotFields()
	idx := make([]int, len(sf))
	idx[0] = first
	for {
		var d desc
		for i, f := range sf {
			if a := s.prod[f][idx[i]]; a != 0 {
				d = append(d, ent{f, a})
			}
		}
		fn(d)
		i := len(sf) - 1
		for ; i >= 1; i-- {
			idx[i]++
			if idx[i] < len(s.prod[sf[i]]) {
				break
			}
			idx[i] = 0
		}
		if i < 1 {
			return
		}
	}
}

// ---- the two spaces ----

var (
	spaceMu sync.Mutex
	spaces  = map[string]*space{}
)

func getSpace(name string) *space {
	spaceMu.Lock()
	defer spaceMu.Unlock()
	if s := spaces[name]; s != nil {
		return s
	}
	var s *space
	switch name {
	case "q":
		s = newSpace("q", false)
	case "t":
		s = newSpace("t", true)
	default:
		panic("c15: unknown space " + name)
	}
	spaces[name] = s
	return s
}

func bytesField(name string, set func(h *tmconsensus.Header, b []byte), vals ...[]byte) field {
	f := field{name: name}
	for i, v := range vals {
		v := v
		label := fmt.Sprintf("%q", v)
		if v == nil {
			label = "nil"
		} else if len(v) == 0 {
			label = "[]byte{}"
		}
		if i == 0 {
			label += " (base)"
		}
		f.alts = append(f.alts, alt{
			label: label,
			set: func(h *tmconsensus.Header) {
				if v == nil {
					set(h, nil)
				} else {
					set(h, append(make([]byte, 0, len(v)), v...))
				}
			},
			canon: []kv{{name, hx(v)}},
		})
	}
	return f
}

func hexText(b []byte) []byte { return []byte(hex.EncodeToString(b)) }

func flipLast(b []byte) []byte {
	c := bytes.Clone(b)
	c[len(c)-1] ^= 1
	return c
}

func valSetField(name string, get func(h *tmconsensus.Header) *tmconsensus.ValidatorSet, base []tmconsensus.Validator, extra tmconsensus.Validator, other []tmconsensus.Validator) field {
	hs := tmconsensustest.SimpleHashScheme{}
	mk := func(vs []tmconsensus.Validator) tmconsensus.ValidatorSet {
		set, err := tmconsensus.NewValidatorSet(append([]tmconsensus.Validator(nil), vs...), hs)
		if err != nil {
			panic(err)
		}
		return set
	}
	type va struct {
		label string
		set   tmconsensus.ValidatorSet
	}
	n := len(base)
	clone := func() []tmconsensus.Validator { return append([]tmconsensus.Validator(nil), base...) }
	var vas []va
	add := func(label string, set tmconsensus.ValidatorSet) { vas = append(vas, va{label, set}) }
	bs := mk(base)
	add(fmt.Sprintf("NewValidatorSet(%d deterministic validators) (base)", n), bs)
	// List changes, hashes recomputed by NewValidatorSet.
	add("drop last validator", mk(base[:n-1]))
	add("drop first validator", mk(base[1:]))
	{
		v := clone()
		v[0], v[1] = v[1], v[0]
		add("swap validators 0 and 1", mk(v))
	}
	{
		v := clone()
		v[0].Power++
		add("power[0]+1", mk(v))
	}
	{
		v := clone()
		v[n-1].Power++
		add("power[last]+1", mk(v))
	}
	{
		v := clone()
		v[0].Power, v[1].Power = v[1].Power, v[0].Power
		add("swap powers 0 and 1", mk(v))
	}
	{
		v := clone()
		v[0].Power, v[1].Power = 1, 11 // "1,11,..." next to "11,1,..." below: digit-boundary look-alikes
		add("powers 1,11", mk(v))
	}
	{
		v := clone()
		v[0].Power, v[1].Power = 11, 1
		add("powers 11,1", mk(v))
	}
	add("append one more validator", mk(append(clone(), extra)))
	add("the other validator field's base list", mk(other))
	// Raw hash-field changes, list unchanged.
	raw := func(label string, pkh, vph []byte) {
		x := bs
		x.PubKeyHash, x.VotePowerHash = pkh, vph
		add(label, x)
	}
	raw("PubKeyHash last bit flipped", flipLast(bs.PubKeyHash), bs.VotePowerHash)
	raw("VotePowerHash last bit flipped", bs.PubKeyHash, flipLast(bs.VotePowerHash))
	raw("PubKeyHash and VotePowerHash exchanged", bs.VotePowerHash, bs.PubKeyHash)
	raw("first byte of VotePowerHash moved to the end of PubKeyHash",
		append(bytes.Clone(bs.PubKeyHash), bs.VotePowerHash[0]), bytes.Clone(bs.VotePowerHash[1:]))
	raw("PubKeyHash nil", nil, bs.VotePowerHash)
	raw("VotePowerHash nil", bs.PubKeyHash, nil)

	f := field{name: name}
	for _, x := range vas {
		x := x
		f.alts = append(f.alts, alt{
			label: x.label,
			set: func(h *tmconsensus.Header) {
				vs := x.set
				vs.PubKeyHash = bytes.Clone(vs.PubKeyHash)
				vs.VotePowerHash = bytes.Clone(vs.VotePowerHash)
				*get(h) = vs
			},
			canon: canonValSet(name, x.set),
		})
	}
	return f
}

func newSpace(name string, rich bool) *space {
	s := &space{name: name}
	vals := tmconsensustest.DeterministicValidatorsEd25519(6).Vals()
	hs := tmconsensustest.SimpleHashScheme{}
	prevVS, err := tmconsensus.NewValidatorSet(append([]tmconsensus.Validator(nil), vals[:4]...), hs)
	if err != nil {
		panic(err)
	}

	prev := []byte("previous")
	pbh := [][]byte{prev, nil, {}, []byte("p"), []byte("previouz"), []byte("previous\n"), hexText(prev), []byte("previous\nHeight: 3")}
	if rich {
		pbh = append(pbh, []byte("Previous"), []byte("previou"))
	}
	s.fields = append(s.fields, bytesField("PrevBlockHash", func(h *tmconsensus.Header, b []byte) { h.PrevBlockHash = b }, pbh...))

	u64Field := func(name string, set func(h *tmconsensus.Header, v uint64), vals ...uint64) field {
		f := field{name: name}
		for i, v := range vals {
			v := v
			label := strconv.FormatUint(v, 10)
			if i == 0 {
				label += " (base)"
			}
			f.alts = append(f.alts, alt{label: label, set: func(h *tmconsensus.Header) { set(h, v) }, canon: []kv{{name, strconv.FormatUint(v, 10)}}})
		}
		return f
	}
	heights := []uint64{3, 0, 1, 2, 4, 30, 33, 1 << 32, math.MaxUint64}
	rounds := []uint64{0, 1, 2, 10, math.MaxUint32}
	if rich {
		heights = append(heights, 13, 31, math.MaxUint64-1)
		rounds = append(rounds, 3, 1<<31)
	}
	s.fields = append(s.fields, u64Field("Height", func(h *tmconsensus.Header, v uint64) { h.Height = v }, heights...))
	s.fields = append(s.fields, u64Field("PrevCommitProof.Round", func(h *tmconsensus.Header, v uint64) { h.PrevCommitProof.Round = uint32(v) }, rounds...))

	pkh := prevVS.PubKeyHash
	s.fields = append(s.fields, bytesField("PrevCommitProof.PubKeyHash",
		func(h *tmconsensus.Header, b []byte) { h.PrevCommitProof.PubKeyHash = string(b) },
		pkh, nil, []byte("x"), flipLast(pkh), hexText(pkh), append(bytes.Clone(pkh), '\n')))

	// Proof entries. e0 and e3 have the same concatenation KeyID||Sig.
	k0, k1 := []byte{0x01}, []byte{0x01, 0x02}
	s0, s1 := []byte{0x02, 0x03}, []byte{0x03}
	s.entries = []gcrypto.SparseSignature{{KeyID: k0, Sig: s0}, {KeyID: k0, Sig: s1}, {KeyID: k1, Sig: s0}, {KeyID: k1, Sig: s1}}
	if rich {
		s.entries = append(s.entries, gcrypto.SparseSignature{KeyID: nil, Sig: []byte{0x01, 0x02, 0x03}})
	}
	var states []slotState
	states = append(states, slotState{present: false})
	states = append(states, slotState{present: true, nilList: true})
	states = append(states, slotState{present: true})
	for i := range s.entries {
		states = append(states, slotState{present: true, list: []int{i}})
	}
	if rich {
		for i := range s.entries {
			for j := range s.entries {
				states = append(states, slotState{present: true, list: []int{i, j}})
			}
		}
	} else {
		// A duplicate, both orders of two pairs, and the pair whose concatenations coincide.
		for _, p := range [][]int{{0, 0}, {0, 1}, {1, 0}, {0, 3}, {3, 0}, {2, 3}} {
			states = append(states, slotState{present: true, list: p})
		}
	}
	stateLabel := func(st slotState) string {
		if !st.present {
			return "absent"
		}
		if st.nilList {
			return "nil slice"
		}
		var ps []string
		for _, ei := range st.list {
			e := s.entries[ei]
			ps = append(ps, "{KeyID:"+hx(e.KeyID)+" Sig:"+hx(e.Sig)+"}")
		}
		return "[" + strings.Join(ps, " ") + "]"
	}
	sameState := func(a, b slotState) bool {
		return a.present == b.present && a.nilList == b.nilList && fmt.Sprint(a.list) == fmt.Sprint(b.list)
	}
	prodStates := []slotState{{}, {present: true}, {present: true, list: []int{0}}, {present: true, list: []int{1}}, {present: true, list: []int{3}}, {present: true, list: []int{0, 3}}}
	if rich {
		prodStates = []slotState{{}, {present: true, nilList: true}, {present: true, list: []int{0}}, {present: true, list: []int{1}}, {present: true, list: []int{2}},
			{present: true, list: []int{3}}, {present: true, list: []int{0, 0}}, {present: true, list: []int{0, 3}}, {present: true, list: []int{1, 2}}}
	}
	type slotDef struct {
		key  string
		base slotState
	}
	slotDefs := []slotDef{
		{"", slotState{present: true, list: []int{1}}},
		{string(prev), slotState{present: true, list: []int{0, 2}}},
		{"other", slotState{}},
		{"<nil>", slotState{}},
		{string(hexText(prev)), slotState{}},
	}
	s.prod = make([][]int, len(s.fields), len(s.fields)+len(slotDefs)+8)
	for _, sd := range slotDefs {
		f := field{name: fmt.Sprintf("PrevCommitProof.Proofs[%q]", sd.key), slot: true, key: sd.key}
		ordered := []slotState{sd.base}
		for _, st := range states {
			if !sameState(st, sd.base) {
				ordered = append(ordered, st)
			}
		}
		for i, st := range ordered {
			st := st
			a := alt{label: stateLabel(st), slot: &st}
			if i == 0 {
				a.label += " (base)"
			}
			if st.present {
				var l []gcrypto.SparseSignature
				for _, ei := range st.list {
					l = append(l, s.entries[ei])
				}
				a.canon = []kv{
					{"PrevCommitProof.Proofs.keys[" + hx([]byte(sd.key)) + "]", "present"},
					{"PrevCommitProof.Proofs.sigs[" + hx([]byte(sd.key)) + "]", sigMultiset(l)},
				}
			}
			f.alts = append(f.alts, a)
		}
		var pa []int
		for _, ps := range prodStates {
			for i, st := range ordered {
				if sameState(st, ps) {
					pa = append(pa, i)
				}
			}
		}
		if len(pa) != len(prodStates) {
			panic("c15: product state not found")
		}
		s.fields = append(s.fields, f)
		s.prod = append(s.prod, pa)
	}

	s.fields = append(s.fields, valSetField("ValidatorSet", func(h *tmconsensus.Header) *tmconsensus.ValidatorSet { return &h.ValidatorSet }, vals[:4], vals[4], vals[:5]))
	s.fields = append(s.fields, valSetField("NextValidatorSet", func(h *tmconsensus.Header) *tmconsensus.ValidatorSet { return &h.NextValidatorSet }, vals[:5], vals[5], vals[:4]))

	did := []byte("data_id")
	s.fields = append(s.fields, bytesField("DataID", func(h *tmconsensus.Header, b []byte) { h.DataID = b },
		did, nil, []byte{}, []byte("d"), []byte("data_ie"), hexText(did), []byte("data_idp"), []byte("data_id\nPrevAppStateHash: 70")))
	pas := []byte("prev_app_state")
	s.fields = append(s.fields, bytesField("PrevAppStateHash", func(h *tmconsensus.Header, b []byte) { h.PrevAppStateHash = b },
		pas, nil, []byte{}, []byte("p"), []byte("prev_app_statf"), []byte("rev_app_state"), hexText(pas), []byte("prev_app_state\nUserAnnotation: 75")))
	s.fields = append(s.fields, bytesField("Annotations.User", func(h *tmconsensus.Header, b []byte) { h.Annotations.User = b },
		nil, []byte{}, []byte("u"), []byte("user"), []byte("driver"), []byte("d"), []byte("u\nDriverAnnotation: 64")))
	s.fields = append(s.fields, bytesField("Annotations.Driver", func(h *tmconsensus.Header, b []byte) { h.Annotations.Driver = b },
		nil, []byte{}, []byte("d"), []byte("driver"), []byte("user"), []byte("u")))

	for len(s.prod) < len(s.fields) {
		s.prod = append(s.prod, nil)
	}
	if len(s.fields) > 15 {
		panic("c15: too many fields for descriptor packing")
	}
	for _, f := range s.fields {
		if len(f.alts) > 256 {
			panic("c15: too many alternatives for descriptor packing")
		}
	}
	return s
}
