//go:build verif

package c15

import (
	"bytes"
	"encoding/base64"
	"encoding/binary"
	"encoding/json"
	"fmt"
	"runtime/debug"
	"strconv"
	"testing"

	"github.com/gordian-engine/gordian/internal/zzverif/vx"
	"github.com/gordian-engine/gordian/tm/tmconsensus"
	"github.com/gordian-engine/gordian/tm/tmconsensus/tmconsensustest"
)

// Part 1 — SimpleHashScheme.Block binds every header field other than Hash.
//
// Stage 1 (exec "c15enum"): a worker enumerates one shard of the header space. For every header it evaluates the
// single-header clauses (repeatable, independent of map construction order, independent of the Hash field, no panic,
// no error) on the real Block, groups the shard's headers by the full Block output and compares every header with the
// first header of its group (the shard representative). It returns one (64-bit output prefix, representative) record
// per distinct output, and one witness per kind of failure.
// Stage 2 (orchestrator, no call of the code under test): records of all shards are sorted by prefix; representatives
// that share a prefix are compared with the first of them on the table-derived canonical form.
// Stage 3 (exec "c15wit"): every kind of failure found in stage 1 or 2 is re-decided from scratch by a tiny job that
// rebuilds the two headers, calls the real Block on both, compares the FULL outputs and derives the differing fields
// from the header values themselves (canonOfHeader). Only stage 3 reports violations, so every violation has a
// two-header replay file.
//
// Why comparing with representatives only is enough: if every member of a shard group differs from its shard
// representative in signatures only (or nothing), and every shard representative differs from the global
// representative in signatures only (or nothing), then all members agree on every other field; so any collision in
// a field set that is not the listed one shows up as a different class in one of the two comparisons.

const propID = "C15"

func init() {
	registry.Execs["c15enum"] = execEnum
	registry.Execs["c15wit"] = execWit
	registry.Execs["c15obs"] = execObs
	registry.Checks[propID] = checkC15
}

type witness struct {
	Kind  string `json:"kind"` // "pair", "one", "sign"
	A     string `json:"a"`
	B     string `json:"b,omitempty"`
	Class string `json:"class"`
}

type enumObs struct {
	Recs string    `json:"recs,omitempty"` // base64 of 16-byte records: 8 bytes output prefix, 8 bytes packed descriptor (little endian)
	Wit  []witness `json:"wit,omitempty"`
	// Sample is one explored case written out.
	Sample map[string]any `json:"sample,omitempty"`
}

var hashVariants = [][]byte{[]byte("some hash")}

// safeBlock calls the real Block, turning a panic into an error string.
func safeBlock(h tmconsensus.Header) (out []byte, fail string) {
	defer func() {
		if r := recover(); r != nil {
			out, fail = nil, fmt.Sprintf("panic: %v", r)
		}
	}()
	b, err := tmconsensustest.SimpleHashScheme{}.Block(h)
	if err != nil {
		return nil, "error: " + err.Error()
	}
	return b, ""
}

// checkOne evaluates the single-header clauses; reps is the number of repeated evaluations per construction order.
// It returns the Block output of the header and "" or the failed clause and a message.
func checkOne(s *space, d desc, reps int) (out []byte, clause, msg string, calls int64) {
	h := s.build(d, 0)
	out, fail := safeBlock(h)
	calls++
	if fail != "" {
		if fail[0] == 'p' {
			return nil, "block-panic", fail, calls
		}
		return nil, "block-error", fail, calls
	}
	for order := 0; order < 2; order++ {
		hh := h
		if order == 1 {
			hh = s.build(d, 1) // same header, proofs map filled in reverse order without a capacity hint
		}
		for i := 0; i < reps; i++ {
			if order == 0 && i == 0 {
				continue // that was the first evaluation above
			}
			o2, fail := safeBlock(hh)
			calls++
			if fail != "" {
				return nil, "block-panic", "on re-evaluation: " + fail, calls
			}
			if !bytes.Equal(o2, out) {
				return out, "block-nondeterministic", fmt.Sprintf("evaluation %d (construction order %d) returned %x, the first returned %x", i, order, o2, out), calls
			}
		}
	}
	for i := 0; i <= len(hashVariants); i++ {
		hh := h
		if i < len(hashVariants) {
			hh.Hash = bytes.Clone(hashVariants[i])
		} else {
			hh.Hash = bytes.Clone(out) // the correct hash
		}
		o2, fail := safeBlock(hh)
		calls++
		if fail != "" {
			return nil, "block-panic", fmt.Sprintf("with Hash=%x: %s", hh.Hash, fail), calls
		}
		if !bytes.Equal(o2, out) {
			return out, "block-consults-hash-field", fmt.Sprintf("with Hash=%x Block returned %x, with Hash=nil %x", hh.Hash, o2, out), calls
		}
	}
	return out, "", "", calls
}

func prefix64(out []byte) uint64 {
	var b [8]byte
	copy(b[:], out)
	return binary.LittleEndian.Uint64(b[:])
}

func execEnum(t *testing.T, job vx.Job) (res vx.Result) {
	defer func() {
		if r := recover(); r != nil {
			res.HarnessErr = fmt.Sprintf("c15enum: harness panic: %v", r)
		}
	}()
	tuneGC()
	s := getSpace(job.Args["space"])
	var obs enumObs
	groups := map[string]uint64{} // full Block output -> packed representative descriptor
	var recs []byte
	seenWit := map[string]bool{}
	addWit := func(w witness) {
		k := w.Kind + "|" + w.Class
		if !seenWit[k] {
			seenWit[k] = true
			obs.Wit = append(obs.Wit, w)
		}
	}
	var headers, calls, collide, canonEq int64
	var harnessErr string
	visit := func(d desc) {
		headers++
		out, clause, _, n := checkOne(s, d, 2)
		calls += n
		if clause != "" {
			res.Count("single_header_failures:"+clause, 1)
			addWit(witness{Kind: "one", A: d.String(), Class: clause})
			if out == nil {
				return
			}
		}
		// Harness self-check: the table-derived canonical form must be the one derived from the built header.
		if headers%32 == 1 || len(d) <= 1 {
			if a, b := canonString(s.canonTable(d)), canonString(canonOfHeader(s.build(d, 1))); a != b {
				harnessErr = fmt.Sprintf("canonical form tables disagree with the built header for %s:\n%s\nvs\n%s", d, a, b)
			}
			res.Count("canon_selfchecks", 1)
		}
		p := d.pack()
		if rep, ok := groups[string(out)]; ok {
			cl := s.classOf(unpackDesc(rep), d)
			if cl == "" {
				canonEq++ // same canonical header (nil vs empty), same output: fine
				return
			}
			collide++
			res.Count("in_shard_collisions:"+cl, 1)
			addWit(witness{Kind: "pair", A: unpackDesc(rep).String(), B: d.String(), Class: cl})
			return
		}
		groups[string(out)] = p
		var r [16]byte
		binary.LittleEndian.PutUint64(r[:8], prefix64(out))
		binary.LittleEndian.PutUint64(r[8:], p)
		recs = append(recs, r[:]...)
		if obs.Sample == nil && len(d) >= 2 {
			obs.Sample = map[string]any{"descriptor": d.String(), "header": s.describe(d), "Block": fmt.Sprintf("%x", out)}
		}
	}
	switch job.Args["fam"] {
	case "tw":
		tw, _ := strconv.Atoi(job.Args["t"])
		lo, _ := strconv.Atoi(job.Args["lo"])
		hi, _ := strconv.Atoi(job.Args["hi"])
		subs := s.subsets(tw)
		if hi > len(subs) || lo < 0 || lo > hi {
			res.HarnessErr = "c15enum: bad subset range"
			return res
		}
		minSz, _ := strconv.Atoi(job.Args["min"])
		for _, sub := range subs[lo:hi] {
			if s.inFamily(sub, minSz, job.Args["only"]) {
				s.forEach(sub, visit)
			}
		}
	case "prod":
		first, _ := strconv.Atoi(job.Args["first"])
		s.forEachProd(first, visit)
	default:
		res.HarnessErr = "c15enum: unknown family"
		return res
	}
	if harnessErr != "" {
		res.HarnessErr = harnessErr
		return res
	}
	obs.Recs = base64.StdEncoding.EncodeToString(recs)
	res.Count("headers", headers)
	res.Count("block_calls", calls)
	res.Count("in_shard_colliding_headers", collide)
	res.Count("canonically_equal_same_output", canonEq)
	res.Count("shard_distinct_outputs", int64(len(groups)))
	res.Outcome = "enum:ok"
	if len(obs.Wit) > 0 {
		res.Outcome = "enum:failures-found"
	}
	res.Obs, _ = json.Marshal(obs)
	return res
}

// execWit re-decides one suspected failure from scratch. It is the only place where violations are reported.
func execWit(t *testing.T, job vx.Job) (res vx.Result) {
	defer func() {
		if r := recover(); r != nil {
			res.HarnessErr = fmt.Sprintf("c15wit: harness panic: %v", r)
		}
	}()
	switch job.Args["kind"] {
	case "sign":
		return witSign(job)
	case "one":
		s := getSpace(job.Args["space"])
		d, err := s.parseDesc(job.Args["a"])
		if err != nil {
			res.HarnessErr = err.Error()
			return res
		}
		_, clause, msg, _ := checkOne(s, d, 64)
		res.Outcome = "wit:one:" + clause
		if clause != "" {
			res.Violate(propID, clause, fmt.Sprintf("SimpleHashScheme.Block on %s (descriptor %s): %s", s.describe(d), d, msg), 0)
		}
		return res
	case "pair":
		s := getSpace(job.Args["space"])
		da, err1 := s.parseDesc(job.Args["a"])
		db, err2 := s.parseDesc(job.Args["b"])
		if err1 != nil || err2 != nil {
			res.HarnessErr = fmt.Sprint(err1, err2)
			return res
		}
		ha, hb := s.build(da, 0), s.build(db, 0)
		oa, fa := safeBlock(ha)
		ob, fb := safeBlock(hb)
		if fa != "" || fb != "" {
			res.Violate(propID, "block-panic", fmt.Sprintf("Block failed: %s %s", fa, fb), 0)
			return res
		}
		// Differing fields from the header values themselves.
		cl := diffClass(canonOfHeader(ha), canonOfHeader(hb))
		res.Outcome = "wit:pair:distinct-outputs"
		if bytes.Equal(oa, ob) && cl != "" {
			res.Outcome = "wit:pair:collision:" + cl
			res.Violate(propID, "block-collision:"+cl, fmt.Sprintf(
				"SimpleHashScheme.Block returns the same hash %x for two headers that differ in %s:\n A = %s (descriptor %s)\n B = %s (descriptor %s)\n A: %s\n B: %s",
				oa, cl, s.describe(da), da, s.describe(db), db, diffText(ha, hb, true), diffText(ha, hb, false)), 0)
		}
		return res
	}
	res.HarnessErr = "c15wit: unknown kind"
	return res
}

// diffText renders the canonical entries of one side that differ from the other side.
func diffText(ha, hb tmconsensus.Header, first bool) string {
	a, b := canonOfHeader(ha), canonOfHeader(hb)
	if !first {
		a, b = b, a
	}
	bm := map[string]string{}
	for _, e := range b {
		bm[e.path] = e.val
	}
	var out string
	for _, e := range a {
		if v, ok := bm[e.path]; !ok || v != e.val {
			out += fmt.Sprintf("%s=%s ", e.path, e.val)
		}
	}
	return out
}

// tuneGC: measured on one shard (19720 headers): GOGC 100..400 about 2.5 CPU-s, 1000 about 5 s, "off until 256 MiB" 10 s and
// more: the workers produce a few KB of short-lived garbage per header and run fastest when the heap stays cache-sized.
func tuneGC() { debug.SetGCPercent(200) }
