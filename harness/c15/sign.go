//go:build verif

package c15

import (
	"bytes"
	"crypto/sha256"
	"encoding/base64"
	"encoding/binary"
	"encoding/json"
	"fmt"
	"math"
	"sort"
	"strconv"
	"strings"
	"testing"

	"github.com/gordian-engine/gordian/internal/zzverif/vx"
	"github.com/gordian-engine/gordian/tm/tmconsensus"
	"github.com/gordian-engine/gordian/tm/tmconsensus/tmconsensustest"
)

// Part 2 — sign bytes of SimpleSignatureScheme (through tmconsensus.PrevoteSignBytes / PrecommitSignBytes /
// ProposalSignBytes, the functions the signer and the mirror use) are injective over
//   votes:     (kind, Height, Round, BlockHash)              BlockHash "" is the nil vote
//   proposals: (Height, Round, PrevBlockHash, PrevAppStateHash, DataID, Annotations.User, Annotations.Driver)
// and no proposal output equals a vote output.
//
// Reading of the statement (the weaker one, on purpose): "proposal contents" are the seven values the scheme is
// given to serialise for a proposal. That the proposal sign bytes do not cover Header.Hash, the validator sets, the
// previous commit proof and the header annotations is measured and reported as an observation (exec c15obs, evidence
// key proposal_sign_bytes_unaffected_by), not as a violation. nil and zero-length byte slices are the same value.

const (
	kPrevote = iota
	kPrecommit
	kProposal
)

var kindNames = []string{"prevote", "precommit", "proposal"}

type signDom struct {
	heights []uint64
	rounds  []uint32
	hashes  []string
	pH      []uint64
	pR      []uint32
	pbh     [][]byte
	pash    [][]byte
	did     [][]byte
	user    [][]byte
	driver  [][]byte
}

func bs(ss ...string) [][]byte {
	out := make([][]byte, len(ss))
	for i, s := range ss {
		switch s {
		case "<nil>":
			out[i] = nil
		case "<empty>":
			out[i] = []byte{}
		default:
			out[i] = []byte(s)
		}
	}
	return out
}

func getSignDom(name string) *signDom {
	d := &signDom{
		heights: []uint64{0, 1, 9, 10, 11, math.MaxUint64},
		rounds:  []uint32{0, 1, 10, 11, math.MaxUint32},
		// "ab" next to its hex text "6162" and the hex text of that; separators, labels and whole forged lines.
		hashes: []string{"", "a", "ab", "6162", "36313632", "\n", "=", "a\n", "\x00", "0", "a\nRound=1", "\nHeight=1\nRound=0\n", "NIL PREVOTE:", "PRECOMMIT:\nHeight=1"},
		pH:     []uint64{0, 1, 10, 11, math.MaxUint64},
		pR:     []uint32{0, 1, 11, math.MaxUint32},
		// The pairs ("a\nPrevAppStateHash=b","c")/("a","b\nPrevAppStateHash=c"), ("s\nDataID=d","e")/("s","d\nDataID=e") and
		// ("e\nUserAnnotation=75", nil)/("e","u") become equal outputs as soon as one field is written unescaped.
		pbh:    bs("<nil>", "<empty>", "a", "ab", "6162", "a\nPrevAppStateHash=b"),
		pash:   bs("<nil>", "b", "c", "b\nPrevAppStateHash=c", "s", "s\nDataID=d"),
		did:    bs("<nil>", "d", "e", "d\nDataID=e", "e\nUserAnnotation=75", "a"),
		user:   bs("<nil>", "<empty>", "u", "x", "u\nDriverAnnotation=78", "75"),
		driver: bs("<nil>", "<empty>", "x", "u", "d", "78"),
	}
	if name == "t" {
		d.heights = append(d.heights, 2, 99, 100, 1<<32, math.MaxUint64-1)
		d.rounds = append(d.rounds, 2, 9, 100, 1<<31)
		d.hashes = append(d.hashes, "b", "ba", "a\x00", "\x00a", "61", "a=", "BlockHash=61", " ", "ab\n", "PROPOSAL:\nHeight=0\nRound=0\nPrevBlockHash=\nPrevAppStateHash=\nDataID=\n")
		d.pH = append(d.pH, 9, 100)
		d.pR = append(d.pR, 10)
		d.pbh = append(d.pbh, bs("b", "a\n", "\n")...)
		d.pash = append(d.pash, bs("<empty>", "a", "\nDataID=")...)
		d.did = append(d.did, bs("<empty>", "s", "\n")...)
		d.user = append(d.user, bs("d", "user")...)
		d.driver = append(d.driver, bs("driver", "user")...)
	}
	return d
}

type signTuple struct {
	kind                        int
	height                      uint64
	round                       uint32
	hash                        string
	pbh, pash, did, user, drivr []byte
}

func (d *signDom) voteCount() uint64 {
	return uint64(len(d.heights) * len(d.rounds) * len(d.hashes))
}

func (d *signDom) proposalCount() uint64 {
	return uint64(len(d.pH) * len(d.pR) * len(d.pbh) * len(d.pash) * len(d.did) * len(d.user) * len(d.driver))
}

func tupleID(kind int, idx uint64) uint64 { return uint64(kind)<<56 | idx }

func (d *signDom) tuple(id uint64) (signTuple, error) {
	kind, idx := int(id>>56), id&(1<<56-1)
	t := signTuple{kind: kind}
	switch kind {
	case kPrevote, kPrecommit:
		if idx >= d.voteCount() {
			return t, fmt.Errorf("bad tuple id %d", id)
		}
		t.hash = d.hashes[idx%uint64(len(d.hashes))]
		idx /= uint64(len(d.hashes))
		t.round = d.rounds[idx%uint64(len(d.rounds))]
		idx /= uint64(len(d.rounds))
		t.height = d.heights[idx]
	case kProposal:
		if idx >= d.proposalCount() {
			return t, fmt.Errorf("bad tuple id %d", id)
		}
		pick := func(l [][]byte) []byte {
			v := l[idx%uint64(len(l))]
			idx /= uint64(len(l))
			return v
		}
		t.drivr = pick(d.driver)
		t.user = pick(d.user)
		t.did = pick(d.did)
		t.pash = pick(d.pash)
		t.pbh = pick(d.pbh)
		t.round = d.pR[idx%uint64(len(d.pR))]
		idx /= uint64(len(d.pR))
		t.height = d.pH[idx]
	default:
		return t, fmt.Errorf("bad tuple id %d", id)
	}
	return t, nil
}

func (t signTuple) canon() []kv {
	out := []kv{{"kind", kindNames[t.kind]}, {"Height", strconv.FormatUint(t.height, 10)}, {"Round", strconv.FormatUint(uint64(t.round), 10)}}
	if t.kind == kProposal {
		return append(out, kv{"PrevBlockHash", hx(t.pbh)}, kv{"PrevAppStateHash", hx(t.pash)}, kv{"DataID", hx(t.did)},
			kv{"Annotations.User", hx(t.user)}, kv{"Annotations.Driver", hx(t.drivr)})
	}
	return append(out, kv{"BlockHash", hx([]byte(t.hash))})
}

func (t signTuple) String() string {
	if t.kind == kProposal {
		return fmt.Sprintf("proposal{Height:%d Round:%d PrevBlockHash:%q PrevAppStateHash:%q DataID:%q Annotations.User:%s Annotations.Driver:%s}",
			t.height, t.round, t.pbh, t.pash, t.did, nilq(t.user), nilq(t.drivr))
	}
	return fmt.Sprintf("%s{Height:%d Round:%d BlockHash:%q}", kindNames[t.kind], t.height, t.round, t.hash)
}

func nilq(b []byte) string {
	if b == nil {
		return "nil"
	}
	return fmt.Sprintf("%q", b)
}

// signClass names what distinguishes two tuples; "" when they are canonically the same.
func signClass(a, b signTuple) string {
	if a.kind != b.kind {
		ks := []string{kindNames[a.kind], kindNames[b.kind]}
		sort.Strings(ks)
		return "kind(" + ks[0] + "/" + ks[1] + ")"
	}
	var ps []string
	ca, cb := a.canon(), b.canon()
	for i := range ca {
		if ca[i].val != cb[i].val {
			ps = append(ps, ca[i].path)
		}
	}
	sort.Strings(ps)
	return strings.Join(ps, "+")
}

// signBytes calls the real code for one tuple.
func signBytes(t signTuple) (out []byte, fail string) {
	defer func() {
		if r := recover(); r != nil {
			out, fail = nil, fmt.Sprintf("panic: %v", r)
		}
	}()
	var s tmconsensustest.SimpleSignatureScheme
	var err error
	switch t.kind {
	case kPrevote:
		out, err = tmconsensus.PrevoteSignBytes(tmconsensus.VoteTarget{Height: t.height, Round: t.round, BlockHash: t.hash}, s)
	case kPrecommit:
		out, err = tmconsensus.PrecommitSignBytes(tmconsensus.VoteTarget{Height: t.height, Round: t.round, BlockHash: t.hash}, s)
	case kProposal:
		h := tmconsensus.Header{Height: t.height, PrevBlockHash: cloneKeepNil(t.pbh), PrevAppStateHash: cloneKeepNil(t.pash), DataID: cloneKeepNil(t.did)}
		out, err = tmconsensus.ProposalSignBytes(h, t.round, tmconsensus.Annotations{User: cloneKeepNil(t.user), Driver: cloneKeepNil(t.drivr)}, s)
	}
	if err != nil {
		return nil, "error: " + err.Error()
	}
	return out, ""
}

func cloneKeepNil(b []byte) []byte {
	if b == nil {
		return nil
	}
	return append(make([]byte, 0, len(b)), b...)
}

func init() {
	registry.Execs["c15sign"] = execSign
}

func execSign(t *testing.T, job vx.Job) (res vx.Result) {
	defer func() {
		if r := recover(); r != nil {
			res.HarnessErr = fmt.Sprintf("c15sign: harness panic: %v", r)
		}
	}()
	tuneGC()
	d := getSignDom(job.Args["dom"])
	var ids []uint64
	switch job.Args["fam"] {
	case "votes":
		for k := kPrevote; k <= kPrecommit; k++ {
			for i := uint64(0); i < d.voteCount(); i++ {
				ids = append(ids, tupleID(k, i))
			}
		}
	case "proposal":
		// One shard per (Height, Round) pair: these are the two most significant digits of the index.
		hr, _ := strconv.ParseUint(job.Args["hr"], 10, 64)
		per := d.proposalCount() / uint64(len(d.pH)*len(d.pR))
		if hr >= uint64(len(d.pH)*len(d.pR)) {
			res.HarnessErr = "c15sign: bad shard"
			return res
		}
		for i := hr * per; i < (hr+1)*per; i++ {
			ids = append(ids, tupleID(kProposal, i))
		}
	default:
		res.HarnessErr = "c15sign: unknown family"
		return res
	}
	var obs enumObs
	seenWit := map[string]bool{}
	addWit := func(w witness) {
		k := w.Kind + "|" + w.Class
		if !seenWit[k] {
			seenWit[k] = true
			obs.Wit = append(obs.Wit, w)
		}
	}
	groups := map[string]uint64{}
	type kept struct {
		id   uint64
		live []byte // the slice as returned
		copy string // its content when returned
	}
	var keptAll []kept
	var recs []byte
	var calls, collide, canonEq int64
	for _, id := range ids {
		tp, err := d.tuple(id)
		if err != nil {
			res.HarnessErr = err.Error()
			return res
		}
		out, fail := signBytes(tp)
		calls++
		if fail != "" {
			addWit(witness{Kind: "sign", A: strconv.FormatUint(id, 10), Class: "signbytes-" + strings.SplitN(fail, ":", 2)[0]})
			continue
		}
		o2, _ := signBytes(tp)
		calls++
		if !bytes.Equal(out, o2) {
			addWit(witness{Kind: "sign", A: strconv.FormatUint(id, 10), Class: "signbytes-nondeterministic"})
		}
		keptAll = append(keptAll, kept{id, out, string(out)})
		key := string(out)
		if rep, ok := groups[key]; ok {
			rt, _ := d.tuple(rep)
			cl := signClass(rt, tp)
			if cl == "" {
				canonEq++
				continue
			}
			collide++
			res.Count("in_shard_signbytes_collisions:"+cl, 1)
			addWit(witness{Kind: "sign", A: strconv.FormatUint(rep, 10), B: strconv.FormatUint(id, 10), Class: "signbytes-collision:" + cl})
			continue
		}
		groups[key] = id
		sum := sha256.Sum256(out)
		var r [16]byte
		copy(r[:8], sum[:8])
		binary.LittleEndian.PutUint64(r[8:], id)
		recs = append(recs, r[:]...)
		if obs.Sample == nil && (tp.kind != kProposal || (tp.user != nil && tp.pbh != nil)) {
			obs.Sample = map[string]any{"tuple": tp.String(), "sign_bytes": string(out)}
		}
	}
	// The returned slices must still hold what they held when they were returned (they come out of a buffer pool).
	for _, k := range keptAll {
		if string(k.live) != k.copy {
			addWit(witness{Kind: "sign", A: strconv.FormatUint(k.id, 10), Class: "signbytes-mutated-after-return"})
			break
		}
	}
	obs.Recs = base64.StdEncoding.EncodeToString(recs)
	res.Count("sign_tuples", int64(len(ids)))
	res.Count("sign_calls", calls)
	res.Count("in_shard_signbytes_colliding_tuples", collide)
	res.Count("sign_canonically_equal_same_output", canonEq)
	res.Count("shard_distinct_sign_outputs", int64(len(groups)))
	res.Outcome = "sign:ok"
	if len(obs.Wit) > 0 {
		res.Outcome = "sign:failures-found"
	}
	res.Obs, _ = json.Marshal(obs)
	return res
}

func witSign(job vx.Job) (res vx.Result) {
	d := getSignDom(job.Args["dom"])
	ida, err := strconv.ParseUint(job.Args["a"], 10, 64)
	if err != nil {
		res.HarnessErr = err.Error()
		return res
	}
	ta, err := d.tuple(ida)
	if err != nil {
		res.HarnessErr = err.Error()
		return res
	}
	oa, fa := signBytes(ta)
	if fa != "" {
		res.Violate(propID, "signbytes-"+strings.SplitN(fa, ":", 2)[0], fmt.Sprintf("sign bytes for %s: %s", ta, fa), 0)
		return res
	}
	if job.Args["b"] == "" {
		// Single-tuple clauses: repeatable, and stable after later calls.
		keep := string(oa)
		for i := 0; i < 64; i++ {
			o2, _ := signBytes(ta)
			if !bytes.Equal(o2, []byte(keep)) {
				res.Violate(propID, "signbytes-nondeterministic", fmt.Sprintf("sign bytes for %s differ between evaluations: %q vs %q", ta, keep, o2), 0)
				return res
			}
		}
		for k := 0; k < 3; k++ {
			n := d.voteCount()
			if k == kProposal {
				n = d.proposalCount()
			}
			for i := uint64(0); i < 64 && i < n; i++ {
				if tb, err := d.tuple(tupleID(k, i)); err == nil {
					signBytes(tb)
				}
			}
		}
		res.Outcome = "wit:sign:stable"
		if string(oa) != keep {
			res.Outcome = "wit:sign:mutated"
			res.Violate(propID, "signbytes-mutated-after-return", fmt.Sprintf(
				"the slice returned for %s held %q and holds %q after later calls: the bytes a caller signs are not the ones it asked for", ta, keep, oa), 0)
		}
		return res
	}
	idb, err := strconv.ParseUint(job.Args["b"], 10, 64)
	if err != nil {
		res.HarnessErr = err.Error()
		return res
	}
	tb, err := d.tuple(idb)
	if err != nil {
		res.HarnessErr = err.Error()
		return res
	}
	ob, fb := signBytes(tb)
	if fb != "" {
		res.Violate(propID, "signbytes-"+strings.SplitN(fb, ":", 2)[0], fmt.Sprintf("sign bytes for %s: %s", tb, fb), 0)
		return res
	}
	cl := signClass(ta, tb)
	res.Outcome = "wit:sign:distinct-outputs"
	if bytes.Equal(oa, ob) && cl != "" {
		res.Outcome = "wit:sign:collision:" + cl
		res.Violate(propID, "signbytes-collision:"+cl, fmt.Sprintf("identical sign bytes %q for\n A = %s\n B = %s\nwhich differ in %s", oa, ta, tb, cl), 0)
	}
	return res
}

// execObs measures which header fields the proposal sign bytes do not depend on (an observation, see the top of this file),
// and that every field they are documented to cover does change them.
func execObs(t *testing.T, job vx.Job) (res vx.Result) {
	defer func() {
		if r := recover(); r != nil {
			res.HarnessErr = fmt.Sprintf("c15obs: harness panic: %v", r)
		}
	}()
	s := getSpace(job.Args["space"])
	var scheme tmconsensustest.SimpleSignatureScheme
	sb := func(d desc) string {
		h := s.build(d, 0)
		if out, fail := safeBlock(h); fail == "" {
			h.Hash = out
		}
		b, err := tmconsensus.ProposalSignBytes(h, 0, tmconsensus.Annotations{}, scheme)
		if err != nil {
			panic(err)
		}
		return string(b)
	}
	base := sb(nil)
	var unaffected, affected []string
	for f := range s.fields {
		changed := 0
		for a := 1; a < len(s.fields[f].alts); a++ {
			if sb(desc{{f, a}}) != base {
				changed++
			}
		}
		if changed == 0 {
			unaffected = append(unaffected, s.fields[f].name)
		} else {
			affected = append(affected, fmt.Sprintf("%s (%d of %d changes)", s.fields[f].name, changed, len(s.fields[f].alts)-1))
		}
	}
	// Header.Hash itself.
	h := s.build(nil, 0)
	h.Hash = []byte("another hash")
	if b, err := tmconsensus.ProposalSignBytes(h, 0, tmconsensus.Annotations{}, scheme); err == nil && string(b) == base {
		unaffected = append(unaffected, "Hash")
	}
	res.Obs, _ = json.Marshal(map[string]any{"unaffected": unaffected, "affected": affected, "base_sign_bytes": base})
	res.Outcome = "obs"
	return res
}
