//go:build verif

package c15

import (
	"encoding/base64"
	"encoding/binary"
	"encoding/json"
	"fmt"
	"sort"
	"strconv"
	"time"

	"github.com/gordian-engine/gordian/internal/zzverif/vx"
)

// C15 — block hashes bind all header fields; sign bytes are domain separated (E-SEQ, bounded exhaustive inputs).
//
// Bounds.
//   quick:    part 1: every header that differs from the base header in at most 3 of the 15 descriptor fields
//             (space "q": 4 proof entries, signature slices of length <= 2), plus the full product of 6 states over
//             the 5 proof-map slots; part 2: all vote tuples and the full product of the proposal domain "q".
//   thorough: the same with space "t" (5 proof entries, a few more scalar values) for <= 3 fields, additionally
//             every header of space "q" differing in exactly 4 fields, the 9-state slot product, and sign domain "t".
// DESIGN.md asks for single and pairwise changes; three- and four-fold changes are a superset.

// Known finding on the unchanged tree (/verif/known_findings.d/C15.json, signature
// "block-collision:PrevCommitProof.Proofs.sigs"): SimpleHashScheme.Block looks the signatures of each proof entry up with
// the hex-FORMATTED key (`sigs := h.PrevCommitProof.Proofs[blockHash]`), which is never a key of the map, so every entry
// is serialised as "<key> => ()" and no KeyID/Sig reaches the hash. Smallest witness: c15wit a=base b=4.2 kind=pair space=q
// (base header vs the same header with Proofs[""] = nil: same hash 07f7bf44...). With the lookup done by the raw key
// (keep a formatted->raw map next to prevCommitBlocks) this check reports nothing at all.
// A collision whose differing fields are anything but exactly the signature multiset has another signature and alarms.
//
// Observation that is deliberately not in the oracle (evidence key proposal_sign_bytes_unaffected_by): the proposal
// sign bytes cover Height, Round, PrevBlockHash, PrevAppStateHash, DataID and the proposal annotations only; not
// Header.Hash, the validator sets, the commit proof or the header annotations.

type rec struct{ key, id uint64 }

// extraFamilyCap: no new batch of the optional 4-field family is started after this much wall time.
const extraFamilyCap = 8 * time.Minute

func decodeRecs(b64 string, into []rec) ([]rec, error) {
	raw, err := base64.StdEncoding.DecodeString(b64)
	if err != nil || len(raw)%16 != 0 {
		return into, fmt.Errorf("bad record block (%v, %d bytes)", err, len(raw))
	}
	for i := 0; i < len(raw); i += 16 {
		into = append(into, rec{binary.LittleEndian.Uint64(raw[i:]), binary.LittleEndian.Uint64(raw[i+8:])})
	}
	return into, nil
}

type witSet struct {
	max   int
	byCls map[string][]witness
	count map[string]int64
}

func newWitSet(max int) *witSet {
	return &witSet{max: max, byCls: map[string][]witness{}, count: map[string]int64{}}
}

func (w *witSet) add(x witness, n int64) {
	k := x.Kind + "|" + x.Class
	w.count[k] += n
	if len(w.byCls[k]) < w.max {
		w.byCls[k] = append(w.byCls[k], x)
	}
}

type family struct {
	space string
	t     int    // enumerate subsets of at most t fields ...
	minSz int    // ... and at least minSz fields
	only  string // "" or "pcp": only subsets made of PrevCommitProof fields
}

func checkC15(c *vx.Ctx) {
	c.Level = "exploration"
	spName, signName := "q", "q"
	// The first family and the slot product use space spName and must complete; the others run in batches under a time cap.
	fams := []family{{"q", 2, 0, ""}, {"q", 3, 3, "pcp"}, {"t", 2, 0, ""}}
	if !c.Quick() {
		spName, signName = "t", "t"
		fams = []family{{"t", 3, 0, ""}, {"q", 4, 4, ""}}
	}
	famText := ""
	for i, fam := range fams {
		if i > 0 {
			famText += "; "
		}
		famText += fmt.Sprintf("space %s: every combination of alternatives on every set of %d..%d fields%s", fam.space, fam.minSz, fam.t,
			map[string]string{"": "", "pcp": " taken among the 7 PrevCommitProof fields"}[fam.only])
	}
	c.Rule = "part 1: headers are a well-formed base header with some of 15 descriptor fields changed (a field is a leaf field of Header other than Hash; PrevCommitProof.Proofs has one field per candidate map key: absent or present with a signature slice). " +
		"Enumerated completely: " + famText + "; plus the full product of slot states over the 5 proof-map keys (space " + spName + "). " +
		"Each header is hashed by the real SimpleHashScheme.Block 6 times (2 evaluations x 2 map construction orders, then with Hash set to an arbitrary value and to the correct hash); " +
		"headers are grouped by Block output and two headers of a group must have the same canonical form. " +
		"part 2: every (kind,height,round,hash) vote tuple and the full product of the proposal domain through the real Prevote/Precommit/ProposalSignBytes; outputs are grouped and two tuples of a group must be canonically equal. " +
		"A case is one header or one tuple; it is non-trivial when it is evaluated on the real code and compared with the others; distinct_nontrivial counts distinct 64-bit prefixes of the Block outputs of space " + spName + " plus distinct sign-byte outputs (prefix of their sha256)."

	// ---- stage 1 jobs ----
	type jobMeta struct{ part, space string }
	var expectHeaders int64
	famJobs := func(fam family) (jobs []vx.Job, meta []jobMeta, sizes []int64) {
		s := getSpace(fam.space)
		subs := s.subsets(fam.t)
		var total int64
		for _, sub := range subs {
			if s.inFamily(sub, fam.minSz, fam.only) {
				total += sub.size
			}
		}
		target := max(total/256+1, 2000)
		lo, acc := -1, int64(0)
		flush := func(hi int) {
			if lo >= 0 && acc > 0 {
				jobs = append(jobs, vx.Job{Exec: "c15enum", Args: map[string]string{"fam": "tw", "space": fam.space, "t": strconv.Itoa(fam.t), "min": strconv.Itoa(fam.minSz), "only": fam.only, "lo": strconv.Itoa(lo), "hi": strconv.Itoa(hi)}})
				meta = append(meta, jobMeta{"hash", fam.space})
				sizes = append(sizes, acc)
			}
			lo, acc = -1, 0
		}
		for i, sub := range subs {
			if !s.inFamily(sub, fam.minSz, fam.only) {
				continue
			}
			if lo < 0 {
				lo = i
			}
			acc += sub.size
			if acc >= target {
				flush(i + 1)
			}
		}
		flush(len(subs))
		return jobs, meta, sizes
	}
	var jobs []vx.Job
	var meta []jobMeta
	{
		j, m, sz := famJobs(fams[0])
		jobs, meta = append(jobs, j...), append(meta, m...)
		for _, n := range sz {
			expectHeaders += n
		}
	}
	{
		s := getSpace(spName)
		sf := s.slotFields()
		per := int64(1)
		for _, f := range sf[1:] {
			per *= int64(len(s.prod[f]))
		}
		for first := range s.prod[sf[0]] {
			jobs = append(jobs, vx.Job{Exec: "c15enum", Args: map[string]string{"fam": "prod", "space": spName, "first": strconv.Itoa(first)}})
			meta = append(meta, jobMeta{"hash", spName})
			expectHeaders += per
		}
	}
	sd := getSignDom(signName)
	jobs = append(jobs, vx.Job{Exec: "c15sign", Args: map[string]string{"fam": "votes", "dom": signName}})
	meta = append(meta, jobMeta{"sign", ""})
	for hr := 0; hr < len(sd.pH)*len(sd.pR); hr++ {
		jobs = append(jobs, vx.Job{Exec: "c15sign", Args: map[string]string{"fam": "proposal", "dom": signName, "hr": strconv.Itoa(hr)}})
		meta = append(meta, jobMeta{"sign", ""})
	}
	jobs = append(jobs, vx.Job{Exec: "c15obs", Args: map[string]string{"space": spName}})
	meta = append(meta, jobMeta{"obs", ""})

	// ---- stage 2: merge ----
	hashRecs := map[string][]rec{} // per space
	var signRecs []rec
	wits := newWitSet(4)
	sampled := map[string]int{}
	njobs := 0
	absorb := func(jobs []vx.Job, meta []jobMeta, rs []vx.Result) {
		njobs += len(jobs)
		for i, r := range rs {
			c.Absorb(jobs[i], r)
			if r.HarnessErr != "" || r.Crash != "" || len(r.Obs) == 0 {
				if r.Crash != "" {
					// A crash of a worker in this sequential library check is a harness problem (panics of Block and of
					// the sign-bytes functions are recovered in process), not a verdict.
					c.HarnessError("worker crashed on " + fmt.Sprint(jobs[i].Args) + ": " + r.Crash)
				}
				continue
			}
			if meta[i].part == "obs" {
				var o map[string]any
				_ = json.Unmarshal(r.Obs, &o)
				c.Extra["proposal_sign_bytes_unaffected_by"] = o["unaffected"]
				c.Extra["proposal_sign_bytes_affected_by"] = o["affected"]
				c.Extra["proposal_sign_bytes_note"] = "observation, not part of the oracle: header fields (space " + spName + ", every single-field change) that leave ProposalSignBytes of the base header unchanged"
				continue
			}
			var o enumObs
			if err := json.Unmarshal(r.Obs, &o); err != nil {
				c.HarnessError("bad observation: " + err.Error())
				continue
			}
			var err error
			if meta[i].part == "hash" {
				hashRecs[meta[i].space], err = decodeRecs(o.Recs, hashRecs[meta[i].space])
			} else {
				signRecs, err = decodeRecs(o.Recs, signRecs)
			}
			if err != nil {
				c.HarnessError(err.Error())
			}
			for _, w := range o.Wit {
				w2 := w
				if w.Kind != "sign" {
					// Keep the space with the witness: descriptors are relative to it.
					w2.Kind = w.Kind + "@" + meta[i].space
				}
				wits.add(w2, 1)
			}
			if o.Sample != nil && sampled[jobs[i].Args["fam"]] < 1 {
				sampled[jobs[i].Args["fam"]]++
				c.Sample(o.Sample)
			}
		}
	}
	absorb(jobs, meta, c.Pool.Map(jobs))

	// Further families (thorough): run in batches so that the internal time cap is honoured.
	for _, fam := range fams[1:] {
		j, m, sz := famJobs(fam)
		const batch = 64
		for lo := 0; lo < len(j); lo += batch {
			if time.Since(c.Start) > extraFamilyCap || c.OverBudget() {
				c.Cap(fmt.Sprintf("family space=%s fields=%d..%d%s stopped after %d of %d shards (time cap %s)", fam.space, fam.minSz, fam.t, fam.only, lo, len(j), extraFamilyCap))
				break
			}
			hi := min(lo+batch, len(j))
			for _, n := range sz[lo:hi] {
				expectHeaders += n
			}
			absorb(j[lo:hi], m[lo:hi], c.Pool.Map(j[lo:hi]))
		}
	}

	var distinctHash, crossPairs int64
	for _, spn := range vx.SortedKeys(hashRecs) {
		s := getSpace(spn)
		recs := hashRecs[spn]
		sort.Slice(recs, func(i, j int) bool {
			if recs[i].key != recs[j].key {
				return recs[i].key < recs[j].key
			}
			return recs[i].id < recs[j].id
		})
		for i := 0; i < len(recs); {
			j := i + 1
			for j < len(recs) && recs[j].key == recs[i].key {
				j++
			}
			distinctHash++
			if spn == spName {
				// (the optional 4-field family only adds to the counter distinct_block_output_prefixes)
				c.NonTrivial("B" + spn + strconv.FormatUint(recs[i].key, 16))
			}
			if j-i > 1 {
				rep := unpackDesc(recs[i].id)
				for k := i + 1; k < j; k++ {
					if recs[k].id == recs[i].id {
						continue // the same header enumerated by two families
					}
					other := unpackDesc(recs[k].id)
					cl := s.classOf(rep, other)
					if cl == "" {
						continue
					}
					crossPairs++
					wits.add(witness{Kind: "pair@" + spn, A: rep.String(), B: other.String(), Class: cl}, 1)
				}
			}
			i = j
		}
	}
	var distinctSign, crossSign int64
	sort.Slice(signRecs, func(i, j int) bool {
		if signRecs[i].key != signRecs[j].key {
			return signRecs[i].key < signRecs[j].key
		}
		return signRecs[i].id < signRecs[j].id
	})
	for i := 0; i < len(signRecs); {
		j := i + 1
		for j < len(signRecs) && signRecs[j].key == signRecs[i].key {
			j++
		}
		distinctSign++
		c.NonTrivial("S" + strconv.FormatUint(signRecs[i].key, 16))
		if j-i > 1 {
			ta, _ := sd.tuple(signRecs[i].id)
			for k := i + 1; k < j; k++ {
				tb, _ := sd.tuple(signRecs[k].id)
				cl := signClass(ta, tb)
				if cl == "" {
					continue
				}
				crossSign++
				wits.add(witness{Kind: "sign", A: strconv.FormatUint(signRecs[i].id, 10), B: strconv.FormatUint(signRecs[k].id, 10), Class: "signbytes-collision:" + cl}, 1)
			}
		}
		i = j
	}

	// ---- stage 3: every kind of suspected failure is re-decided by a two-header (or one-header) job ----
	var wjobs []vx.Job
	var wkeys []string
	for _, k := range vx.SortedKeys(wits.byCls) {
		for _, w := range wits.byCls[k] {
			args := map[string]string{"a": w.A, "b": w.B, "expect": w.Class}
			if w.Kind == "sign" {
				args["kind"], args["dom"] = "sign", signName
			} else {
				kind, sp := w.Kind[:len(w.Kind)-2], w.Kind[len(w.Kind)-1:]
				args["kind"], args["space"] = kind, sp
			}
			wjobs = append(wjobs, vx.Job{Exec: "c15wit", Args: args})
			wkeys = append(wkeys, k)
		}
	}
	confirmed := map[string]bool{}
	if len(wjobs) > 0 {
		wrs := c.Pool.Map(wjobs)
		for i, r := range wrs {
			c.Absorb(wjobs[i], r)
			if len(r.Viol) > 0 {
				confirmed[wkeys[i]] = true
			}
		}
	}
	classCounts := map[string]int64{}
	for _, k := range vx.SortedKeys(wits.byCls) {
		classCounts[k] = wits.count[k]
		if !confirmed[k] {
			// Either a 64-bit prefix coincidence or a failure that does not reproduce: never silently dropped.
			c.HarnessError(fmt.Sprintf("suspected failure %q (seen %d times, e.g. %+v) was not confirmed by the witness job", k, wits.count[k], wits.byCls[k][0]))
		}
	}

	// ---- evidence ----
	headers := c.Counter("headers")
	tuples := c.Counter("sign_tuples")
	if headers != expectHeaders {
		c.HarnessError(fmt.Sprintf("enumerated %d headers, expected %d", headers, expectHeaders))
	}
	if want := int64(2*sd.voteCount() + sd.proposalCount()); tuples != want {
		c.HarnessError(fmt.Sprintf("enumerated %d sign tuples, expected %d", tuples, want))
	}
	c.Extra["jobs"] = njobs + len(wjobs)
	c.Evaluations = headers + tuples
	c.AddCounter("distinct_block_output_prefixes", distinctHash)
	c.AddCounter("distinct_sign_outputs", distinctSign)
	c.AddCounter("cross_shard_colliding_representatives", crossPairs)
	c.AddCounter("cross_shard_colliding_sign_tuples", crossSign)
	c.Extra["suspected_failure_classes"] = classCounts
	var fl []string
	for _, fam := range fams {
		s := getSpace(fam.space)
		var fs []string
		for _, f := range s.fields {
			fs = append(fs, fmt.Sprintf("%s:%d", f.name, len(f.alts)))
		}
		fl = append(fl, fmt.Sprintf("space %s, %d..%d changed fields%s, alternatives per field %v", fam.space, fam.minSz, fam.t, map[string]string{"": "", "pcp": " (PrevCommitProof fields only)"}[fam.only], fs))
	}
	c.Extra["header_families"] = fl
	c.Extra["sign_domain"] = map[string]int{"vote_heights": len(sd.heights), "vote_rounds": len(sd.rounds), "vote_hashes": len(sd.hashes),
		"proposal_heights": len(sd.pH), "proposal_rounds": len(sd.pR), "PrevBlockHash": len(sd.pbh), "PrevAppStateHash": len(sd.pash), "DataID": len(sd.did), "User": len(sd.user), "Driver": len(sd.driver)}
	c.Extra["explanation"] = "exhaustive:true refers to the stated finite header and tuple spaces; map iteration order inside Block cannot be chosen by the harness, it is exercised by repeated evaluation (Go randomises it per range loop)"
	c.Assume("crypto/sha256 prefixes (64 bit) of sign bytes and 64-bit prefixes of Block outputs are only used to find candidate pairs across shards; every reported collision is confirmed on the full outputs")
	c.Assume("nil and zero-length byte slices are the same header value; the signatures of one proof entry are a multiset; validator lists are consistent with their hashes (C07 covers the rest)")
	c.Assume("proposal contents = the values SignatureScheme.WriteProposalSigningContent is documented to serialise (height, round, previous block hash, previous app state hash, data id, proposal annotations)")
}
