//go:build verif

package c17

import (
	"encoding/hex"
	"encoding/json"
	"fmt"
	"os"
	"strconv"
	"strings"
	"sync/atomic"
	"time"

	"github.com/gordian-engine/gordian/internal/zzverif/vx"
)

type childRec struct {
	E string `json:"ev"`
	B int    `json:"backlog,omitempty"` // the last B updates piled up in front of the strategy (0: handed over one by one)
	runOut
}

// maxRegisteredNT bounds the number of state keys handed to vx's set of non-trivial cases (memory).
const maxRegisteredNT = 3_000_000

// skey is a canonical state key (80 bits of SHA-256 over the canonical state string) in a pointer-free form.
type skey [10]byte

func toSkey(s string) (k skey, ok bool) {
	if len(s) != 20 {
		return k, false
	}
	_, err := hex.Decode(k[:], []byte(s))
	return k, err == nil
}

func checkC17(c *vx.Ctx) {
	c.Level = "model_checking"
	depth := 5
	p := params{NV: 2, NT: 2}
	soft := 45 * time.Second
	if !c.Quick() {
		depth = 6
		soft = 14 * time.Minute
	}
	// Overrides for experiments only.
	if n, err := strconv.Atoi(os.Getenv("C17_DEPTH")); err == nil {
		depth = n
	}
	if n, err := strconv.Atoi(os.Getenv("C17_NV")); err == nil {
		p.NV = n
	}
	if n, err := strconv.Atoi(os.Getenv("C17_NT")); err == nil {
		p.NT = n
	}
	if n, err := strconv.Atoi(os.Getenv("C17_SOFT_S")); err == nil {
		soft = time.Duration(n) * time.Second
	}
	args := map[string]string{"nv": strconv.Itoa(p.NV), "nt": strconv.Itoa(p.NT)}

	c.Rule = "breadth-first search over sequences of kernel-level view events (add proposed header / prevote / precommit by validator v for target t to the committing, voting or next-round view, " +
		"advance round with nil-voted round, jump round, shift height; each either handed to the strategy at once or held back so that it coalesces with later ones; flush; resend of unchanged views); " +
		"every successor that hands over an update is a fresh execution of the whole history on a new real ChattyStrategy in a synctest bubble, with the oracle evaluated at quiescence; " +
		"states are deduplicated on the canonical harness state (view contents, dirty markers, pending nil-voted round, views last handed over per slot) plus the oracle residue (items handed over but not offered); " +
		"an execution is non-trivial when at least one update with content was handed over and the strategy offered at least one item; distinct_nontrivial = distinct canonical states reached by such an execution"

	seen := map[skey]bool{} // canonical key -> reached by a non-trivial execution
	var distinctNT int64
	root := newModel(p)
	rk, _ := toSkey(vx.ShortHash(root.key() + "|root"))
	seen[rk] = false
	frontier := []string{""} // histories, events separated by one space
	var perDepth []map[string]int64
	var transitions, held int64
	maxEnabled := 0
	start := time.Now()
	var stop atomic.Bool

	childHist := func(parent []string, ev string) []string {
		return append(append(make([]string, 0, len(parent)+1), parent...), ev)
	}
	// absorbBad folds a successor with violations or a harness error into the evidence (vx keeps the shortest witness per signature).
	absorbBad := func(parent []string, ch childRec) {
		job := vx.Job{Exec: "c17run", Hist: childHist(parent, ch.E), Args: args}
		if ch.B > 0 {
			a2 := map[string]string{"backlog": fmt.Sprint(ch.B)}
			for k, v := range args {
				a2[k] = v
			}
			job.Args = a2
		}
		c.Absorb(job, vx.Result{Key: ch.Key, Viol: ch.Viol, HarnessErr: ch.HarnessErr})
	}

	type kid struct {
		ev, key, outcome string
		nt, held, dead   bool // dead: the strategy panicked; the state is reported but not expanded
	}
	var kids []kid

	type batch struct {
		lo   int
		jobs []vx.Job
		rs   []vx.Result
	}

	for d := 1; d <= depth && !stop.Load(); d++ {
		var next []string
		stat := map[string]int64{"depth": int64(d), "to_expand": int64(len(frontier)), "expanded": 0, "successors": 0, "new_states": 0}

		// Producer: runs the expansions chunk by chunk on the pool while the consumer below folds the previous chunk.
		const chunk = 2000
		ch := make(chan batch, 1)
		go func(frontier []string) {
			defer close(ch)
			for lo := 0; lo < len(frontier) && !stop.Load(); lo += chunk {
				hi := min(lo+chunk, len(frontier))
				jobs := make([]vx.Job, 0, hi-lo)
				for _, n := range frontier[lo:hi] {
					jobs = append(jobs, vx.Job{Exec: "c17expand", Hist: strings.Fields(n), Args: args})
				}
				ch <- batch{lo, jobs, c.Pool.Map(jobs)}
			}
		}(frontier)

		for b := range ch {
			for i, r := range b.rs {
				parent := b.jobs[i].Hist
				stat["expanded"]++
				kids = kids[:0]
				if r.Crash != "" || r.HarnessErr != "" {
					// A batch died (panic on the strategy's goroutine) or failed: redo its successors one by one
					// to attribute the crash to the exact history.
					for _, ch := range c17Singles(c, p, args, parent) {
						if len(ch.Viol) > 0 || ch.HarnessErr != "" {
							absorbBad(parent, ch)
						}
						if ch.HarnessErr == "" {
							kids = append(kids, kid{ch.E, ch.Key, ch.Outcome, ch.NonTrivial, false, ch.Outcome == "strategy-panic"})
						}
						c.AddCounter("updates_handed", int64(ch.Sends))
						c.AddCounter("broadcast_msgs", int64(ch.Msgs[0]+ch.Msgs[1]+ch.Msgs[2]))
						c.AddCounter("items_compared", int64(ch.Required))
						c.AddCounter("executions_on_real_strategy", 1)
					}
				} else {
					if len(r.Obs) > 0 {
						var bad []childRec
						if err := json.Unmarshal(r.Obs, &bad); err != nil {
							c.HarnessError("bad expand output: " + err.Error())
							continue
						}
						for _, ch := range bad {
							absorbBad(parent, ch)
						}
					}
					if len(r.Next) == 1 {
						rest := r.Next[0]
						for rest != "" {
							var line string
							line, rest, _ = strings.Cut(rest, "\n")
							ev, l1, ok1 := strings.Cut(line, "\x1f")
							key, l2, ok2 := strings.Cut(l1, "\x1f")
							flags, outcome, ok3 := strings.Cut(l2, "\x1f")
							if !ok1 || !ok2 || !ok3 {
								c.HarnessError("bad expand line: " + line)
								continue
							}
							kids = append(kids, kid{ev, key, outcome, strings.Contains(flags, "n"), strings.Contains(flags, "h"), false})
						}
					}
					for k, v := range r.Counters {
						c.AddCounter(k, v)
					}
				}
				if len(kids) > maxEnabled {
					maxEnabled = len(kids)
				}
				for _, k := range kids {
					stat["successors"]++
					transitions++
					if k.held {
						held++
					}
					c.Outcome(k.outcome)
					sk, ok := toSkey(k.key)
					if !ok {
						c.HarnessError("bad state key: " + k.key)
						continue
					}
					if reg, ok := seen[sk]; ok {
						if k.nt && !reg {
							seen[sk] = true
							distinctNT++
							if distinctNT <= maxRegisteredNT {
								c.NonTrivial(strings.Clone(k.key))
							}
						}
						continue
					}
					seen[sk] = k.nt
					if k.nt {
						distinctNT++
						if distinctNT <= maxRegisteredNT {
							c.NonTrivial(strings.Clone(k.key))
						}
					}
					stat["new_states"]++
					if d < depth && !k.dead {
						if len(parent) == 0 {
							next = append(next, strings.Clone(k.ev))
						} else {
							next = append(next, frontier[b.lo+i]+" "+k.ev)
						}
					}
				}
			}
			done := b.lo + len(b.jobs)
			more := done < len(frontier) || (d < depth && len(next) > 0)
			if more && !stop.Load() {
				if time.Since(start) > soft {
					c.Cap(fmt.Sprintf("soft deadline %s reached at depth %d (%d states of that level were still to expand when the search was stopped)", soft, d, len(frontier)-done))
					stop.Store(true)
				} else if c.OverBudget() {
					stop.Store(true)
				}
			}
		}
		stat["elapsed_ms"] = time.Since(start).Milliseconds()
		fmt.Printf("  c17: depth %d: expanded %d of %d states, %d successors, %d new states, %d states in total, %.1fs\n",
			d, stat["expanded"], stat["to_expand"], stat["successors"], stat["new_states"], len(seen), time.Since(start).Seconds())
		perDepth = append(perDepth, stat)
		frontier = next
	}

	c.States = int64(len(seen))
	c.Transitions = transitions
	c.Evaluations = transitions
	c.Traces = c.Counter("executions_on_real_strategy")
	// vx counts the keys given to c.NonTrivial; at most maxRegisteredNT keys are registered there to bound the orchestrator's memory,
	// the measured number of distinct non-trivial states is kept here and written to the evidence.
	c.Extra["distinct_nontrivial"] = distinctNT
	c.Extra["bounds"] = map[string]any{"depth_events": depth, "validators": p.NV, "targets": targetNames[:p.NT], "max_proposals_per_view": maxProps, "max_enabled_events_in_a_state": maxEnabled}
	c.Extra["per_depth"] = perDepth
	c.Extra["transitions_by_held_back_events"] = held
	c.Extra["explanation"] = "transitions counts all successors. A successor by a held-back event hands no update to the strategy, so its execution on the real code is the parent's " +
		"(run once per expanded state); traces_validated_against_impl = counters.executions_on_real_strategy is the number of fresh ChattyStrategy instances driven through a whole history. " +
		"States of the last level are checked by the oracle but not expanded."

	// Samples: real explored cases, re-run with full detail.
	sampleHists := [][]string{
		{"V.v.pv.0.A!", "V.v.pv.1.A!", "P.v!"},
		{"flush!", "V.v.pc.0.nil", "V.v.pc.1.nil", "adv!"},
		{"P.v", "V.v.pc.0.A", "V.v.pc.1.A!", "cmt!", "V.c.pc.1.nil!"},
	}
	var sjobs []vx.Job
	for _, h := range sampleHists {
		if len(h) <= depth {
			sjobs = append(sjobs, vx.Job{Exec: "c17run", Hist: h, Args: args})
		}
	}
	for i, r := range c.Pool.Map(sjobs) {
		var o runOut
		_ = json.Unmarshal(r.Obs, &o)
		c.Sample(map[string]any{"history": strings.Join(sjobs[i].Hist, " "), "updates_handed": o.Sends, "handed_items": o.Handed,
			"offered_items": o.Broadcast, "offered_msgs_ph_pv_pc": o.Msgs, "missing": o.Missing, "extra": o.Extra, "outcome": o.Outcome})
	}

	c.Assume("state deduplication assumes the strategy's behaviour depends only on the views last handed over per slot (its prev*View variables) and that equal abstract views are realised as equal values (Version is derived from content)")
	c.Assume("the first update always carries the Voting view (the kernel has never sent it before); a first update without Voting hits a documented TODO panic and is not generated")
	c.Assume("of a NilVotedRound view only the precommits are required to be offered (the statement names them explicitly); its proposals and prevotes are allowed but not required")
	c.Assume("signatures are real ed25519 signatures by the tmconsensustest fixture over tmconsensus sign bytes, cross-checked with crypto/ed25519; offered signatures are compared byte-wise with the ones handed in")
	c.Assume("validator count, target count and proposals per view are bounded (see bounds); RoundSessionChanges are left empty because ChattyStrategy ignores them")
}

// c17Singles runs every successor of parent as its own job, so that a crash is attributed to one history.
func c17Singles(c *vx.Ctx, p params, args map[string]string, parent []string) []childRec {
	m, err := replayModel(p, parent)
	if err != nil {
		c.HarnessError(err.Error())
		return nil
	}
	evs := m.enabled()
	jobs := make([]vx.Job, 0, len(evs))
	for _, ev := range evs {
		h := append(append(make([]string, 0, len(parent)+1), parent...), ev)
		jobs = append(jobs, vx.Job{Exec: "c17run", Hist: h, Args: args})
	}
	rs := c.Pool.Map(jobs)
	out := make([]childRec, 0, len(evs))
	for i, r := range rs {
		ch := childRec{E: evs[i]}
		switch {
		case r.Crash != "":
			// A panic on the strategy's goroutine: from then on nothing is broadcast.
			ch.runOut = runOut{
				Key:     vx.ShortHash("crash|" + strings.Join(jobs[i].Hist, " ")),
				Outcome: "strategy-panic",
				Viol: []vx.Violation{{Prop: "C17", Sig: "strategy-panic:" + vx.CrashSig(r.Crash), Step: len(jobs[i].Hist),
					Msg: "the strategy panicked while handling the updates, so the views' content is not broadcast. history: " + strings.Join(jobs[i].Hist, " ") + "\n" + r.Crash}},
			}
		case r.HarnessErr != "":
			ch.runOut = runOut{HarnessErr: r.HarnessErr}
		default:
			if err := json.Unmarshal(r.Obs, &ch.runOut); err != nil {
				ch.runOut = runOut{HarnessErr: "bad run output: " + err.Error()}
			}
		}
		out = append(out, ch)
	}
	return out
}
