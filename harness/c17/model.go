//go:build verif

package c17

import (
	"fmt"
	"math/bits"
	"sort"
	"strconv"
	"strings"
)

// Abstract view state from which the NetworkViewUpdates are derived.
//
// It mirrors what the mirror kernel keeps (kstate.go: Committing/Voting/NextRound views,
// each with an "outgoing, not yet sent" marker, plus gossipViewManager.NilVotedRound)
// and what gossipViewManager.Output puts into one update: every view changed since the last
// send as a fresh clone, nil for unchanged views, and the pending nil-voted round if any.
//
// Events (BFS alphabet). A trailing "!" means: after the mutation the kernel's send to the gossip strategy
// succeeds (the update carries all views that are dirty at that moment). Without "!" the mutation is
// held back (the kernel handled another input before the strategy received), so several mutations coalesce
// into one update, exactly as in the kernel's select loop.
//
//	P.<slot>                     a proposed header is added to the view in <slot> (c, v or n); at most 2 per view
//	V.<slot>.<pv|pc>.<val>.<tgt> validator <val> signs a prevote/precommit for target <tgt> (A, nil, B);
//	                             a validator may sign a SECOND target in the same round (the mirror accepts that, see C06)
//	adv                          kState.AdvanceVotingRound: NilVotedRound := clone(Voting); Voting := NextRound; NextRound := fresh (H,R+2)
//	jmp                          kState.JumpVotingRound: like adv without NilVotedRound
//	cmt                          kState.ShiftVotingToCommitting: Committing := Voting; Voting := fresh (H+1,0); NextRound := fresh (H+1,1)
//	flush!                       the pending (dirty) views are sent without a new mutation
//	resend!                      all three views are sent non-nil although unchanged (a permutation the kernel does not emit itself)

const (
	slotC = 0
	slotV = 1
	slotN = 2

	kindPV = 0
	kindPC = 1

	maxTargets = 3
	maxProps   = 2
)

var (
	slotNames   = [3]string{"c", "v", "n"}
	kindNames   = [2]string{"pv", "pc"}
	targetNames = [maxTargets]string{"A", "nil", "B"}
)

type params struct {
	NV int // validators
	NT int // vote targets: 2 = {A, nil}, 3 = {A, nil, B}
}

// aview is the abstract content of one round view.
type aview struct {
	H     uint64
	R     uint32
	Props int                  // proposed headers 0..Props-1 of (H,R)
	Votes [2][maxTargets]uint8 // [kind][target] -> bitmask of validators
}

func (v aview) items() int {
	n := v.Props
	for k := 0; k < 2; k++ {
		for t := 0; t < maxTargets; t++ {
			n += bits.OnesCount8(v.Votes[k][t])
		}
	}
	return n
}

func (v aview) String() string {
	return fmt.Sprintf("%d/%d:p%d:pv%x.%x.%x:pc%x.%x.%x", v.H, v.R, v.Props,
		v.Votes[0][0], v.Votes[0][1], v.Votes[0][2], v.Votes[1][0], v.Votes[1][1], v.Votes[1][2])
}

// itemKeys lists the content of the view as oracle items.
// onlyPrecommits restricts to precommit signatures.
func (v aview) itemKeys(onlyPrecommits bool) []string {
	var out []string
	if !onlyPrecommits {
		for i := 0; i < v.Props; i++ {
			out = append(out, phItem(v.H, v.R, i))
		}
	}
	for k := 0; k < 2; k++ {
		if onlyPrecommits && k != kindPC {
			continue
		}
		for t := 0; t < maxTargets; t++ {
			for val := 0; val < 8; val++ {
				if v.Votes[k][t]&(1<<val) != 0 {
					out = append(out, sigItem(k, v.H, v.R, t, val))
				}
			}
		}
	}
	return out
}

func phItem(h uint64, r uint32, idx int) string {
	return fmt.Sprintf("ph|%d|%d|%d", h, r, idx)
}

func sigItem(kind int, h uint64, r uint32, tgt, val int) string {
	return fmt.Sprintf("%s|%d|%d|%s|%d", kindNames[kind], h, r, targetNames[tgt], val)
}

type model struct {
	P       params
	HasC    bool
	S       [3]aview
	Dirty   [3]bool
	NVR     *aview // pending gossipViewManager.NilVotedRound
	Started bool   // the first update has been handed over
	Sent    [3]*aview
}

// aupdate is the abstract form of one tmelink.NetworkViewUpdate.
type aupdate struct {
	Views [3]*aview
	NVR   *aview
	First bool
}

func newModel(p params) *model {
	m := &model{P: p}
	m.S[slotV] = aview{H: 1, R: 0}
	m.S[slotN] = aview{H: 1, R: 1}
	// Like in the kernel, nothing has been sent at the beginning:
	// the first update always carries Voting and NextRound (Committing is nil at genesis).
	m.Dirty = [3]bool{false, true, true}
	return m
}

func (m *model) ops() []string {
	var out []string
	for s := 0; s < 3; s++ {
		if s == slotC && !m.HasC {
			continue
		}
		if m.S[s].Props < maxProps {
			out = append(out, "P."+slotNames[s])
		}
		for k := 0; k < 2; k++ {
			for val := 0; val < m.P.NV; val++ {
				for t := 0; t < m.P.NT; t++ {
					if m.S[s].Votes[k][t]&(1<<val) == 0 {
						out = append(out, fmt.Sprintf("V.%s.%s.%d.%s", slotNames[s], kindNames[k], val, targetNames[t]))
					}
				}
			}
		}
	}
	out = append(out, "adv", "jmp", "cmt")
	return out
}

// enabled lists the events enabled in the current state.
func (m *model) enabled() []string {
	var out []string
	for _, op := range m.ops() {
		out = append(out, op+"!", op)
	}
	if m.Dirty[0] || m.Dirty[1] || m.Dirty[2] || m.NVR != nil {
		out = append(out, "flush!")
	}
	if m.Started {
		out = append(out, "resend!")
	}
	return out
}

func slotIndex(s string) (int, bool) {
	for i, n := range slotNames {
		if n == s {
			return i, true
		}
	}
	return 0, false
}

// apply performs one event. It returns the update handed to the strategy, or nil for a held-back mutation.
func (m *model) apply(ev string) (*aupdate, error) {
	send := strings.HasSuffix(ev, "!")
	base := strings.TrimSuffix(ev, "!")
	f := strings.Split(base, ".")
	resend := false
	switch f[0] {
	case "P":
		if len(f) != 2 {
			return nil, fmt.Errorf("bad event %q", ev)
		}
		s, ok := slotIndex(f[1])
		if !ok || (s == slotC && !m.HasC) || m.S[s].Props >= maxProps {
			return nil, fmt.Errorf("event %q not enabled", ev)
		}
		m.S[s].Props++
		m.Dirty[s] = true
	case "V":
		if len(f) != 5 {
			return nil, fmt.Errorf("bad event %q", ev)
		}
		s, ok := slotIndex(f[1])
		if !ok || (s == slotC && !m.HasC) {
			return nil, fmt.Errorf("event %q not enabled", ev)
		}
		k := -1
		for i, n := range kindNames {
			if n == f[2] {
				k = i
			}
		}
		val, err := strconv.Atoi(f[3])
		t := -1
		for i, n := range targetNames {
			if n == f[4] {
				t = i
			}
		}
		if k < 0 || err != nil || val < 0 || val >= m.P.NV || t < 0 || t >= m.P.NT {
			return nil, fmt.Errorf("bad event %q", ev)
		}
		if m.S[s].Votes[k][t]&(1<<val) != 0 {
			return nil, fmt.Errorf("event %q not enabled", ev)
		}
		m.S[s].Votes[k][t] |= 1 << val
		m.Dirty[s] = true
	case "adv", "jmp":
		if f[0] == "adv" {
			c := m.S[slotV]
			m.NVR = &c // overwrites a pending one, like kState.AdvanceVotingRound
		}
		m.S[slotV] = m.S[slotN]
		m.S[slotN] = aview{H: m.S[slotV].H, R: m.S[slotV].R + 1}
		m.Dirty[slotV], m.Dirty[slotN] = true, true
	case "cmt":
		m.S[slotC] = m.S[slotV]
		m.HasC = true
		h := m.S[slotV].H + 1
		m.S[slotV] = aview{H: h, R: 0}
		m.S[slotN] = aview{H: h, R: 1}
		m.Dirty = [3]bool{true, true, true}
	case "flush":
		if !send || !(m.Dirty[0] || m.Dirty[1] || m.Dirty[2] || m.NVR != nil) {
			return nil, fmt.Errorf("event %q not enabled", ev)
		}
	case "resend":
		if !send || !m.Started {
			return nil, fmt.Errorf("event %q not enabled", ev)
		}
		resend = true
	default:
		return nil, fmt.Errorf("bad event %q", ev)
	}
	if !send {
		return nil, nil
	}
	u := &aupdate{First: !m.Started}
	for s := 0; s < 3; s++ {
		if s == slotC && !m.HasC {
			continue
		}
		if m.Dirty[s] || resend {
			c := m.S[s]
			u.Views[s] = &c
			c2 := c
			m.Sent[s] = &c2
			m.Dirty[s] = false
		}
	}
	u.NVR = m.NVR
	m.NVR = nil
	m.Started = true
	return u, nil
}

// key is the canonical form of the harness-side state:
// the kernel-side view state (content, dirty markers, pending nil-voted round)
// and the views last handed over per slot (= the strategy's prev*View variables).
// The caller appends the oracle residue (items handed over but not yet broadcast).
func (m *model) key() string {
	var b strings.Builder
	fmt.Fprintf(&b, "st%v;c%v;", m.Started, m.HasC)
	for s := 0; s < 3; s++ {
		if s == slotC && !m.HasC {
			b.WriteString("-;")
			continue
		}
		fmt.Fprintf(&b, "%s,d%v;", m.S[s], m.Dirty[s])
	}
	if m.NVR != nil {
		fmt.Fprintf(&b, "nvr%s;", *m.NVR)
	} else {
		b.WriteString("nvr-;")
	}
	for s := 0; s < 3; s++ {
		if m.Sent[s] == nil {
			b.WriteString("s-;")
		} else {
			fmt.Fprintf(&b, "s%s;", *m.Sent[s])
		}
	}
	return b.String()
}

func replayModel(p params, hist []string) (*model, error) {
	m := newModel(p)
	for i, ev := range hist {
		if _, err := m.apply(ev); err != nil {
			return nil, fmt.Errorf("step %d: %w", i, err)
		}
	}
	return m, nil
}

func sortedSet(m map[string]struct{}) []string {
	out := make([]string, 0, len(m))
	for k := range m {
		out = append(out, k)
	}
	sort.Strings(out)
	return out
}
