//go:build verif

package c17

import (
	"bytes"
	"context"
	"crypto/ed25519"
	"encoding/binary"
	"encoding/json"
	"fmt"
	"log/slog"
	"math/bits"
	"os"
	"reflect"
	"runtime"
	"sort"
	"strconv"
	"strings"
	"sync"
	"testing"
	"testing/synctest"

	"github.com/gordian-engine/gordian/gcrypto"
	"github.com/gordian-engine/gordian/internal/zzverif/vx"
	"github.com/gordian-engine/gordian/tm/tmconsensus"
	"github.com/gordian-engine/gordian/tm/tmconsensus/tmconsensustest"
	"github.com/gordian-engine/gordian/tm/tmengine/tmelink"
	"github.com/gordian-engine/gordian/tm/tmgossip"
)

// C17 — gossip broadcasts everything the node knows and nothing else (E-EVT, BFS over update sequences).
//
// Worker side: realise abstract updates as real tmelink.NetworkViewUpdate values (real ed25519 signatures
// from the tmconsensustest fixture), drive the real tmgossip.ChattyStrategy in a synctest bubble,
// record everything it offers on the three ConsensusBroadcaster channels, and compare at quiescence.

func init() {
	if os.Getenv("VERIF_ROLE") == "worker" {
		// One job at a time per worker and the bubble's goroutines hand over to each other strictly:
		// a single P avoids cross-thread wakeups (3x faster than the pool's GOMAXPROCS=2).
		runtime.GOMAXPROCS(1)
	}
	registry.Execs["c17run"] = execRun
	registry.Execs["c17expand"] = execExpand
	registry.Checks["C17"] = checkC17
}

// ---------------------------------------------------------------------------
// world: cached real values for abstract items (per worker process, per validator count)

type hrKey struct {
	H uint64
	R uint32
}

type proofKey struct {
	Kind int
	H    uint64
	R    uint32
	Tgt  int
	Mask uint8
}

type world struct {
	nv         int
	fx         *tmconsensustest.Fixture
	vals       []tmconsensus.Validator
	valSet     tmconsensus.ValidatorSet
	pubKeys    []gcrypto.PubKey
	pubKeyHash string

	phs    map[string]tmconsensus.ProposedHeader // phItem -> header
	sigs   map[string][]byte                     // sigItem -> signature bytes handed in (harness bookkeeping)
	proofs map[proofKey]gcrypto.CommonMessageSignatureProof
	tgtOf  map[hrKey]map[string]int // block hash -> target index
}

var worlds = map[int]*world{}

func getWorld(nv int) *world {
	if w := worlds[nv]; w != nil {
		return w
	}
	fx := tmconsensustest.NewEd25519Fixture(nv)
	w := &world{
		nv: nv, fx: fx,
		vals:   fx.Vals(),
		valSet: fx.ValSet(),
		phs:    map[string]tmconsensus.ProposedHeader{},
		sigs:   map[string][]byte{},
		proofs: map[proofKey]gcrypto.CommonMessageSignatureProof{},
		tgtOf:  map[hrKey]map[string]int{},
	}
	w.pubKeys = tmconsensus.ValidatorsToPubKeys(w.vals)
	w.pubKeyHash = string(w.valSet.PubKeyHash)
	worlds[nv] = w
	return w
}

// ph returns proposed header number idx of (h, r): a real header from the fixture, re-hashed and signed.
func (w *world) ph(h uint64, r uint32, idx int) tmconsensus.ProposedHeader {
	k := phItem(h, r, idx)
	if p, ok := w.phs[k]; ok {
		return p
	}
	proposer := idx % w.nv
	p := w.fx.NextProposedHeader([]byte(fmt.Sprintf("app_data_%d_%d_%d", h, r, idx)), proposer)
	p.Header.Height = h
	p.Round = r
	w.fx.RecalculateHash(&p.Header)
	w.fx.SignProposal(context.Background(), &p, proposer)
	w.phs[k] = p
	return p
}

// targetHash: target 0 (A) is the block of proposal 0 of that round, target 2 (B) the block of proposal 1, target 1 is nil.
func (w *world) targetHash(h uint64, r uint32, tgt int) string {
	var hash string
	switch tgt {
	case 0:
		hash = string(w.ph(h, r, 0).Header.Hash)
	case 1:
		hash = ""
	case 2:
		hash = string(w.ph(h, r, 1).Header.Hash)
	default:
		panic("bad target")
	}
	m := w.tgtOf[hrKey{h, r}]
	if m == nil {
		m = map[string]int{}
		w.tgtOf[hrKey{h, r}] = m
	}
	m[hash] = tgt
	return hash
}

func signBytes(kind int, vt tmconsensus.VoteTarget, ss tmconsensus.SignatureScheme) []byte {
	var b []byte
	var err error
	if kind == kindPV {
		b, err = tmconsensus.PrevoteSignBytes(vt, ss)
	} else {
		b, err = tmconsensus.PrecommitSignBytes(vt, ss)
	}
	if err != nil {
		panic(err)
	}
	return b
}

// proof returns a fresh copy of the full proof of the given kind for (h, r, tgt) signed by the validators in mask.
func (w *world) proof(kind int, h uint64, r uint32, tgt int, mask uint8) gcrypto.CommonMessageSignatureProof {
	k := proofKey{kind, h, r, tgt, mask}
	if p, ok := w.proofs[k]; ok {
		return p.Clone()
	}
	vt := tmconsensus.VoteTarget{Height: h, Round: r, BlockHash: w.targetHash(h, r, tgt)}
	msg := signBytes(kind, vt, w.fx.SignatureScheme)
	p, err := w.fx.CommonMessageSignatureProofScheme.New(msg, w.pubKeys, w.pubKeyHash)
	if err != nil {
		panic(err)
	}
	for val := 0; val < w.nv; val++ {
		if mask&(1<<val) == 0 {
			continue
		}
		ik := sigItem(kind, h, r, tgt, val)
		sig, ok := w.sigs[ik]
		if !ok {
			if kind == kindPV {
				sig = w.fx.PrevoteSignature(context.Background(), vt, val)
			} else {
				sig = w.fx.PrecommitSignature(context.Background(), vt, val)
			}
			// Independent sanity check of the fixture's signature.
			if !ed25519.Verify(ed25519.PublicKey(w.pubKeys[val].PubKeyBytes()), msg, sig) {
				panic(fmt.Errorf("fixture signature for %s does not verify with crypto/ed25519", ik))
			}
			w.sigs[ik] = sig
		}
		if err := p.AddSignature(sig, w.pubKeys[val]); err != nil {
			panic(err)
		}
	}
	w.proofs[k] = p
	return p.Clone()
}

// vrv realises an abstract view. Equal abstract views give equal values (Version is derived from the content).
func (w *world) vrv(v aview) *tmconsensus.VersionedRoundView {
	out := &tmconsensus.VersionedRoundView{
		RoundView: tmconsensus.RoundView{
			Height:       v.H,
			Round:        v.R,
			ValidatorSet: w.valSet,
			VoteSummary:  tmconsensus.NewVoteSummary(),
		},
		Version:          uint32(1 + v.items()),
		PrevoteVersion:   1,
		PrecommitVersion: 1,
	}
	out.VoteSummary.SetAvailablePower(w.vals)
	for i := 0; i < v.Props; i++ {
		out.ProposedHeaders = append(out.ProposedHeaders, w.ph(v.H, v.R, i))
	}
	for k := 0; k < 2; k++ {
		var m map[string]gcrypto.CommonMessageSignatureProof
		var vers map[string]uint32
		n := 0
		for t := 0; t < maxTargets; t++ {
			mask := v.Votes[k][t]
			if mask == 0 {
				continue
			}
			if m == nil {
				m = map[string]gcrypto.CommonMessageSignatureProof{}
				vers = map[string]uint32{}
			}
			hash := w.targetHash(v.H, v.R, t)
			m[hash] = w.proof(k, v.H, v.R, t, mask)
			vers[hash] = uint32(bits.OnesCount8(mask))
			if k != kindPV {
				// The kernel adds precommits on paths that do not bump the per-block version (commit backfill from a
				// proposed header's previous-commit proof, replayed headers), and one message may carry several
				// signatures for one bump: a precommit block version that stays at 1 while signatures grow is a view
				// the kernel can emit, and the least informative one for a strategy that trusted the versions.
				vers[hash] = 1
			}
			n += bits.OnesCount8(mask)
		}
		// Empty maps are nil, as after VersionedRoundView.Clone in gossipViewManager.Output.
		if k == kindPV {
			out.PrevoteProofs, out.PrevoteBlockVersions = m, vers
			out.PrevoteVersion += uint32(n)
		} else {
			out.PrecommitProofs, out.PrecommitBlockVersions = m, vers
			out.PrecommitVersion += uint32(n)
		}
	}
	return out
}

func (w *world) update(u *aupdate) tmelink.NetworkViewUpdate {
	var out tmelink.NetworkViewUpdate
	if u.Views[slotC] != nil {
		out.Committing = w.vrv(*u.Views[slotC])
	}
	if u.Views[slotV] != nil {
		out.Voting = w.vrv(*u.Views[slotV])
	}
	if u.Views[slotN] != nil {
		out.NextRound = w.vrv(*u.Views[slotN])
	}
	if u.NVR != nil {
		out.NilVotedRound = w.vrv(*u.NVR)
	}
	return out
}

// ---------------------------------------------------------------------------
// recording broadcaster

type recorder struct {
	phCh chan tmconsensus.ProposedHeader
	pvCh chan tmconsensus.PrevoteSparseProof
	pcCh chan tmconsensus.PrecommitSparseProof

	mu  sync.Mutex
	phs []tmconsensus.ProposedHeader
	pvs []tmconsensus.PrevoteSparseProof
	pcs []tmconsensus.PrecommitSparseProof
}

func (r *recorder) OutgoingProposedHeaders() chan<- tmconsensus.ProposedHeader       { return r.phCh }
func (r *recorder) OutgoingPrevoteProofs() chan<- tmconsensus.PrevoteSparseProof     { return r.pvCh }
func (r *recorder) OutgoingPrecommitProofs() chan<- tmconsensus.PrecommitSparseProof { return r.pcCh }

func (r *recorder) drain(ctx context.Context, wg *sync.WaitGroup) {
	wg.Add(3)
	go func() {
		defer wg.Done()
		for {
			select {
			case <-ctx.Done():
				return
			case x := <-r.phCh:
				r.mu.Lock()
				r.phs = append(r.phs, x)
				r.mu.Unlock()
			}
		}
	}()
	go func() {
		defer wg.Done()
		for {
			select {
			case <-ctx.Done():
				return
			case x := <-r.pvCh:
				r.mu.Lock()
				r.pvs = append(r.pvs, x)
				r.mu.Unlock()
			}
		}
	}()
	go func() {
		defer wg.Done()
		for {
			select {
			case <-ctx.Done():
				return
			case x := <-r.pcCh:
				r.mu.Lock()
				r.pcs = append(r.pcs, x)
				r.mu.Unlock()
			}
		}
	}()
}

// ---------------------------------------------------------------------------
// one execution

type source struct {
	U         int    // index of the update (0 = first update handed over)
	Slot      string // c, v, n or nvr
	SameUnion bool   // the view previously handed over in this slot had the same height and round and the same number of distinct signers of this kind
}

type runOut struct {
	Key        string         `json:"k"`
	Viol       []vx.Violation `json:"v,omitempty"`
	Outcome    string         `json:"o"`
	NonTrivial bool           `json:"n,omitempty"`
	Sends      int            `json:"s"`
	Msgs       [3]int         `json:"m"` // broadcast messages: proposed headers, prevote proofs, precommit proofs
	Items      int            `json:"i"` // distinct broadcast items
	Required   int            `json:"r"`
	HarnessErr string         `json:"e,omitempty"`
	Residue    string         `json:"-"` // oracle residue part of the canonical key

	// Only for single runs (replay, samples).
	Handed    []string `json:"handed,omitempty"`
	Broadcast []string `json:"broadcast,omitempty"`
	Missing   []string `json:"missing,omitempty"`
	Extra     []string `json:"extra,omitempty"`
}

func unionCount(v aview, kind int) int {
	var m uint8
	for t := 0; t < maxTargets; t++ {
		m |= v.Votes[kind][t]
	}
	return bits.OnesCount8(m)
}

func itemKind(item string) string {
	if i := strings.IndexByte(item, '|'); i > 0 {
		return item[:i]
	}
	return item
}

// runHist replays hist on a fresh ChattyStrategy and evaluates the oracle at quiescence after the last event.
// backlog > 0: the last `backlog` updates handed over pile up in front of the strategy: the broadcaster stops reading
// before the first of them is handed over, every one of them is offered on the update channel (senders queue up in
// order), and only then does the broadcaster read again - the situation of a mirror that keeps producing updates while
// the strategy is blocked broadcasting.
func runHist(t *testing.T, p params, hist []string, detail bool, backlog int) (out runOut) {
	w := getWorld(p.NV)
	m := newModel(p)

	required := map[string][]source{} // items the strategy must have offered
	allowed := map[string]struct{}{}  // items contained in any view handed over
	var rec *recorder
	exited := false
	var herr string

	totalSends := 0
	if backlog > 0 {
		m0 := newModel(p)
		for _, ev := range hist {
			if u, err := m0.apply(ev); err == nil && u != nil {
				totalSends++
			}
		}
	}
	synctest.Test(t, func(t *testing.T) {
		ctx, cancel := context.WithCancel(context.Background())
		var wg sync.WaitGroup
		rec = &recorder{
			phCh: make(chan tmconsensus.ProposedHeader),
			pvCh: make(chan tmconsensus.PrevoteSparseProof),
			pcCh: make(chan tmconsensus.PrecommitSparseProof),
		}
		drainCtx, stopDrain := context.WithCancel(ctx)
		var dwg sync.WaitGroup
		rec.drain(drainCtx, &dwg)
		holding := false

		s := tmgossip.NewChattyStrategy(ctx, slog.New(slog.DiscardHandler), rec)
		updates := make(chan tmelink.NetworkViewUpdate)
		s.Start(updates)
		done := make(chan struct{})
		go func() {
			s.Wait()
			close(done)
		}()

		for i, ev := range hist {
			prevSent := m.Sent
			u, err := m.apply(ev)
			if err != nil {
				herr = fmt.Sprintf("step %d: %v", i, err)
				break
			}
			if u == nil {
				continue
			}
			// Harness bookkeeping of what is handed over.
			for sl := 0; sl < 3; sl++ {
				v := u.Views[sl]
				if v == nil {
					continue
				}
				var same [2]bool
				if ps := prevSent[sl]; ps != nil && ps.H == v.H && ps.R == v.R {
					same[kindPV] = unionCount(*ps, kindPV) == unionCount(*v, kindPV)
					same[kindPC] = unionCount(*ps, kindPC) == unionCount(*v, kindPC)
				}
				for _, it := range v.itemKeys(false) {
					src := source{U: out.Sends, Slot: slotNames[sl]}
					switch itemKind(it) {
					case "pv":
						src.SameUnion = same[kindPV]
					case "pc":
						src.SameUnion = same[kindPC]
					}
					required[it] = append(required[it], src)
					allowed[it] = struct{}{}
				}
			}
			if u.NVR != nil {
				// Weaker reading of the statement: of a nil-voted round only the precommits must be offered
				// ("including the final precommits of a nil-committed round");
				// its proposals and prevotes may be offered.
				for _, it := range u.NVR.itemKeys(true) {
					required[it] = append(required[it], source{U: out.Sends, Slot: "nvr"})
				}
				for _, it := range u.NVR.itemKeys(false) {
					allowed[it] = struct{}{}
				}
			}
			real := w.update(u)
			if backlog > 0 && !holding && out.Sends >= totalSends-backlog {
				// The broadcaster stops reading (at a quiescent point: nothing is in flight).
				holding = true
				stopDrain()
				dwg.Wait()
			}
			out.Sends++
			if holding {
				wg.Add(1)
				go func() {
					defer wg.Done()
					select {
					case updates <- real:
					case <-done:
					case <-ctx.Done():
					}
				}()
				synctest.Wait() // the sender is parked (or its update was taken): the queue order is the hand-over order
				continue
			}
			if !exited {
				select {
				case updates <- real:
				case <-done:
					exited = true
				}
			}
			synctest.Wait()
		}
		if holding {
			// The broadcaster reads again.
			rec.drain(ctx, &wg)
			synctest.Wait()
		}
		if !exited {
			select {
			case <-done:
				exited = true
			default:
			}
		}
		cancel()
		<-done
		wg.Wait()
		stopDrain()
		dwg.Wait()
	})

	if herr != "" {
		out.HarnessErr = herr
		return out
	}

	// Decode what was offered to the broadcaster.
	bcast := map[string]struct{}{}
	var corrupt []string
	for _, ph := range rec.phs {
		found := false
		for idx := 0; idx < maxProps; idx++ {
			k := phItem(ph.Header.Height, ph.Round, idx)
			if want, ok := w.phs[k]; ok && reflect.DeepEqual(want, ph) {
				bcast[k] = struct{}{}
				found = true
				break
			}
		}
		if !found {
			corrupt = append(corrupt, fmt.Sprintf("ph:unknown-or-altered proposed header h=%d r=%d hash=%x", ph.Header.Height, ph.Round, ph.Header.Hash))
		}
	}
	decode := func(kind int, h uint64, r uint32, pkh string, proofs map[string][]gcrypto.SparseSignature) {
		kn := kindNames[kind]
		if pkh != w.pubKeyHash {
			corrupt = append(corrupt, fmt.Sprintf("%s:wrong public key hash on sparse proof h=%d r=%d", kn, h, r))
		}
		for hash, sigs := range proofs {
			tgt, ok := w.tgtOf[hrKey{h, r}][hash]
			if !ok {
				corrupt = append(corrupt, fmt.Sprintf("%s:signatures for a target that no view of h=%d r=%d contained: %x", kn, h, r, hash))
				continue
			}
			for _, ss := range sigs {
				if len(ss.KeyID) != 2 {
					corrupt = append(corrupt, fmt.Sprintf("%s:malformed key id %x", kn, ss.KeyID))
					continue
				}
				val := int(binary.BigEndian.Uint16(ss.KeyID))
				it := sigItem(kind, h, r, tgt, val)
				if want, ok := w.sigs[it]; !ok || !bytes.Equal(want, ss.Sig) {
					corrupt = append(corrupt, fmt.Sprintf("%s:signature bytes offered for %s are not the ones handed in", kn, it))
					continue
				}
				bcast[it] = struct{}{}
			}
		}
	}
	for _, x := range rec.pvs {
		decode(kindPV, x.Height, x.Round, x.PubKeyHash, x.Proofs)
	}
	for _, x := range rec.pcs {
		decode(kindPC, x.Height, x.Round, x.PubKeyHash, x.Proofs)
	}
	out.Msgs = [3]int{len(rec.phs), len(rec.pvs), len(rec.pcs)}
	out.Items = len(bcast)
	out.Required = len(required)

	histStr := strings.Join(hist, " ")
	classes := map[string]struct{}{}

	if exited {
		classes["strategy-exited"] = struct{}{}
		out.Viol = append(out.Viol, vx.Violation{Prop: "C17", Sig: "strategy-exited", Step: len(hist),
			Msg: "the strategy's kernel goroutine returned although its context was not cancelled; later updates are not broadcast. history: " + histStr})
	}

	// Subset: nothing else.
	var extra []string
	for it := range bcast {
		if _, ok := allowed[it]; !ok {
			extra = append(extra, it)
		}
	}
	sort.Strings(extra)
	sort.Strings(corrupt)
	for _, it := range extra {
		sig := "extra:" + itemKind(it)
		classes[sig] = struct{}{}
		out.Viol = appendViol(out.Viol, vx.Violation{Prop: "C17", Sig: sig, Step: len(hist),
			Msg: fmt.Sprintf("the strategy offered %s to the broadcaster, which no view handed to it contained. history: %s", it, histStr)})
	}
	for _, c := range corrupt {
		sig := "extra:corrupt:" + c[:strings.IndexByte(c, ':')]
		classes[sig] = struct{}{}
		out.Viol = appendViol(out.Viol, vx.Violation{Prop: "C17", Sig: sig, Step: len(hist),
			Msg: fmt.Sprintf("the strategy offered something that was not handed to it: %s. history: %s", c, histStr)})
	}

	// Superset: completeness.
	//
	// A missing item gets a signature that names the minimal shape of the input that lost it,
	// so that the two defects known on the unchanged tree (known_findings.d/C17.json) cannot hide anything else:
	//
	//   missing:<pv|pc>:second-target-same-union-size
	//     every update that carried the signature carried it in a slot whose previously handed view had the same
	//     height and round and the same NUMBER of distinct signers of that kind, i.e. the signer had already signed
	//     another target (signatures are only ever added). ChattyStrategy.broadcastUpdatesOnly compares
	//     only the size of the union of the signer bitsets, so nothing is sent.
	//     Minimal history: V.v.pv.0.A! V.v.pv.0.nil!
	//   missing:pc:first-update-nil-voted-round
	//     the precommit was handed over only as part of NilVotedRound of the very first update;
	//     ChattyStrategy.kernel handles the first update separately and ignores NilVotedRound there.
	//     Minimal history: V.v.pc.0.A adv!
	//   missing:<ph|pv|pc>:plain:src=<slots>
	//     anything else (no known instance on the unchanged tree).
	var missing []string
	for it := range required {
		if _, ok := bcast[it]; !ok {
			missing = append(missing, it)
		}
	}
	sort.Strings(missing)
	for _, it := range missing {
		srcs := required[it]
		kind := itemKind(it)
		class := ""
		allFirstNVR, allSame := true, kind != "ph"
		slots := map[string]struct{}{}
		for _, s := range srcs {
			if !(s.U == 0 && s.Slot == "nvr") {
				allFirstNVR = false
			}
			if !s.SameUnion {
				allSame = false
			}
			slots[s.Slot] = struct{}{}
		}
		switch {
		case allFirstNVR:
			class = "first-update-nil-voted-round"
		case allSame:
			class = "second-target-same-union-size"
		default:
			class = "plain:src=" + strings.Join(sortedSet(slots), "+")
		}
		sig := "missing:" + kind + ":" + class
		classes[sig] = struct{}{}
		out.Viol = appendViol(out.Viol, vx.Violation{Prop: "C17", Sig: sig, Step: len(hist),
			Msg: fmt.Sprintf("at quiescence %s was never offered to the broadcaster although it was in a view handed to the strategy (sources %+v); offered messages: %d proposed headers, %d prevote proofs, %d precommit proofs. history: %s",
				it, srcs, out.Msgs[0], out.Msgs[1], out.Msgs[2], histStr)})
	}

	// Canonical key: harness state + oracle residue.
	out.Residue = "|x" + strconv.FormatBool(exited) + "|m" + strings.Join(missing, ",") + "|e" + strings.Join(extra, ",") + "|c" + strings.Join(corrupt, ",")
	out.Key = vx.ShortHash(m.key() + out.Residue)

	verdict := "ok"
	if len(classes) > 0 {
		verdict = strings.Join(sortedSet(classes), "+")
	}
	shape := ""
	for i, n := range []string{"ph", "pv", "pc"} {
		if out.Msgs[i] > 0 {
			shape += n
		}
	}
	if shape == "" {
		shape = "none"
	}
	out.Outcome = verdict + "|bcast=" + shape
	// Non-trivial: at least one update was handed over, it contained something, and the strategy offered something,
	// so both inclusions compared non-empty sets.
	out.NonTrivial = out.Sends > 0 && len(required) > 0 && len(bcast) > 0

	if detail {
		for it := range allowed {
			out.Handed = append(out.Handed, it)
		}
		sort.Strings(out.Handed)
		out.Broadcast = sortedSet(bcast)
		out.Missing = missing
		out.Extra = append(extra, corrupt...)
	}
	return out
}

func appendViol(vs []vx.Violation, v vx.Violation) []vx.Violation {
	for _, x := range vs {
		if x.Sig == v.Sig {
			return vs
		}
	}
	return append(vs, v)
}

func jobParams(job vx.Job) params {
	p := params{NV: 2, NT: 2}
	if n, err := strconv.Atoi(job.Args["nv"]); err == nil && n >= 1 && n <= 8 {
		p.NV = n
	}
	if n, err := strconv.Atoi(job.Args["nt"]); err == nil && n >= 1 && n <= maxTargets {
		p.NT = n
	}
	return p
}

func (o runOut) toResult() vx.Result {
	res := vx.Result{Key: o.Key, Viol: o.Viol, Outcome: o.Outcome, NonTrivial: o.NonTrivial, HarnessErr: o.HarnessErr}
	res.Count("updates_handed", int64(o.Sends))
	res.Count("broadcast_msgs", int64(o.Msgs[0]+o.Msgs[1]+o.Msgs[2]))
	res.Count("items_compared", int64(o.Required))
	return res
}

// execRun: one history, full detail (replay and samples).
func execRun(t *testing.T, job vx.Job) vx.Result {
	bl, _ := strconv.Atoi(job.Args["backlog"])
	o := runHist(t, jobParams(job), job.Hist, true, bl)
	res := o.toResult()
	res.Obs, _ = json.Marshal(o)
	if m, err := replayModel(jobParams(job), job.Hist); err == nil {
		res.Next = m.enabled()
	}
	return res
}

// execExpand: all successors of one state.
//
// A successor by an event with "!" (an update is handed over) is a fresh execution of history+event on a new strategy.
// A successor by a held-back event hands nothing to the strategy: its execution on the real code is, update for update,
// the execution of the parent history, which is run once here; only the harness state differs.
//
// Compact output: Next[0] holds one line per successor (event, key, flags n=non-trivial h=held, outcome),
// Obs the full records of the successors with violations or harness errors, Counters the sums.
const backlogMaxLen = 4

func execExpand(t *testing.T, job vx.Job) vx.Result {
	p := jobParams(job)
	m, err := replayModel(p, job.Hist)
	if err != nil {
		return vx.Result{HarnessErr: err.Error()}
	}
	evs := m.enabled()
	var res vx.Result
	var bad []childRec
	var lines strings.Builder
	h := append(append(make([]string, 0, len(job.Hist)+1), job.Hist...), "")
	var sends, msgs, items, execs, backlogExecs int64
	parent := runHist(t, p, job.Hist, false, 0)
	execs++
	if parent.HarnessErr != "" {
		return vx.Result{HarnessErr: parent.HarnessErr}
	}
	for i, ev := range evs {
		h[len(h)-1] = ev
		var o runOut
		flags := ""
		if strings.HasSuffix(ev, "!") {
			o = runHist(t, p, h, false, 0)
			execs++
			sends += int64(o.Sends)
			msgs += int64(o.Msgs[0] + o.Msgs[1] + o.Msgs[2])
			items += int64(o.Required)
			if len(o.Viol) > 0 || o.HarnessErr != "" {
				bad = append(bad, childRec{E: ev, runOut: o})
			}
			// The same history with its last 2 and its last 3 updates piling up in front of a strategy whose
			// broadcaster does not read (histories of up to backlogMaxLen events).
			for bl := 2; bl <= 3 && bl <= o.Sends && len(h) <= backlogMaxLen; bl++ {
				ob := runHist(t, p, h, false, bl)
				execs++
				backlogExecs++
				if len(ob.Viol) > 0 || ob.HarnessErr != "" {
					bad = append(bad, childRec{E: ev, B: bl, runOut: ob})
				}
			}
		} else {
			m2 := *m
			if _, err := m2.apply(ev); err != nil {
				return vx.Result{HarnessErr: err.Error()}
			}
			o = runOut{Key: vx.ShortHash(m2.key() + parent.Residue), Outcome: parent.Outcome, NonTrivial: parent.NonTrivial}
			flags = "h"
		}
		if o.NonTrivial {
			flags += "n"
		}
		if i > 0 {
			lines.WriteByte('\n')
		}
		lines.WriteString(ev + "\x1f" + o.Key + "\x1f" + flags + "\x1f" + o.Outcome)
	}
	res.Next = []string{lines.String()}
	res.Count("updates_handed", sends)
	res.Count("broadcast_msgs", msgs)
	res.Count("items_compared", items)
	res.Count("executions_on_real_strategy", execs)
	res.Count("executions_with_a_backlog_of_updates", backlogExecs)
	if len(bad) > 0 {
		res.Obs, _ = json.Marshal(bad)
	}
	return res
}
