//go:build verif

// Package zzvsync stands in for "sync" in the instrumented copy of tmmemstore.
// With no scheduler installed it behaves like the real package.
package zzvsync

import (
	"sync"
	"sync/atomic"
)

// Sched is implemented by the cooperative scheduler (vx.Threads).
type Sched interface {
	// Acquire blocks the calling harness thread until the scheduler grants the lock.
	Acquire(l *Lock, write bool)
	Release(l *Lock, write bool)
}

var sched atomic.Pointer[schedBox]

type schedBox struct{ s Sched }

func Install(s Sched) {
	if s == nil {
		sched.Store(nil)
		return
	}
	sched.Store(&schedBox{s})
}

// Lock is the cooperative lock state, owned by the scheduler while one is installed.
type Lock struct {
	Writer  bool
	Readers int
	real    sync.RWMutex
}

type Mutex struct{ l Lock }

func (m *Mutex) Lock() {
	if b := sched.Load(); b != nil {
		b.s.Acquire(&m.l, true)
		return
	}
	m.l.real.Lock()
}

func (m *Mutex) Unlock() {
	if b := sched.Load(); b != nil {
		b.s.Release(&m.l, true)
		return
	}
	m.l.real.Unlock()
}

type RWMutex struct{ l Lock }

func (m *RWMutex) Lock() {
	if b := sched.Load(); b != nil {
		b.s.Acquire(&m.l, true)
		return
	}
	m.l.real.Lock()
}

func (m *RWMutex) Unlock() {
	if b := sched.Load(); b != nil {
		b.s.Release(&m.l, true)
		return
	}
	m.l.real.Unlock()
}

func (m *RWMutex) RLock() {
	if b := sched.Load(); b != nil {
		b.s.Acquire(&m.l, false)
		return
	}
	m.l.real.RLock()
}

func (m *RWMutex) RUnlock() {
	if b := sched.Load(); b != nil {
		b.s.Release(&m.l, false)
		return
	}
	m.l.real.RUnlock()
}

// The rest of package sync is passed through for completeness.
type (
	Once      = sync.Once
	WaitGroup = sync.WaitGroup
	Map       = sync.Map
	Pool      = sync.Pool
	Cond      = sync.Cond
)
