//go:build verif

package hlib

import (
	"fmt"
	"math"
	"math/bits"
	"strconv"
	"testing"

	"github.com/gordian-engine/gordian/internal/zzverif/vx"
	"github.com/gordian-engine/gordian/tm/tmconsensus"
)

// C18 — Byzantine thresholds exact for every total power (bounded exhaustive, E-SEQ).

func init() {
	registry.Execs["c18range"] = execC18Range
	registry.Checks["C18"] = checkC18
}

// lt3 reports 3*a < b using 128-bit arithmetic; le3 reports 3*a <= b... generalised helpers below.
func mul3(a uint64) (hi, lo uint64) { return bits.Mul64(a, 3) }
func mul2(a uint64) (hi, lo uint64) { return bits.Mul64(a, 2) }

func cmp128(ah, al, bh, bl uint64) int {
	if ah != bh {
		if ah < bh {
			return -1
		}
		return 1
	}
	if al != bl {
		if al < bl {
			return -1
		}
		return 1
	}
	return 0
}

// c18One checks every clause for one n and returns "" or a description.
func c18One(n uint64) string {
	maj := tmconsensus.ByzantineMajority(n)
	min := tmconsensus.ByzantineMinority(n)

	h2, l2 := mul2(n) // 2n
	// maj is the least m with 3m > 2n.
	mh, ml := mul3(maj)
	if cmp128(mh, ml, h2, l2) <= 0 {
		return fmt.Sprintf("ByzantineMajority(%d)=%d: 3m is not > 2n", n, maj)
	}
	if maj == 0 {
		return fmt.Sprintf("ByzantineMajority(%d)=0", n)
	}
	ph, pl := mul3(maj - 1)
	if cmp128(ph, pl, h2, l2) > 0 {
		return fmt.Sprintf("ByzantineMajority(%d)=%d is not the least m with 3m > 2n", n, maj)
	}
	if maj > n {
		return fmt.Sprintf("ByzantineMajority(%d)=%d exceeds n", n, maj)
	}
	// min is the least m with 3m >= n.
	nh, nl := mul3(min)
	if cmp128(nh, nl, 0, n) < 0 {
		return fmt.Sprintf("ByzantineMinority(%d)=%d: 3m is not >= n", n, min)
	}
	if min == 0 {
		return fmt.Sprintf("ByzantineMinority(%d)=0", n)
	}
	qh, ql := mul3(min - 1)
	if cmp128(qh, ql, 0, n) >= 0 {
		return fmt.Sprintf("ByzantineMinority(%d)=%d is not the least m with 3m >= n", n, min)
	}
	if min > n {
		return fmt.Sprintf("ByzantineMinority(%d)=%d exceeds n", n, min)
	}
	// Two majority sets overlap in at least a minority: 2*maj - n >= min (128-bit).
	th, tl := mul2(maj)
	// (2maj) - n
	dl, borrow := bits.Sub64(tl, n, 0)
	dh, _ := bits.Sub64(th, 0, borrow)
	if cmp128(dh, dl, 0, min) < 0 {
		return fmt.Sprintf("n=%d: overlap of two majorities 2*%d-n is below the minority %d", n, maj, min)
	}
	// A sub-minority set cannot form a majority: min-1 < maj.
	if min-1 >= maj {
		return fmt.Sprintf("n=%d: a set of power min-1=%d reaches the majority %d", n, min-1, maj)
	}
	// ... nor block one: the rest, n-(min-1), still reaches the majority.
	if n-(min-1) < maj {
		return fmt.Sprintf("n=%d: removing a sub-minority set (min-1=%d) leaves %d < majority %d", n, min-1, n-(min-1), maj)
	}
	return ""
}

func execC18Range(t *testing.T, job vx.Job) (res vx.Result) {
	lo, _ := strconv.ParseUint(job.Args["lo"], 10, 64)
	hi, _ := strconv.ParseUint(job.Args["hi"], 10, 64) // inclusive
	defer func() {
		if r := recover(); r != nil {
			res.Violate("C18", "panic", fmt.Sprintf("panic in range [%d,%d]: %v", lo, hi, r), 0)
		}
	}()
	var cnt int64
	classes := map[string]struct{}{}
	for n := lo; ; n++ {
		if n == 0 {
			// Documented: n = 0 panics.
			for name, f := range map[string]func(uint64) uint64{"ByzantineMajority": tmconsensus.ByzantineMajority, "ByzantineMinority": tmconsensus.ByzantineMinority} {
				func() {
					defer func() {
						if recover() == nil {
							res.Violate("C18", "zero-no-panic:"+name, name+"(0) did not panic as documented", 0)
						}
					}()
					f(0)
				}()
			}
		} else {
			if msg := c18One(n); msg != "" {
				res.Violate("C18", "threshold", msg, 0)
				break
			}
			cnt++
			if cnt <= 4096 || n+64 >= hi {
				classes[fmt.Sprintf("%d/%d", n%3, bits.Len64(n))] = struct{}{}
			}
		}
		if n == hi {
			break
		}
	}
	res.Count("values_checked", cnt)
	res.Count("residue_bitlen_classes", int64(len(classes)))
	res.NonTrivial = cnt > 0
	res.Key = job.Args["lo"] + "-" + job.Args["hi"]
	res.Outcome = "ok"
	return res
}

func checkC18(c *vx.Ctx) {
	c.Level = "exploration"
	c.Rule = "every n of the listed closed ranges is evaluated on the real ByzantineMajority/ByzantineMinority with a 128-bit oracle (math/bits); a case is one shard of consecutive n; distinct_nontrivial counts distinct shards in which at least one n was checked"
	type rng struct{ lo, hi uint64 }
	var ranges []rng
	top := uint64(1) << 30
	win := uint64(1) << 16
	if !c.Quick() {
		top = 1 << 36
		win = 1 << 20
	}
	ranges = append(ranges, rng{0, top})
	for _, k := range []uint{8, 16, 31, 32, 33, 62, 63, 64} {
		var p uint64
		if k == 64 {
			p = math.MaxUint64
		} else {
			p = 1 << k
		}
		for _, centre := range []uint64{p, p / 3, p/3*2 + (p%3)*2/3} {
			lo := uint64(0)
			if centre > win {
				lo = centre - win
			}
			hi := centre + win
			if hi < centre {
				hi = math.MaxUint64
			}
			if hi <= top {
				continue
			}
			if lo <= top {
				lo = top + 1
			}
			ranges = append(ranges, rng{lo, hi})
		}
	}
	ranges = append(ranges, rng{math.MaxUint64 - (1 << 24), math.MaxUint64})

	shard := uint64(1) << 24
	var jobs []vx.Job
	for _, r := range ranges {
		for lo := r.lo; ; {
			hi := lo + shard - 1
			if hi > r.hi || hi < lo {
				hi = r.hi
			}
			jobs = append(jobs, vx.Job{Exec: "c18range", Args: map[string]string{"lo": strconv.FormatUint(lo, 10), "hi": strconv.FormatUint(hi, 10)}})
			if hi == r.hi {
				break
			}
			lo = hi + 1
		}
	}
	rs := c.Pool.Map(jobs)
	for i, r := range rs {
		c.Absorb(jobs[i], r)
	}
	c.Extra["shards"] = c.Evaluations
	c.Evaluations = c.Counter("values_checked")
	c.Sample(map[string]any{"range": jobs[0].Args, "checked": rs[0].Counters})
	c.Sample(map[string]any{"range": jobs[len(jobs)-1].Args, "checked": rs[len(rs)-1].Counters})
	c.Sample(map[string]any{"n": 10, "majority": tmconsensus.ByzantineMajority(10), "minority": tmconsensus.ByzantineMinority(10)})
	var rl []string
	for _, r := range ranges {
		rl = append(rl, fmt.Sprintf("[%d,%d]", r.lo, r.hi))
	}
	c.Extra["ranges"] = rl
	c.Extra["explanation"] = "exhaustive:true refers to the listed ranges only; 2^64 values cannot be enumerated (DESIGN.md C18)"
	c.Assume("math/bits 128-bit arithmetic is correct")
}
