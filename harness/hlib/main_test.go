//go:build verif

package hlib

import (
	"testing"

	"github.com/gordian-engine/gordian/internal/zzverif/vx"
)

var registry = vx.Registry{
	Pkg:    "hlib",
	Execs:  map[string]vx.Executor{},
	Checks: map[string]func(*vx.Ctx){},
}

func TestVerif(t *testing.T) {
	vx.Main(t, registry)
}
