//go:build verif

package c14

import (
	"bytes"
	"crypto/sha256"
	"encoding/base64"
	"encoding/json"
	"fmt"
	"regexp"
	"runtime"
	"strconv"
	"strings"
	"testing"
	"time"

	"github.com/gordian-engine/gordian/internal/zzverif/vx"
	"github.com/gordian-engine/gordian/tm/tmcodec"
	"github.com/gordian-engine/gordian/tm/tmconsensus"
	"github.com/gordian-engine/gordian/tm/tmconsensus/tmconsensustest"
)

const modPrefix = "github.com/gordian-engine/gordian/"

// witness is one violating case, small enough to replay on its own.
type witness struct {
	Sig  string            `json:"sig"`
	Msg  string            `json:"msg"`
	Exec string            `json:"exec"`
	Args map[string]string `json:"args"`
	Size int               `json:"size"` // smaller is a better witness
}

// workerObs travels in Result.Obs.
type workerObs struct {
	Hashes  string    `json:"h,omitempty"` // base64 of concatenated 8-byte hashes of non-trivial round-trip encodings
	Wit     []witness `json:"w,omitempty"`
	Samples []any     `json:"s,omitempty"`
	Classes []string  `json:"c,omitempty"` // distinct outcome classes seen
}

type witSet map[string]witness

func (ws witSet) add(w witness) {
	old, ok := ws[w.Sig]
	if !ok || w.Size < old.Size || (w.Size == old.Size && fmt.Sprint(w.Args) < fmt.Sprint(old.Args)) {
		ws[w.Sig] = w
	}
}

func (ws witSet) list() []witness {
	var out []witness
	for _, k := range vx.SortedKeys(ws) {
		out = append(out, ws[k])
	}
	return out
}

// panicInfo describes a recovered panic: message and the innermost gordian frame (outside the harness).
type panicInfo struct {
	Msg   string
	Frame string
}

var (
	reNum = regexp.MustCompile(`\d+`)
	reIdx = regexp.MustCompile(`\[\d+\]`)
)

func (p *panicInfo) sig() string {
	m := reNum.ReplaceAllString(p.Msg, "N")
	if len(m) > 120 {
		m = m[:120]
	}
	return "panic@" + p.Frame + ":" + m
}

// capturePanic must be called from a deferred function with the recovered value.
func capturePanic(r any) *panicInfo {
	pi := &panicInfo{Msg: fmt.Sprint(r)}
	pcs := make([]uintptr, 64)
	n := runtime.Callers(2, pcs)
	frames := runtime.CallersFrames(pcs[:n])
	seenPanic := false
	for {
		f, more := frames.Next()
		if strings.HasPrefix(f.Function, "runtime.gopanic") || strings.HasPrefix(f.Function, "runtime.panic") || strings.HasPrefix(f.Function, "runtime.goPanic") {
			seenPanic = true
		} else if seenPanic && strings.HasPrefix(f.Function, modPrefix) && !strings.Contains(f.Function, "/zzverif/") {
			pi.Frame = strings.TrimPrefix(f.Function, modPrefix)
			break
		}
		if !more {
			break
		}
	}
	if pi.Frame == "" {
		pi.Frame = "?"
	}
	return pi
}

// rtDiff is one failed clause of the round-trip oracle.
type rtDiff struct {
	clause string // stable: field path with indices normalised, or a clause name
	detail string
}

// rtCase runs the round trip of one value and returns the wire bytes and the failed clauses.
func rtCase(codec tmcodec.MarshalCodec, kind string, sp []int) (enc []byte, out []rtDiff) {
	defer func() {
		if r := recover(); r != nil {
			pi := capturePanic(r)
			out = append(out, rtDiff{"panic@" + pi.Frame, "panic during the round trip: " + pi.Msg})
		}
	}()
	var d differ
	hs := tmconsensustest.SimpleHashScheme{}
	ss := tmconsensustest.SimpleSignatureScheme{}

	sameBlock := func(path string, a, b tmconsensus.Header) {
		ha, ea := hs.Block(a)
		hb, eb := hs.Block(b)
		if ea != nil || eb != nil {
			return
		}
		if !bytes.Equal(ha, hb) {
			d.add(path+"<SimpleHashScheme.Block>", "block hash of the decoded header %x != original %x", hb, ha)
		}
	}
	sameSignBytes := func(a, b tmconsensus.ProposedHeader) {
		sa, ea := tmconsensus.ProposalSignBytes(a.Header, a.Round, a.Annotations, ss)
		sb, eb := tmconsensus.ProposalSignBytes(b.Header, b.Round, b.Annotations, ss)
		if ea != nil || eb != nil {
			return
		}
		if !bytes.Equal(sa, sb) {
			d.add("<ProposalSignBytes>", "sign bytes of the decoded proposal differ:\n%s\nvs original\n%s", sb, sa)
		}
	}
	fail := func(clause string, err error) []rtDiff {
		return append(out, rtDiff{clause, err.Error()})
	}

	var err error
	switch kind {
	case "header":
		v := buildHeader(sp)
		if enc, err = codec.MarshalHeader(v); err != nil {
			return enc, fail("marshal-error", err)
		}
		var got tmconsensus.Header
		if err = codec.UnmarshalHeader(enc, &got); err != nil {
			return enc, fail("unmarshal-error", err)
		}
		d.header("", buildHeader(sp), got)
		sameBlock("", buildHeader(sp), got)
	case "proposed":
		v := buildProposed(sp)
		if enc, err = codec.MarshalProposedHeader(v); err != nil {
			return enc, fail("marshal-error", err)
		}
		var got tmconsensus.ProposedHeader
		if err = codec.UnmarshalProposedHeader(enc, &got); err != nil {
			return enc, fail("unmarshal-error", err)
		}
		want := buildProposed(sp)
		d.proposed(want, got)
		sameBlock("Header.", want.Header, got.Header)
		sameSignBytes(want, got)
	case "committed":
		v := buildCommitted(sp)
		if enc, err = codec.MarshalCommittedHeader(v); err != nil {
			return enc, fail("marshal-error", err)
		}
		var got tmconsensus.CommittedHeader
		if err = codec.UnmarshalCommittedHeader(enc, &got); err != nil {
			return enc, fail("unmarshal-error", err)
		}
		want := buildCommitted(sp)
		d.committed(want, got)
		sameBlock("Header.", want.Header, got.Header)
	case "prevote":
		v := buildPrevote(sp)
		if enc, err = codec.MarshalPrevoteProof(v); err != nil {
			return enc, fail("marshal-error", err)
		}
		var got tmconsensus.PrevoteSparseProof
		if err = codec.UnmarshalPrevoteProof(enc, &got); err != nil {
			return enc, fail("unmarshal-error", err)
		}
		w := buildPrevote(sp)
		d.sparse(w.Height, w.Round, w.PubKeyHash, w.Proofs, got.Height, got.Round, got.PubKeyHash, got.Proofs)
	case "precommit":
		v := buildPrecommit(sp)
		if enc, err = codec.MarshalPrecommitProof(v); err != nil {
			return enc, fail("marshal-error", err)
		}
		var got tmconsensus.PrecommitSparseProof
		if err = codec.UnmarshalPrecommitProof(enc, &got); err != nil {
			return enc, fail("unmarshal-error", err)
		}
		w := buildPrecommit(sp)
		d.sparse(w.Height, w.Round, w.PubKeyHash, w.Proofs, got.Height, got.Round, got.PubKeyHash, got.Proofs)
	case "cm-proposed", "cm-prevote", "cm-precommit":
		var msg tmcodec.ConsensusMessage
		switch kind {
		case "cm-proposed":
			v := buildProposed(sp)
			msg.ProposedHeader = &v
		case "cm-prevote":
			v := buildPrevote(sp)
			msg.PrevoteProof = &v
		default:
			v := buildPrecommit(sp)
			msg.PrecommitProof = &v
		}
		if enc, err = codec.MarshalConsensusMessage(msg); err != nil {
			return enc, fail("marshal-error", err)
		}
		// A fresh destination, as in tmlibp2p's validator (the only caller in the repository).
		var got tmcodec.ConsensusMessage
		if err = codec.UnmarshalConsensusMessage(enc, &got); err != nil {
			return enc, fail("unmarshal-error", err)
		}
		variant := func(m tmcodec.ConsensusMessage) string {
			var vs []string
			if m.ProposedHeader != nil {
				vs = append(vs, "ProposedHeader")
			}
			if m.PrevoteProof != nil {
				vs = append(vs, "PrevoteProof")
			}
			if m.PrecommitProof != nil {
				vs = append(vs, "PrecommitProof")
			}
			return strings.Join(vs, "+")
		}
		if variant(got) != variant(msg) {
			d.add("<variant>", "encoded variant %q decoded as %q", variant(msg), variant(got))
			break
		}
		switch kind {
		case "cm-proposed":
			want := buildProposed(sp)
			d.proposed(want, *got.ProposedHeader)
			sameBlock("Header.", want.Header, got.ProposedHeader.Header)
			sameSignBytes(want, *got.ProposedHeader)
		case "cm-prevote":
			w, g := buildPrevote(sp), *got.PrevoteProof
			d.sparse(w.Height, w.Round, w.PubKeyHash, w.Proofs, g.Height, g.Round, g.PubKeyHash, g.Proofs)
		default:
			w, g := buildPrecommit(sp), *got.PrecommitProof
			d.sparse(w.Height, w.Round, w.PubKeyHash, w.Proofs, g.Height, g.Round, g.PubKeyHash, g.Proofs)
		}
	default:
		return nil, []rtDiff{{"harness", "unknown kind " + kind}}
	}
	for _, s := range d.diffs {
		path := s
		if i := strings.Index(s, ": "); i >= 0 {
			path = s[:i]
		}
		out = append(out, rtDiff{reIdx.ReplaceAllString(path, "[N]"), s})
	}
	return enc, out
}

// valueKey is a deterministic rendering of the built value (fmt prints maps in key order;
// %#v keeps nil and empty apart).
func valueKey(kind string, sp []int) string {
	switch kind {
	case "header":
		return fmt.Sprintf("%#v", buildHeader(sp))
	case "proposed", "cm-proposed":
		return fmt.Sprintf("%#v", buildProposed(sp))
	case "committed":
		return fmt.Sprintf("%#v", buildCommitted(sp))
	case "prevote", "cm-prevote":
		return fmt.Sprintf("%#v", buildPrevote(sp))
	default:
		return fmt.Sprintf("%#v", buildPrecommit(sp))
	}
}

func nonBase(sp []int) int {
	n := 0
	for _, c := range sp {
		if c != 0 {
			n++
		}
	}
	return n
}

// execRT: round trips of every spec vector of one kind whose enumeration index is ≡ part (mod parts).
func execRT(t *testing.T, job vx.Job) (res vx.Result) {
	kind := job.Args["kind"]
	part, _ := strconv.Atoi(job.Args["part"])
	parts, _ := strconv.Atoi(job.Args["parts"])
	order, _ := strconv.Atoi(job.Args["order"])
	if parts <= 0 {
		parts = 1
	}
	codec := newCodec()
	fields := fieldsOf(kind)
	wits := witSet{}
	var hashes []byte
	var samples []any
	idx := -1
	var cases, ok, decoded int64
	deadline, _ := strconv.ParseInt(job.Args["deadline_unix"], 10, 64)
	capped := false
	enumSpecs(fields, order, func(sp []int) {
		idx++
		if idx%parts != part || capped {
			return
		}
		if deadline > 0 && idx%256 == part && time.Now().Unix() >= deadline {
			capped = true
			res.Count("capped_jobs", 1)
			return
		}
		cases++
		enc, diffs := rtCase(codec, kind, sp)
		hard := false
		for _, df := range diffs {
			if df.clause == "harness" {
				res.HarnessErr = df.detail
				return
			}
			if df.clause == "marshal-error" || df.clause == "unmarshal-error" || strings.HasPrefix(df.clause, "panic@") {
				hard = true
			}
			sig := "rt:" + kind + ":" + df.clause
			wits.add(witness{
				Sig:  sig,
				Msg:  fmt.Sprintf("round trip of %s [%s] (spec %s): %s\nwire: %s", kind, describeSpec(fields, sp), specString(sp), df.detail, clip(string(enc), 600)),
				Exec: "c14rt1", Args: map[string]string{"kind": kind, "spec": specString(sp)},
				Size: nonBase(sp),
			})
		}
		if !hard && enc != nil {
			decoded++
			// Distinctness is decided on the value, not on the wire bytes: MarshalHeader writes the
			// commit-proof entries in map iteration order, so the bytes of one value vary between runs.
			h := sha256.Sum256([]byte(kind + "|" + valueKey(kind, sp)))
			hashes = append(hashes, h[:8]...)
		}
		if len(diffs) == 0 {
			ok++
		}
		if len(samples) < 1 && nonBase(sp) == 2 && part == 0 {
			samples = append(samples, map[string]any{
				"part": "round-trip", "kind": kind, "changed_fields": describeSpec(fields, sp), "spec": specString(sp),
				"wire": clip(string(enc), 400), "oracle_failures": len(diffs),
			})
		}
	})
	res.Count("rt_cases", cases)
	res.Count("rt_cases:"+kind, cases)
	res.Count("rt_equal", ok)
	res.Count("rt_decoded", decoded)
	for _, w := range wits.list() {
		res.Violate("C14", w.Sig, w.Msg, 0)
	}
	obs := workerObs{Hashes: base64.StdEncoding.EncodeToString(hashes), Wit: wits.list(), Samples: samples}
	res.Obs, _ = json.Marshal(obs)
	res.NonTrivial = decoded > 0
	res.Key = fmt.Sprintf("rt/%s/%d/%d/%d", kind, part, parts, order)
	if len(wits) > 0 {
		res.Outcome = "rt:mismatch"
	} else {
		res.Outcome = "rt:equal"
	}
	return res
}

// execRT1 replays one round-trip case.
func execRT1(t *testing.T, job vx.Job) (res vx.Result) {
	kind := job.Args["kind"]
	sp := parseSpec(job.Args["spec"])
	fields := fieldsOf(kind)
	if len(sp) != len(fields) {
		res.HarnessErr = "spec length does not match kind"
		return res
	}
	enc, diffs := rtCase(newCodec(), kind, sp)
	for _, df := range diffs {
		res.Violate("C14", "rt:"+kind+":"+df.clause,
			fmt.Sprintf("round trip of %s [%s]: %s\nwire: %s", kind, describeSpec(fields, sp), df.detail, clip(string(enc), 2000)), 0)
	}
	res.Count("rt_cases", 1)
	res.NonTrivial = true
	res.Outcome = "rt:replay"
	return res
}

func clip(s string, n int) string {
	if len(s) <= n {
		return s
	}
	return s[:n] + fmt.Sprintf("...(%d bytes)", len(s))
}
