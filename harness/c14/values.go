//go:build verif

package c14

import (
	"bytes"
	"crypto/ed25519"
	"crypto/sha256"
	"fmt"
	"math"
	"sort"
	"strings"

	"github.com/gordian-engine/gordian/gcrypto"
	"github.com/gordian-engine/gordian/tm/tmcodec"
	"github.com/gordian-engine/gordian/tm/tmcodec/tmjson"
	"github.com/gordian-engine/gordian/tm/tmconsensus"
)

// The codec under test, constructed the way the repository's own test does
// (tm/tmcodec/tmjson/codec_test.go): a fresh registry with ed25519 registered.
func newCodec() tmcodec.MarshalCodec {
	reg := new(gcrypto.Registry)
	gcrypto.RegisterEd25519(reg)
	return tmjson.MarshalCodec{CryptoRegistry: reg}
}

// ---------------------------------------------------------------------------
// Per-field domains. Choice 0 is always the base ("typical") value.
// ---------------------------------------------------------------------------

func typ(seed string, n int) []byte {
	var out []byte
	for i := 0; len(out) < n; i++ {
		h := sha256.Sum256([]byte(fmt.Sprintf("c14/%s/%d", seed, i)))
		out = append(out, h[:]...)
	}
	return out[:n]
}

// bytes domain: typical 32 bytes (distinct per field, so swapped fields are seen), nil, empty, one byte.
const nBytes = 4

func domBytes(c int, seed string) []byte {
	switch c {
	case 0:
		return typ(seed, 32)
	case 1:
		return nil
	case 2:
		return []byte{}
	default:
		return []byte{0x00}
	}
}

// annotation domain: nil, empty, set.
const nAnn = 3

func domAnn(c int, seed string) []byte {
	switch c {
	case 0:
		return nil
	case 1:
		return []byte{}
	default:
		return []byte("ann:" + seed)
	}
}

// uint64 domain. 2^53+1 is not representable as a float64.
const nU64 = 5

func domU64(c int) uint64 {
	return []uint64{3, 0, 1, math.MaxUint64, 1<<53 + 1}[c]
}

const nU32 = 4

func domU32(c int) uint32 {
	return []uint32{2, 0, 1, math.MaxUint32}[c]
}

// string (hash used as string / map key) domain: typical, empty, one NUL byte, not UTF-8.
const nStr = 4

func domStr(c int, seed string) string {
	switch c {
	case 0:
		return string(typ(seed, 32))
	case 1:
		return ""
	case 2:
		return "\x00"
	default:
		return "\xff\xfe\x80"
	}
}

func sparseSig(seed string, i int) gcrypto.SparseSignature {
	return gcrypto.SparseSignature{
		KeyID: []byte{0, byte(i)},
		Sig:   typ(fmt.Sprintf("%s/sig%d", seed, i), 64),
	}
}

// proofs domain (block hash -> sparse signatures).
const nProofs = 10

// Totality-only extra choice: one entry with one signature (smallest non-empty shape).
const proofsTiny = 10

func domProofs(c int, seed string) map[string][]gcrypto.SparseSignature {
	h1 := string(typ(seed+"/bh", 32))
	switch c {
	case 0:
		return map[string][]gcrypto.SparseSignature{h1: {sparseSig(seed, 0), sparseSig(seed, 1)}}
	case 1:
		return nil
	case 2:
		return map[string][]gcrypto.SparseSignature{}
	case 3: // only the nil-block key
		return map[string][]gcrypto.SparseSignature{"": {sparseSig(seed, 0)}}
	case 4: // three entries including the nil block and a key that is not UTF-8
		return map[string][]gcrypto.SparseSignature{
			h1:             {sparseSig(seed, 0), sparseSig(seed, 1)},
			"":             {sparseSig(seed, 2)},
			"\xff\xfe\x00": {sparseSig(seed, 3)},
		}
	case 5:
		return map[string][]gcrypto.SparseSignature{h1: nil}
	case 6:
		return map[string][]gcrypto.SparseSignature{h1: {}}
	case 7:
		return map[string][]gcrypto.SparseSignature{h1: {{KeyID: nil, Sig: nil}}}
	case 8:
		return map[string][]gcrypto.SparseSignature{h1: {{KeyID: []byte{}, Sig: []byte{}}}}
	case 9: // three signatures, one-byte key id
		return map[string][]gcrypto.SparseSignature{h1: {
			{KeyID: []byte{0x07}, Sig: typ(seed+"/s9", 64)}, sparseSig(seed, 1), sparseSig(seed, 2)}}
	default: // proofsTiny
		return map[string][]gcrypto.SparseSignature{h1: {sparseSig(seed, 0)}}
	}
}

var keyCache = map[int]gcrypto.PubKey{}

// detKey returns a real ed25519 public key derived from a fixed seed (crypto/ed25519 directly).
func detKey(i int) gcrypto.PubKey {
	if k, ok := keyCache[i]; ok {
		return gcrypto.Ed25519PubKey(bytes.Clone(k.PubKeyBytes()))
	}
	seed := sha256.Sum256([]byte(fmt.Sprintf("c14/key/%d", i)))
	priv := ed25519.NewKeyFromSeed(seed[:])
	k := gcrypto.Ed25519PubKey(priv.Public().(ed25519.PublicKey))
	keyCache[i] = k
	return gcrypto.Ed25519PubKey(bytes.Clone(k.PubKeyBytes()))
}

// patKey returns a 32-byte key of an awkward byte pattern (leading/trailing zero bytes, 0xff).
func patKey(i int) gcrypto.PubKey {
	b := make([]byte, 32)
	switch i % 3 {
	case 0: // all zero
	case 1:
		for j := range b {
			b[j] = 0xff
		}
	default:
		b[15] = 0x01
	}
	return gcrypto.Ed25519PubKey(b)
}

// validator set domains: count, power pattern, key pattern.
const (
	nVSCount = 3
	nVSPow   = 4
	nVSKeys  = 3
	nVSRel   = 5 // next set derived from the current set: identical / powers changed / one power changed / last key replaced / reversed
)

func domValidatorSet(count, pow, keys int, keyOffset int, seed string, pkh, vph int) tmconsensus.ValidatorSet {
	vals := make([]tmconsensus.Validator, count)
	pubs := make([]gcrypto.PubKey, count)
	for i := range vals {
		var k gcrypto.PubKey
		switch keys {
		case 0:
			k = detKey(keyOffset + i)
		case 1:
			k = detKey(i) // the same keys as the other set's base
		default:
			k = patKey(i)
		}
		var p uint64
		switch pow {
		case 0:
			p = uint64(100_000 - i)
		case 1:
			p = 0
		case 2:
			p = math.MaxUint64 - uint64(i)
		default:
			p = 1<<32 + uint64(i) // does not fit in 32 bits
		}
		vals[i] = tmconsensus.Validator{PubKey: k, Power: p}
		pubs[i] = k
	}
	return tmconsensus.ValidatorSet{
		Validators:    vals,
		PubKeys:       pubs,
		PubKeyHash:    domBytes(pkh, seed+"/pkh"),
		VotePowerHash: domBytes(vph, seed+"/vph"),
	}
}

// relatedNextSet builds the next validator set: independent of the current one (choices < nVSKeys of field 13),
// or derived from it, because codecs are tempted to exploit that the two sets usually coincide.
func relatedNextSet(sp []int, cur tmconsensus.ValidatorSet) tmconsensus.ValidatorSet {
	if sp[13] < nVSKeys {
		return domValidatorSet(vsCounts[1][sp[11]], sp[12], sp[13], 2, "NVS", sp[14], sp[15])
	}
	vals := append([]tmconsensus.Validator{}, cur.Validators...)
	pubs := append([]gcrypto.PubKey{}, cur.PubKeys...)
	out := tmconsensus.ValidatorSet{Validators: vals, PubKeys: pubs, PubKeyHash: cur.PubKeyHash, VotePowerHash: cur.VotePowerHash}
	switch sp[13] - nVSKeys {
	case 0: // identical
	case 1: // same keys and key hash, every power changed
		for i := range vals {
			vals[i].Power += 1000 + uint64(i)
		}
		out.VotePowerHash = typ("NVS/vph-changed", 32)
	case 2: // same keys and key hash, only the last power changed
		vals[len(vals)-1].Power++
		out.VotePowerHash = typ("NVS/vph-changed", 32)
	case 3: // last key replaced
		k := detKey(9)
		vals[len(vals)-1].PubKey = k
		pubs[len(pubs)-1] = k
		out.PubKeyHash = typ("NVS/pkh-changed", 32)
	case 4: // reversed order
		for i, j := 0, len(vals)-1; i < j; i, j = i+1, j-1 {
			vals[i], vals[j] = vals[j], vals[i]
			pubs[i], pubs[j] = pubs[j], pubs[i]
		}
		out.PubKeyHash = typ("NVS/pkh-changed", 32)
	}
	return out
}

// ---------------------------------------------------------------------------
// Kinds of values and their field tables.
// ---------------------------------------------------------------------------

type fieldDesc struct {
	name string
	n    int // number of choices, choice 0 = base
}

var headerFields = []fieldDesc{
	{"Hash", nBytes},                           // 0
	{"PrevBlockHash", nBytes},                  // 1
	{"Height", nU64},                           // 2
	{"PrevCommitProof.Round", nU32},            // 3
	{"PrevCommitProof.PubKeyHash", nStr},       // 4
	{"PrevCommitProof.Proofs", nProofs},        // 5
	{"ValidatorSet.count", nVSCount},           // 6
	{"ValidatorSet.powers", nVSPow},            // 7
	{"ValidatorSet.keys", nVSKeys},             // 8
	{"ValidatorSet.PubKeyHash", nBytes},        // 9
	{"ValidatorSet.VotePowerHash", nBytes},     // 10
	{"NextValidatorSet.count", nVSCount},       // 11
	{"NextValidatorSet.powers", nVSPow},        // 12
	{"NextValidatorSet.keys", nVSKeys + nVSRel}, // 13: choices >= nVSKeys relate the next set to the current one
	{"NextValidatorSet.PubKeyHash", nBytes},    // 14
	{"NextValidatorSet.VotePowerHash", nBytes}, // 15
	{"DataID", nBytes},                         // 16
	{"PrevAppStateHash", nBytes},               // 17
	{"Annotations.User", nAnn},                 // 18
	{"Annotations.Driver", nAnn},               // 19
}

const nHeaderFields = 20

var proposedFields = append(append([]fieldDesc{}, headerFields...),
	fieldDesc{"Round", nU32},                 // 20
	fieldDesc{"ProposerPubKey", 4},           // 21
	fieldDesc{"Signature", nBytes},           // 22
	fieldDesc{"PH.Annotations.User", nAnn},   // 23
	fieldDesc{"PH.Annotations.Driver", nAnn}, // 24
)

var committedFields = append(append([]fieldDesc{}, headerFields...),
	fieldDesc{"Proof.Round", nU32},      // 20
	fieldDesc{"Proof.PubKeyHash", nStr}, // 21
	fieldDesc{"Proof.Proofs", nProofs},  // 22
)

var sparseFields = []fieldDesc{
	{"Height", nU64},
	{"Round", nU32},
	{"PubKeyHash", nStr},
	{"Proofs", nProofs},
}

var kinds = []string{"header", "proposed", "committed", "prevote", "precommit", "cm-proposed", "cm-prevote", "cm-precommit"}

func fieldsOf(kind string) []fieldDesc {
	switch kind {
	case "header":
		return headerFields
	case "proposed", "cm-proposed":
		return proposedFields
	case "committed":
		return committedFields
	default:
		return sparseFields
	}
}

var vsCounts = [][]int{{2, 1, 3}, {3, 1, 2}} // current set, next set

func buildHeader(sp []int) tmconsensus.Header {
	return tmconsensus.Header{
		Hash:          domBytes(sp[0], "Hash"),
		PrevBlockHash: domBytes(sp[1], "PrevBlockHash"),
		Height:        domU64(sp[2]),
		PrevCommitProof: tmconsensus.CommitProof{
			Round:      domU32(sp[3]),
			PubKeyHash: domStr(sp[4], "PCP.PubKeyHash"),
			Proofs:     domProofs(sp[5], "PCP"),
		},
		ValidatorSet:     domValidatorSet(vsCounts[0][sp[6]], sp[7], sp[8], 0, "VS", sp[9], sp[10]),
		NextValidatorSet: relatedNextSet(sp, domValidatorSet(vsCounts[0][sp[6]], sp[7], sp[8], 0, "VS", sp[9], sp[10])),
		DataID:           domBytes(sp[16], "DataID"),
		PrevAppStateHash: domBytes(sp[17], "PrevAppStateHash"),
		Annotations: tmconsensus.Annotations{
			User:   domAnn(sp[18], "H.User"),
			Driver: domAnn(sp[19], "H.Driver"),
		},
	}
}

func buildProposed(sp []int) tmconsensus.ProposedHeader {
	var pk gcrypto.PubKey
	switch sp[21] {
	case 0:
		pk = detKey(0)
	case 1:
		pk = nil // replayed proposed header
	case 2:
		pk = detKey(7)
	default:
		pk = patKey(0)
	}
	var sig []byte
	if sp[22] == 0 {
		sig = typ("PH.Signature", 64)
	} else {
		sig = domBytes(sp[22], "PH.Signature")
	}
	return tmconsensus.ProposedHeader{
		Header:         buildHeader(sp[:nHeaderFields]),
		Round:          domU32(sp[20]),
		ProposerPubKey: pk,
		Signature:      sig,
		Annotations: tmconsensus.Annotations{
			User:   domAnn(sp[23], "PH.User"),
			Driver: domAnn(sp[24], "PH.Driver"),
		},
	}
}

func buildCommitted(sp []int) tmconsensus.CommittedHeader {
	return tmconsensus.CommittedHeader{
		Header: buildHeader(sp[:nHeaderFields]),
		Proof: tmconsensus.CommitProof{
			Round:      domU32(sp[20]),
			PubKeyHash: domStr(sp[21], "Proof.PubKeyHash"),
			Proofs:     domProofs(sp[22], "Proof"),
		},
	}
}

func buildPrevote(sp []int) tmconsensus.PrevoteSparseProof {
	return tmconsensus.PrevoteSparseProof{
		Height:     domU64(sp[0]),
		Round:      domU32(sp[1]),
		PubKeyHash: domStr(sp[2], "PV.PubKeyHash"),
		Proofs:     domProofs(sp[3], "PV"),
	}
}

func buildPrecommit(sp []int) tmconsensus.PrecommitSparseProof {
	return tmconsensus.PrecommitSparseProof{
		Height:     domU64(sp[0]),
		Round:      domU32(sp[1]),
		PubKeyHash: domStr(sp[2], "PC.PubKeyHash"),
		Proofs:     domProofs(sp[3], "PC"),
	}
}

// ---------------------------------------------------------------------------
// Enumeration of spec vectors: every vector with at most `order` non-base fields
// (the full product when the kind has at most 4 fields).
// ---------------------------------------------------------------------------

func enumSpecs(fields []fieldDesc, order int, visit func(sp []int)) {
	sp := make([]int, len(fields))
	if len(fields) <= 4 {
		var rec func(i int)
		rec = func(i int) {
			if i == len(fields) {
				visit(sp)
				return
			}
			for c := 0; c < fields[i].n; c++ {
				sp[i] = c
				rec(i + 1)
			}
			sp[i] = 0
		}
		rec(0)
		return
	}
	var rec func(from, left int)
	rec = func(from, left int) {
		visit(sp)
		if left == 0 {
			return
		}
		for i := from; i < len(fields); i++ {
			for c := 1; c < fields[i].n; c++ {
				sp[i] = c
				rec(i+1, left-1)
			}
			sp[i] = 0
		}
	}
	rec(0, order)
}

func specString(sp []int) string {
	var sb strings.Builder
	for i, c := range sp {
		if i > 0 {
			sb.WriteByte(',')
		}
		fmt.Fprintf(&sb, "%d", c)
	}
	return sb.String()
}

func parseSpec(s string) []int {
	var out []int
	for _, p := range strings.Split(s, ",") {
		var c int
		fmt.Sscanf(p, "%d", &c)
		out = append(out, c)
	}
	return out
}

func describeSpec(fields []fieldDesc, sp []int) string {
	var parts []string
	for i, c := range sp {
		if c != 0 && i < len(fields) {
			parts = append(parts, fmt.Sprintf("%s=#%d", fields[i].name, c))
		}
	}
	if len(parts) == 0 {
		return "base"
	}
	return strings.Join(parts, " ")
}

// ---------------------------------------------------------------------------
// Field-by-field comparison (the round-trip oracle). Independent of reflect.DeepEqual
// and of the Equal methods of the code under test.
//
// nil and empty are treated as equal for byte-slice fields that the shipped schemes
// (tmconsensustest.SimpleHashScheme / SimpleSignatureScheme) print with %x, for signature
// bytes and key ids, for signature slices and for proof maps. They are NOT treated as
// equal for annotations, where both shipped schemes distinguish nil from empty.
// Signatures within one proof entry are compared as a multiset (the shipped hash scheme
// sorts them; the weaker reading).
// ---------------------------------------------------------------------------

type differ struct {
	diffs []string
}

func (d *differ) add(path, format string, args ...any) {
	d.diffs = append(d.diffs, path+": "+fmt.Sprintf(format, args...))
}

func (d *differ) loose(path string, a, b []byte) {
	if !bytes.Equal(a, b) {
		d.add(path, "%x != %x", a, b)
	}
}

func (d *differ) strict(path string, a, b []byte) {
	if !bytes.Equal(a, b) || (a == nil) != (b == nil) {
		d.add(path, "%s != %s", showBytes(a), showBytes(b))
	}
}

func showBytes(b []byte) string {
	if b == nil {
		return "nil"
	}
	return fmt.Sprintf("[%x]", b)
}

func (d *differ) pubKey(path string, a, b gcrypto.PubKey) {
	if a == nil || b == nil {
		if (a == nil) != (b == nil) {
			d.add(path, "nil-ness differs (%v != %v)", a, b)
		}
		return
	}
	if a.TypeName() != b.TypeName() {
		d.add(path, "type %q != %q", a.TypeName(), b.TypeName())
	}
	if !bytes.Equal(a.PubKeyBytes(), b.PubKeyBytes()) {
		d.add(path, "key bytes %x != %x", a.PubKeyBytes(), b.PubKeyBytes())
	}
}

func (d *differ) proofs(path string, a, b map[string][]gcrypto.SparseSignature) {
	for k := range a {
		if _, ok := b[k]; !ok {
			d.add(path, "entry %q lost", k)
		}
	}
	for k := range b {
		if _, ok := a[k]; !ok {
			d.add(path, "entry %q appeared", k)
		}
	}
	for k, sa := range a {
		sb, ok := b[k]
		if !ok {
			continue
		}
		if len(sa) != len(sb) {
			d.add(path, "entry %q: %d signatures != %d", k, len(sa), len(sb))
			continue
		}
		ca, cb := canonSigs(sa), canonSigs(sb)
		for i := range ca {
			if ca[i] != cb[i] {
				d.add(path, "entry %q: signature %s != %s", k, ca[i], cb[i])
				break
			}
		}
	}
}

func canonSigs(s []gcrypto.SparseSignature) []string {
	out := make([]string, len(s))
	for i, x := range s {
		out[i] = fmt.Sprintf("%x:%x", x.KeyID, x.Sig)
	}
	sort.Strings(out)
	return out
}

func (d *differ) commitProof(path string, a, b tmconsensus.CommitProof) {
	if a.Round != b.Round {
		d.add(path+".Round", "%d != %d", a.Round, b.Round)
	}
	if a.PubKeyHash != b.PubKeyHash {
		d.add(path+".PubKeyHash", "%x != %x", a.PubKeyHash, b.PubKeyHash)
	}
	d.proofs(path+".Proofs", a.Proofs, b.Proofs)
}

func (d *differ) validatorSet(path string, a, b tmconsensus.ValidatorSet) {
	if len(a.Validators) != len(b.Validators) {
		d.add(path+".Validators", "%d validators != %d", len(a.Validators), len(b.Validators))
	} else {
		for i := range a.Validators {
			d.pubKey(fmt.Sprintf("%s.Validators[%d].PubKey", path, i), a.Validators[i].PubKey, b.Validators[i].PubKey)
			if a.Validators[i].Power != b.Validators[i].Power {
				d.add(fmt.Sprintf("%s.Validators[%d].Power", path, i), "%d != %d", a.Validators[i].Power, b.Validators[i].Power)
			}
		}
	}
	if len(a.PubKeys) != len(b.PubKeys) {
		d.add(path+".PubKeys", "%d keys != %d", len(a.PubKeys), len(b.PubKeys))
	} else {
		for i := range a.PubKeys {
			d.pubKey(fmt.Sprintf("%s.PubKeys[%d]", path, i), a.PubKeys[i], b.PubKeys[i])
		}
	}
	d.loose(path+".PubKeyHash", a.PubKeyHash, b.PubKeyHash)
	d.loose(path+".VotePowerHash", a.VotePowerHash, b.VotePowerHash)
}

func (d *differ) header(path string, a, b tmconsensus.Header) {
	d.loose(path+"Hash", a.Hash, b.Hash)
	d.loose(path+"PrevBlockHash", a.PrevBlockHash, b.PrevBlockHash)
	if a.Height != b.Height {
		d.add(path+"Height", "%d != %d", a.Height, b.Height)
	}
	d.commitProof(path+"PrevCommitProof", a.PrevCommitProof, b.PrevCommitProof)
	d.validatorSet(path+"ValidatorSet", a.ValidatorSet, b.ValidatorSet)
	d.validatorSet(path+"NextValidatorSet", a.NextValidatorSet, b.NextValidatorSet)
	d.loose(path+"DataID", a.DataID, b.DataID)
	d.loose(path+"PrevAppStateHash", a.PrevAppStateHash, b.PrevAppStateHash)
	d.strict(path+"Annotations.User", a.Annotations.User, b.Annotations.User)
	d.strict(path+"Annotations.Driver", a.Annotations.Driver, b.Annotations.Driver)
}

func (d *differ) proposed(a, b tmconsensus.ProposedHeader) {
	d.header("Header.", a.Header, b.Header)
	if a.Round != b.Round {
		d.add("Round", "%d != %d", a.Round, b.Round)
	}
	d.pubKey("ProposerPubKey", a.ProposerPubKey, b.ProposerPubKey)
	d.loose("Signature", a.Signature, b.Signature)
	d.strict("Annotations.User", a.Annotations.User, b.Annotations.User)
	d.strict("Annotations.Driver", a.Annotations.Driver, b.Annotations.Driver)
}

func (d *differ) committed(a, b tmconsensus.CommittedHeader) {
	d.header("Header.", a.Header, b.Header)
	d.commitProof("Proof", a.Proof, b.Proof)
}

func (d *differ) sparse(ah uint64, ar uint32, apk string, ap map[string][]gcrypto.SparseSignature,
	bh uint64, br uint32, bpk string, bp map[string][]gcrypto.SparseSignature) {
	if ah != bh {
		d.add("Height", "%d != %d", ah, bh)
	}
	if ar != br {
		d.add("Round", "%d != %d", ar, br)
	}
	if apk != bpk {
		d.add("PubKeyHash", "%x != %x", apk, bpk)
	}
	d.proofs("Proofs", ap, bp)
}
