//go:build verif

package c14

import (
	"crypto/sha256"
	"encoding/base64"
	"encoding/json"
	"errors"
	"fmt"
	"hash/crc32"
	"strconv"
	"strings"
	"testing"
	"time"

	"github.com/gordian-engine/gordian/internal/zzverif/vx"
	"github.com/gordian-engine/gordian/tm/tmcodec"
	"github.com/gordian-engine/gordian/tm/tmconsensus"
)

// The six Unmarshal methods of tmcodec.Unmarshaler.
var methods = []string{"ConsensusMessage", "Header", "ProposedHeader", "CommittedHeader", "PrevoteProof", "PrecommitProof"}

// callUnmarshal offers in to one Unmarshal method (fresh destination) and classifies what happened.
func callUnmarshal(codec tmcodec.MarshalCodec, method string, in []byte) (class string, err error, pi *panicInfo) {
	defer func() {
		if r := recover(); r != nil {
			pi = capturePanic(r)
			class = "panic"
		}
	}()
	switch method {
	case "ConsensusMessage":
		var v tmcodec.ConsensusMessage
		err = codec.UnmarshalConsensusMessage(in, &v)
	case "Header":
		var v tmconsensus.Header
		err = codec.UnmarshalHeader(in, &v)
	case "ProposedHeader":
		var v tmconsensus.ProposedHeader
		err = codec.UnmarshalProposedHeader(in, &v)
	case "CommittedHeader":
		var v tmconsensus.CommittedHeader
		err = codec.UnmarshalCommittedHeader(in, &v)
	case "PrevoteProof":
		var v tmconsensus.PrevoteSparseProof
		err = codec.UnmarshalPrevoteProof(in, &v)
	case "PrecommitProof":
		var v tmconsensus.PrecommitSparseProof
		err = codec.UnmarshalPrecommitProof(in, &v)
	default:
		return "harness", fmt.Errorf("unknown method %s", method), nil
	}
	if err == nil {
		return "value", nil, nil
	}
	var se *json.SyntaxError
	var te *json.UnmarshalTypeError
	switch {
	case errors.As(err, &se):
		return "err-json-syntax", err, nil
	case errors.As(err, &te):
		return "err-json-type", err, nil
	case strings.Contains(err.Error(), "base64"):
		return "err-json-base64", err, nil
	case strings.Contains(err.Error(), "no registered public key type"):
		return "err-unknown-key-type", err, nil
	}
	return "err-other", err, nil
}

// totBase is one valid encoding that hostile inputs are derived from.
type totBase struct {
	Kind  string
	Spec  []int
	Enc   string
	Large bool // one of the larger bases added by the thorough tier
}

func specWith(kind string, set map[string]int) []int {
	fields := fieldsOf(kind)
	sp := make([]int, len(fields))
	for i, f := range fields {
		if c, ok := set[f.name]; ok {
			sp[i] = c
		}
	}
	return sp
}

func encodeBase(codec tmcodec.MarshalCodec, kind string, sp []int) string {
	// A base that does not round-trip is reported by the round-trip part; it is still a usable valid encoding.
	enc, _ := rtCase(codec, kind, sp)
	if len(enc) == 0 {
		return ""
	}
	c, err := canonicalCommits(string(enc))
	if err != nil {
		return ""
	}
	return c
}

// totBases lists the valid encodings used for prefixes and mutations.
// level 0 (quick): the smallest shape of every kind (1 validator per set, 1 proof entry with 1 signature),
// and for prevote, precommit and the prevote consensus message also the 3-entry shape.
// level 1 (thorough): additionally the round-trip base value of every kind (2+3 validators, 2 signatures),
// the 3-entry commit proofs, and a replayed proposed header (no proposer key, no signature).
func totBases(codec tmcodec.MarshalCodec, level int) []totBase {
	var out []totBase
	var add func(kind string, set map[string]int)
	large := false
	add = func(kind string, set map[string]int) {
		sp := specWith(kind, set)
		out = append(out, totBase{Kind: kind, Spec: sp, Enc: encodeBase(codec, kind, sp), Large: large})
	}
	small := map[string]int{
		"PrevCommitProof.Proofs": proofsTiny, "ValidatorSet.count": 1, "NextValidatorSet.count": 1,
		"Proof.Proofs": proofsTiny, "Proofs": proofsTiny,
	}
	for _, k := range kinds {
		add(k, small)
	}
	for _, k := range []string{"prevote", "precommit", "cm-prevote"} {
		add(k, map[string]int{"Proofs": 4})
	}
	if level >= 1 {
		large = true
		for _, k := range kinds {
			add(k, nil)
		}
		three := map[string]int{
			"PrevCommitProof.Proofs": 4, "ValidatorSet.count": 1, "NextValidatorSet.count": 1, "Proof.Proofs": 4, "Proofs": 4,
			"Annotations.User": 2, "Annotations.Driver": 1, "PH.Annotations.User": 1, "PH.Annotations.Driver": 2,
		}
		for _, k := range []string{"header", "committed", "cm-proposed", "cm-precommit"} {
			add(k, three)
		}
		add("cm-proposed", map[string]int{"ProposerPubKey": 1, "Signature": 1, "PrevCommitProof.Proofs": 2, "PrevCommitProof.PubKeyHash": 1,
			"ValidatorSet.count": 1, "NextValidatorSet.count": 1})
	}
	return out
}

// Replacement values tried at every JSON position ("null", wrong type, huge numbers, short base64).
// "ZWQyNTUxOQA=" is exactly the 8-byte type prefix "ed25519\0" with no key bytes;
// "AAAAAAAAAAA=" is eight zero bytes (an empty type name).
var genericRepl = [][]string{
	{ // quick
		`null`, `0`, `-1`, `1000000000`, `1e9`, `18446744073709551616`, `4294967296`, `1.5`, `true`,
		`""`, `"QQ=="`, `"!"`, `"ZWQyNTUxOQA="`, `"AAAAAAAAAAA="`,
		`[]`, `{}`, `[null]`, `[{}]`,
	},
	{ // thorough adds
		`-0`, `false`, `[[]]`, `[0]`, `[""]`, `{"PubKey":null}`, `{"PubKey":"QQ=="}`, `"ZWQyNTUxOQ=="`, `"QUJDREVGRw=="`, `[{"Signatures":[null]}]`,
		`{"BlockHash":null,"Signatures":null}`,
	},
}

// heavyRepl: replacement values that add little in combination with a second mutation (further
// wrong-type / out-of-range numbers and malformed base64, all of which encoding/json rejects by itself).
var heavyRepl = map[string]bool{
	`-1`: true, `1e9`: true, `18446744073709551616`: true, `4294967296`: true, `1.5`: true, `true`: true, `"!"`: true, `"AAAAAAAAAAA="`: true,
}

// mutationsOf lists all single mutations of a tree.
func mutationsOf(t *jtree, level int) []mut {
	var out []mut
	var repl []string
	for l := 0; l <= level && l < len(genericRepl); l++ {
		repl = append(repl, genericRepl[l]...)
	}
	for _, n := range t.nodes {
		for _, r := range repl {
			if r != n.raw {
				out = append(out, mut{node: n.id, op: 'R', text: r, heavy: heavyRepl[r]})
			}
		}
		if n.parent != nil {
			out = append(out, mut{node: n.id, op: 'D'})
		}
		switch n.kind {
		case 's':
			var s string
			if json.Unmarshal([]byte(n.raw), &s) != nil {
				break
			}
			d, err := base64.StdEncoding.DecodeString(s)
			if err != nil {
				break
			}
			// truncated to every length 0..12 (for public keys: below, at and above the 8-byte type prefix)
			for k := 0; k <= 12 && k < len(d); k++ {
				r := `"` + base64.StdEncoding.EncodeToString(d[:k]) + `"`
				if !containsRepl(repl, r) {
					out = append(out, mut{node: n.id, op: 'R', text: r})
				}
			}
			if len(d) >= 8 {
				// unknown key type, and a type name that fills the prefix without NUL padding
				for _, p := range []string{"unknown\x00", "ed25519x"} {
					out = append(out, mut{node: n.id, op: 'R', text: `"` + base64.StdEncoding.EncodeToString(append([]byte(p), d[8:]...)) + `"`})
				}
			}
			if len(n.raw) > 4 {
				out = append(out, mut{node: n.id, op: 'R', text: n.raw[:len(n.raw)-2] + `"`, heavy: true}) // bad base64 padding
			}
		case 'a':
			if len(n.kids) > 0 {
				out = append(out, mut{node: n.id, op: 'A', text: n.kids[0].raw}) // duplicate the first element (same block hash / same validator twice)
			}
			out = append(out, mut{node: n.id, op: 'A', text: `null`})
		case 'o':
			out = append(out, mut{node: n.id, op: 'A', text: `"zz":0`, heavy: true}) // unknown field
			if len(n.kids) > 0 {
				// encoding/json matches keys case-insensitively; the later duplicate wins
				out = append(out, mut{node: n.id, op: 'A', text: strings.ToLower(n.kids[0].key) + `:null`, heavy: true})
			}
		}
	}
	return out
}

func containsRepl(list []string, r string) bool {
	for _, x := range list {
		if x == r {
			return true
		}
	}
	return false
}

var alphabet = []byte(`{}[]":,0-na `)

type totEnum struct {
	codec  tmcodec.MarshalCodec
	bases  []totBase
	level  int
	maxLen int
	// pairsAll (thorough): for the small bases combine all pairs of mutations and offer them to all six
	// methods. Otherwise (quick, and the large bases of the thorough tier) leave the "heavy" replacement
	// values out of the pairs and offer the pairs only to the method that decodes the kind of the base.
	pairsAll bool
	// stop is polled between inputs; when it returns true the enumeration ends early (internal deadline).
	stop func() bool
}

const len6 = 6

const allMethods = uint8(1<<len6 - 1)

// ownMethod is the bit of the Unmarshal method that decodes encodings of the kind.
func ownMethod(kind string) uint8 {
	switch kind {
	case "header":
		return 1 << 1
	case "proposed":
		return 1 << 2
	case "committed":
		return 1 << 3
	case "prevote":
		return 1 << 4
	case "precommit":
		return 1 << 5
	default: // cm-*
		return 1 << 0
	}
}

// inputDesc describes lazily where an input came from (no allocation unless printed).
type inputDesc struct {
	kind   byte // 's' short, 'p' byte prefix, 't' tree prefix, 'o' path-only, '1' one mutation, '2' two mutations
	base   *totBase
	tree   *jtree
	n      int
	m1, m2 *mut
}

func (d inputDesc) String() string {
	if d.kind == 's' {
		return "short string"
	}
	name := fmt.Sprintf("%s[%s]", d.base.Kind, describeSpec(fieldsOf(d.base.Kind), d.base.Spec))
	switch d.kind {
	case 'p':
		return fmt.Sprintf("first %d of %d bytes of the encoding of %s", d.n, len(d.base.Enc), name)
	case 't':
		return fmt.Sprintf("first %d of %d JSON positions of the encoding of %s", d.n, len(d.tree.nodes), name)
	case 'o':
		return fmt.Sprintf("path-only skeleton of the encoding of %s with %s", name, describeMut(d.tree, *d.m1))
	case '1':
		return fmt.Sprintf("encoding of %s with %s", name, describeMut(d.tree, *d.m1))
	default:
		return fmt.Sprintf("encoding of %s with %s and %s", name, describeMut(d.tree, *d.m1), describeMut(d.tree, *d.m2))
	}
}

// enumerate calls offer for every input of the totality part: family name, the methods to try it on,
// a lazy description, the bytes. The bytes are only valid during the call.
func (e *totEnum) enumerate(offer func(family string, mask uint8, desc inputDesc, in []byte)) {
	// (i) all strings of length <= maxLen over the 12-symbol alphabet
	buf := make([]byte, 0, 16)
	var rec func(depth int)
	rec = func(depth int) {
		offer("short", allMethods, inputDesc{kind: 's'}, buf)
		if depth == e.maxLen {
			return
		}
		for _, c := range alphabet {
			buf = append(buf, c)
			rec(depth + 1)
			buf = buf[:len(buf)-1]
		}
	}
	rec(0)

	out := make([]byte, 0, 1<<14)
	trees := make([]*jtree, len(e.bases))
	muts := make([][]mut, len(e.bases))
	// First pass over all bases: prefixes and single mutations. Second pass: pairs (the bulk of the work,
	// and the only part an internal deadline can cut short).
	for bi := range e.bases {
		b := &e.bases[bi]
		// (ii) every byte prefix of the valid encoding (the full encoding included)
		enc := []byte(b.Enc)
		for i := 0; i <= len(enc); i++ {
			offer("prefix", allMethods, inputDesc{kind: 'p', base: b, n: i}, enc[:i])
		}
		t, err := parseTree(b.Enc)
		if err != nil {
			panic("c14 harness: cannot parse encoder output: " + err.Error())
		}
		trees[bi] = t
		// (ii') every tree prefix: the first k JSON positions in document order, brackets closed
		for k := 1; k <= len(t.nodes); k++ {
			out = t.render(out[:0], nil, k)
			offer("treeprefix", allMethods, inputDesc{kind: 't', base: b, tree: t, n: k}, out)
		}
		// (iii) one JSON position mutated
		ms := mutationsOf(t, e.level)
		muts[bi] = ms
		// (iii') the same single mutations on the "path-only" document: nothing but the chain of
		// ancestors of the mutated position, every other field absent (gives the smallest witnesses)
		for i := range ms {
			out = t.renderPathOnly(out[:0], ms[i])
			offer("pathonly", allMethods, inputDesc{kind: 'o', base: b, tree: t, m1: &ms[i]}, out)
		}
		for i := range ms {
			out = t.render(out[:0], ms[i:i+1], len(t.nodes)+1)
			offer("mut1", allMethods, inputDesc{kind: '1', base: b, tree: t, m1: &ms[i]}, out)
		}
	}
	// (iii) two JSON positions mutated
	pair := make([]mut, 2)
	for bi := range e.bases {
		b, t, ms := &e.bases[bi], trees[bi], muts[bi]
		pairMask := allMethods
		fullPairs := e.pairsAll && !b.Large
		if !fullPairs {
			pairMask = ownMethod(b.Kind)
		}
		for i := range ms {
			if e.stop != nil && e.stop() {
				return
			}
			for j := i + 1; j < len(ms); j++ {
				if !t.compatible(ms[i], ms[j]) || (!fullPairs && (ms[i].heavy || ms[j].heavy)) {
					continue
				}
				pair[0], pair[1] = ms[i], ms[j]
				out = t.render(out[:0], pair, len(t.nodes)+1)
				offer("mut2", pairMask, inputDesc{kind: '2', base: b, tree: t, m1: &ms[i], m2: &ms[j]}, out)
			}
		}
	}
}

func describeMut(t *jtree, m mut) string {
	p := t.path(m.node)
	switch m.op {
	case 'R':
		return fmt.Sprintf("%s replaced by %s", p, m.text)
	case 'D':
		return fmt.Sprintf("%s removed", p)
	default:
		return fmt.Sprintf("%s extended with %s", p, m.text)
	}
}

var castagnoli = crc32.MakeTable(crc32.Castagnoli)

// execTot: every worker enumerates the whole input space (cheap) and decodes the inputs whose
// CRC-32C is ≡ part (mod parts). Equal byte strings always land in the same partition, so the
// per-partition set of 128-bit hashes makes the distinct-input count exact across all partitions.
func execTot(t *testing.T, job vx.Job) (res vx.Result) {
	part, _ := strconv.Atoi(job.Args["part"])
	parts, _ := strconv.Atoi(job.Args["parts"])
	level, _ := strconv.Atoi(job.Args["level"])
	maxLen, _ := strconv.Atoi(job.Args["maxlen"])
	if parts <= 0 {
		parts = 1
	}
	codec := newCodec()
	e := &totEnum{codec: codec, bases: totBases(codec, level), level: level, maxLen: maxLen, pairsAll: job.Args["pairs"] == "all"}
	deadline, _ := strconv.ParseInt(job.Args["deadline_unix"], 10, 64)
	capped := false
	e.stop = func() bool {
		if deadline > 0 && time.Now().Unix() >= deadline {
			capped = true
		}
		return capped
	}
	for _, b := range e.bases {
		if b.Enc == "" {
			res.HarnessErr = "cannot encode base " + b.Kind
			return res
		}
	}
	seen := map[[16]byte]uint8{} // input hash -> methods already tried on it
	wits := witSet{}
	var samples []any
	cnt := map[string]int64{}
	famCnt := map[string]*[2]int64{} // family -> {distinct inputs, of which valid JSON}
	classCnt := map[string]*[len6]int64{}
	var generated, dups, decodes, panics int64
	outcomes := make([]string, 0, 6)
	e.enumerate(func(family string, mask uint8, desc inputDesc, in []byte) {
		generated++
		if int(crc32.Checksum(in, castagnoli)%uint32(parts)) != part {
			return
		}
		h := sha256.Sum256(in)
		var k [16]byte
		copy(k[:], h[:16])
		done, known := seen[k]
		todo := mask &^ done
		if todo == 0 {
			dups++
			return
		}
		seen[k] = done | mask
		valid := false
		if !known {
			valid = json.Valid(in)
			fc := famCnt[family]
			if fc == nil {
				fc = new([2]int64)
				famCnt[family] = fc
			}
			fc[0]++
			if valid {
				fc[1]++
			}
		}
		outcomes = outcomes[:0]
		for mi, m := range methods {
			if todo&(1<<mi) == 0 {
				continue
			}
			class, err, pi := callUnmarshal(codec, m, in)
			decodes++
			cc := classCnt[class]
			if cc == nil {
				cc = new([len6]int64)
				classCnt[class] = cc
			}
			cc[mi]++
			if class == "harness" {
				res.HarnessErr = err.Error()
				return
			}
			if pi != nil {
				panics++
				wits.add(witness{
					Sig: pi.sig(),
					Msg: fmt.Sprintf("Unmarshal%s panicked instead of returning an error: %s\n  at %s\n  input (%s; %d bytes): %s",
						m, pi.Msg, pi.Frame, desc.String(), len(in), clip(string(in), 1500)),
					Exec: "c14one", Args: map[string]string{"method": m, "input_b64": base64.StdEncoding.EncodeToString(in)},
					Size: len(in),
				})
			}
			if len(samples) < 2 {
				outcomes = append(outcomes, m+"="+class)
			}
		}
		if valid && len(samples) < 2 && (family == "mut2" || family == "mut1") && part == 0 && famCnt[family][0]%97 == 5 {
			samples = append(samples, map[string]any{
				"part": "totality", "family": family, "input_is": desc.String(), "input": clip(string(in), 300), "outcomes": strings.Join(outcomes, " "),
			})
		}
	})
	if capped {
		cnt["capped_jobs"] = 1
	}
	cnt["tot_generated"] = generated
	cnt["tot_duplicate_offers_skipped"] = dups
	cnt["tot_decodes"] = decodes
	cnt["tot_panics"] = panics
	classes := map[string]struct{}{}
	for fam, fc := range famCnt {
		cnt["tot_inputs"] += fc[0]
		cnt["tot_inputs:"+fam] = fc[0]
		cnt["tot_inputs_valid_json"] += fc[1]
		cnt["tot_inputs_valid_json:"+fam] = fc[1]
	}
	for class, cc := range classCnt {
		for mi, n := range cc {
			if n > 0 {
				cnt["tot:"+methods[mi]+":"+class] = n
				classes[methods[mi]+":"+class] = struct{}{}
			}
		}
	}
	for k, v := range cnt {
		res.Count(k, v)
	}
	for _, w := range wits.list() {
		res.Violate("C14", w.Sig, w.Msg, 0)
	}
	obs := workerObs{Wit: wits.list(), Samples: samples, Classes: vx.SortedKeys(classes)}
	res.Obs, _ = json.Marshal(obs)
	res.NonTrivial = cnt["tot_inputs_valid_json"] > 0
	res.Key = fmt.Sprintf("tot/%d/%d/%d/%d/%s", part, parts, level, maxLen, job.Args["pairs"])
	if len(wits) > 0 {
		res.Outcome = "tot:panic"
	} else {
		res.Outcome = "tot:total"
	}
	return res
}

// execOne replays one input on one Unmarshal method (not recovered differently from the explorer:
// the panic is caught and reported with the same signature).
func execOne(t *testing.T, job vx.Job) (res vx.Result) {
	in, err := base64.StdEncoding.DecodeString(job.Args["input_b64"])
	if err != nil {
		res.HarnessErr = "bad input_b64"
		return res
	}
	m := job.Args["method"]
	class, derr, pi := callUnmarshal(newCodec(), m, in)
	res.Count("tot_decodes", 1)
	res.Outcome = "tot:" + class
	res.NonTrivial = json.Valid(in)
	if pi != nil {
		res.Violate("C14", pi.sig(), fmt.Sprintf("Unmarshal%s panicked: %s at %s\n  input: %s", m, pi.Msg, pi.Frame, clip(string(in), 1500)), 0)
	}
	o := map[string]any{"method": m, "input": string(in), "class": class}
	if derr != nil {
		o["error"] = derr.Error()
	}
	res.Obs, _ = json.Marshal(o)
	return res
}
