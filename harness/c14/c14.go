//go:build verif

// Package c14 decides property C14 — "wire codec round-trips every message and never panics on bytes" —
// on the real tmjson.MarshalCodec with a gcrypto.Registry that has ed25519 registered (E-SEQ, bounded exhaustive).
//
// Part 1, round trip: for each of header, proposed header, committed header, prevote/precommit sparse proof and the
// three consensus-message variants, every value that differs from a base value in at most 2 (thorough: 3) fields,
// each field ranging over a small domain (values.go); the 4-field sparse proofs are enumerated as a full product.
// Oracle (values.go, roundtrip.go): own field-by-field comparison, SimpleHashScheme.Block and proposal sign bytes
// equal, decoded consensus message has exactly the encoded variant.
//
// Part 2, totality: every Unmarshal* method on (i) all strings of length <= 5 (thorough 6) over the 12 symbols
// `{}[]":,0-na` and space, (ii) all byte prefixes and all "tree prefixes" of valid encodings, (iii) valid encodings
// with one or two JSON positions mutated (totality.go). Oracle: the call returns; a panic is a violation.
//
// Deviations from DESIGN.md, on purpose:
//   - "10^9 as a count": the JSON format has no count fields (arrays are literal), so 10^9 (and 2^32, 2^64, 1e9, 1.5, -1)
//     is tried as the value of every position instead; an array with 10^9 elements is out of reach of any enumeration.
//   - every mutated input is offered to all six methods, not only to the method of its kind.
package c14

import (
	"encoding/base64"
	"encoding/json"
	"fmt"
	"strconv"
	"time"

	"github.com/gordian-engine/gordian/internal/zzverif/vx"
)

func init() {
	registry.Execs["c14rt"] = execRT
	registry.Execs["c14rt1"] = execRT1
	registry.Execs["c14tot"] = execTot
	registry.Execs["c14one"] = execOne
	registry.Checks["C14"] = checkC14
}

func checkC14(c *vx.Ctx) {
	c.Level = "exploration"
	order, level, maxLen, totParts, rtParts, pairs := 2, 0, 5, 16, 4, "own"
	if !c.Quick() {
		order, level, maxLen, totParts, rtParts, pairs = 3, 1, 6, 32, 16, "all"
	}
	// Internal deadline (wall clock is used for the budget only, never by an oracle): jobs stop
	// enumerating at the deadline and report themselves as capped => exhaustive:false, exit 0.
	limit := 48 * time.Second
	if !c.Quick() {
		limit = 11 * time.Minute
	}
	if limit > c.Budget {
		limit = c.Budget
	}
	deadline := strconv.FormatInt(c.Start.Add(limit).Unix(), 10)
	c.Pool.JobWall = limit + 2*time.Minute
	pairNote, offerNote := "", ""
	if pairs == "all" {
		pairNote = " (thorough tier: all pairs for the 11 small bases; for the 13 larger bases the pairs exclude the 'heavy' replacement values and insertions listed in totality.go)"
		offerNote = ", except two-position mutations of the larger bases, which are offered only to the method that decodes the kind of their base encoding"
	} else {
		pairNote = " (quick tier: pairs exclude the 8 'heavy' replacement values -1, 1e9, 2^64, 2^32, 1.5, true, malformed base64, 8 zero bytes, and the unknown-field / duplicate-key insertions)"
		offerNote = ", except two-position mutations, which the quick tier offers only to the method that decodes the kind of their base encoding"
	}
	c.Rule = fmt.Sprintf("exhaustive enumeration on the real tmjson.MarshalCodec (ed25519 registry). "+
		"Round trip: per kind (header, proposed, committed, prevote, precommit, 3 consensus-message variants) every spec vector with at most %d non-base fields "+
		"over the per-field domains of values.go (full product for the 4-field sparse proofs); a case is non-trivial when the encoder's output decoded without error, "+
		"and distinct cases are counted by the SHA-256 of kind + the %%#v rendering of the value (set union in the orchestrator). "+
		"Totality: the union of (i) all strings of length <= %d over the 12 symbols {}[]\":,0-na and space, (ii) all byte prefixes and tree prefixes of the base encodings, "+
		"(iii) the base encodings (and their path-only skeletons) with every single JSON-position mutation of the catalogue in totality.go, and with every compatible pair of mutations%s; "+
		"each distinct byte string is offered to all 6 Unmarshal methods%s; "+
		"an input is non-trivial when it is syntactically valid JSON (so the struct mapping and the conversion code are reached); inputs are partitioned by CRC-32C and "+
		"deduplicated by a 128-bit hash inside the partition, so the distinct count is exact across workers. "+
		"distinct_nontrivial = distinct decoded round-trip values + distinct valid-JSON totality inputs.", order, maxLen, pairNote, offerNote)

	var jobs []vx.Job
	// Round-trip jobs first: they are short, and an internal deadline must not starve them.
	for _, k := range kinds {
		parts := rtParts
		if len(fieldsOf(k)) <= 4 {
			parts = 1
		}
		for p := 0; p < parts; p++ {
			jobs = append(jobs, vx.Job{Exec: "c14rt", Args: map[string]string{
				"kind": k, "part": strconv.Itoa(p), "parts": strconv.Itoa(parts), "order": strconv.Itoa(order), "deadline_unix": deadline}})
		}
	}

	for p := 0; p < totParts; p++ {
		jobs = append(jobs, vx.Job{Exec: "c14tot", Args: map[string]string{
			"part": strconv.Itoa(p), "parts": strconv.Itoa(totParts), "level": strconv.Itoa(level), "maxlen": strconv.Itoa(maxLen), "pairs": pairs, "deadline_unix": deadline}})
	}
	rs := c.Pool.Map(jobs)

	wits := witSet{}
	rtDistinct := map[[8]byte]struct{}{}
	classes := map[string]struct{}{}
	var rtSamples, totSamples []any
	for i := range rs {
		r := rs[i]
		var obs workerObs
		if len(r.Obs) > 0 {
			if err := json.Unmarshal(r.Obs, &obs); err != nil {
				c.HarnessError("bad worker observation: " + err.Error())
			}
		}
		// Violations are re-filed below with a single-case replay job and the globally smallest witness.
		r.Viol = nil
		c.Absorb(jobs[i], r)
		for _, w := range obs.Wit {
			wits.add(w)
		}
		if hb, err := base64.StdEncoding.DecodeString(obs.Hashes); err == nil {
			for o := 0; o+8 <= len(hb); o += 8 {
				var k [8]byte
				copy(k[:], hb[o:o+8])
				rtDistinct[k] = struct{}{}
			}
		}
		for _, cl := range obs.Classes {
			classes[cl] = struct{}{}
		}
		if jobs[i].Exec == "c14rt" {
			rtSamples = append(rtSamples, obs.Samples...)
		} else {
			totSamples = append(totSamples, obs.Samples...)
		}
	}
	for _, w := range wits.list() {
		c.Violate(vx.Violation{Prop: "C14", Sig: w.Sig, Msg: w.Msg}, vx.Job{Exec: w.Exec, Args: w.Args})
	}
	for _, cl := range vx.SortedKeys(classes) {
		c.Outcome("unmarshal:" + cl)
	}

	// Samples: real explored cases of both parts.
	for i, s := range totSamples {
		if i < 2 {
			c.Sample(s)
		}
	}
	for i, s := range rtSamples {
		if i < 3 {
			c.Sample(s)
		}
	}
	for i, w := range wits.list() {
		if i < 1 {
			c.Sample(map[string]any{"part": "violating case", "sig": w.Sig, "replay_exec": w.Exec, "args": w.Args})
		}
	}

	c.Extra["jobs"] = c.Evaluations
	c.Evaluations = c.Counter("rt_cases") + c.Counter("tot_decodes")
	distinct := int64(len(rtDistinct)) + c.Counter("tot_inputs_valid_json")
	// vx counts distinct_nontrivial per job key; the measured per-case number replaces it.
	c.Extra["distinct_nontrivial"] = distinct
	c.Extra["distinct_nontrivial_roundtrip_encodings"] = len(rtDistinct)
	c.Extra["distinct_nontrivial_totality_inputs"] = c.Counter("tot_inputs_valid_json")
	c.Extra["distinct_totality_inputs"] = c.Counter("tot_inputs")
	c.Extra["bounds"] = map[string]any{
		"roundtrip_max_changed_fields": order, "short_string_max_len": maxLen, "short_string_alphabet": string(alphabet),
		"mutation_level": level, "max_mutated_positions": 2, "pairs": pairs, "unmarshal_methods": methods, "kinds": kinds,
	}
	c.Extra["explanation"] = "exhaustive:true refers to the stated bounds (field domains, change order, alphabet/length, mutation catalogue); the set of all byte strings is infinite"
	c.Assume("encoding/json, crypto/sha256, hash/crc32 and base64 of the Go standard library are correct (used to build inputs and to deduplicate them)")
	c.Assume("well-formed value = structurally well-formed (PubKeys parallel to Validators, no nil validator key); hashes inside the value need not match, the codec does not look at them")
	c.Assume("nil and empty are interchangeable for hashes, signatures, key ids, signature slices and proof maps (the shipped Simple schemes print them identically) but not for annotations")
	c.Assume("UnmarshalConsensusMessage is given a fresh zero destination, as its only caller (tmlibp2p validator) does")
	if n := c.Counter("capped_jobs"); n > 0 {
		c.Cap(fmt.Sprintf("internal deadline %s reached: %d of %d jobs stopped enumerating early", limit, n, len(jobs)))
	}
	c.OverBudget()
}
