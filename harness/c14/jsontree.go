//go:build verif

package c14

import (
	"fmt"
	"sort"
)

// A tiny order-preserving JSON tree, used to enumerate "JSON positions" of a
// valid encoding and to re-render the document with one or two positions
// mutated. It only has to parse the output of encoding/json (compact, valid).

type jnode struct {
	id     int    // preorder index
	last   int    // largest id in the subtree
	kind   byte   // 'o' object, 'a' array, 's' string, 'n' number, 'l' literal (null/true/false)
	raw    string // exact source text of the value
	key    string // raw member key including the quotes, when the parent is an object
	kids   []*jnode
	parent *jnode
}

type jtree struct {
	src   string
	root  *jnode
	nodes []*jnode // by id
}

func parseTree(src string) (*jtree, error) {
	t := &jtree{src: src}
	n, pos, err := t.parseValue(0, nil)
	if err != nil {
		return nil, err
	}
	if pos != len(src) {
		return nil, fmt.Errorf("trailing data at %d", pos)
	}
	t.root = n
	return t, nil
}

func (t *jtree) parseValue(pos int, parent *jnode) (*jnode, int, error) {
	s := t.src
	if pos >= len(s) {
		return nil, pos, fmt.Errorf("unexpected end")
	}
	n := &jnode{id: len(t.nodes), parent: parent}
	t.nodes = append(t.nodes, n)
	start := pos
	switch c := s[pos]; {
	case c == '{':
		n.kind = 'o'
		pos++
		if pos < len(s) && s[pos] == '}' {
			pos++
			break
		}
		for {
			ks := pos
			ke, err := scanString(s, pos)
			if err != nil {
				return nil, pos, err
			}
			pos = ke
			if pos >= len(s) || s[pos] != ':' {
				return nil, pos, fmt.Errorf("expected ':' at %d", pos)
			}
			pos++
			kid, np, err := t.parseValue(pos, n)
			if err != nil {
				return nil, np, err
			}
			kid.key = s[ks:ke]
			n.kids = append(n.kids, kid)
			pos = np
			if pos >= len(s) {
				return nil, pos, fmt.Errorf("unexpected end in object")
			}
			if s[pos] == ',' {
				pos++
				continue
			}
			if s[pos] == '}' {
				pos++
				break
			}
			return nil, pos, fmt.Errorf("expected ',' or '}' at %d", pos)
		}
	case c == '[':
		n.kind = 'a'
		pos++
		if pos < len(s) && s[pos] == ']' {
			pos++
			break
		}
		for {
			kid, np, err := t.parseValue(pos, n)
			if err != nil {
				return nil, np, err
			}
			n.kids = append(n.kids, kid)
			pos = np
			if pos >= len(s) {
				return nil, pos, fmt.Errorf("unexpected end in array")
			}
			if s[pos] == ',' {
				pos++
				continue
			}
			if s[pos] == ']' {
				pos++
				break
			}
			return nil, pos, fmt.Errorf("expected ',' or ']' at %d", pos)
		}
	case c == '"':
		n.kind = 's'
		e, err := scanString(s, pos)
		if err != nil {
			return nil, pos, err
		}
		pos = e
	case c == '-' || (c >= '0' && c <= '9'):
		n.kind = 'n'
		for pos < len(s) && (s[pos] == '-' || s[pos] == '+' || s[pos] == '.' || s[pos] == 'e' || s[pos] == 'E' || (s[pos] >= '0' && s[pos] <= '9')) {
			pos++
		}
	default:
		n.kind = 'l'
		for _, lit := range []string{"null", "true", "false"} {
			if len(s)-pos >= len(lit) && s[pos:pos+len(lit)] == lit {
				pos += len(lit)
				break
			}
		}
		if pos == start {
			return nil, pos, fmt.Errorf("unexpected byte %q at %d", c, pos)
		}
	}
	n.raw = s[start:pos]
	n.last = len(t.nodes) - 1
	return n, pos, nil
}

// scanString returns the index just after the string literal starting at pos.
func scanString(s string, pos int) (int, error) {
	if pos >= len(s) || s[pos] != '"' {
		return pos, fmt.Errorf("expected string at %d", pos)
	}
	for i := pos + 1; i < len(s); i++ {
		switch s[i] {
		case '\\':
			i++
		case '"':
			return i + 1, nil
		}
	}
	return pos, fmt.Errorf("unterminated string at %d", pos)
}

// mut is one mutation of one JSON position.
//
//	'R' replace the value of the node by text
//	'D' delete the node (object member with its key, or array element)
//	'A' keep the container node and append text as one more member/element
type mut struct {
	node int
	op   byte
	text string
	// heavy marks replacement values that are left out of the quick tier's two-position
	// combinations (they are still tried alone, and in all combinations in the thorough tier).
	heavy bool
}

func (m mut) String() string {
	return fmt.Sprintf("%c#%d:%s", m.op, m.node, m.text)
}

// compatible reports whether two mutations (a.node < b.node) can be applied together
// with both still visible in the output.
func (t *jtree) compatible(a, b mut) bool {
	if a.node == b.node {
		return false
	}
	if a.node > b.node {
		a, b = b, a
	}
	if b.node <= t.nodes[a.node].last && a.op != 'A' {
		return false // b lies inside a subtree that a replaces or deletes
	}
	return true
}

// render appends the document with the mutations applied.
// Only nodes with id < limit are kept (limit > number of nodes keeps all): "tree prefix".
func (t *jtree) render(buf []byte, ms []mut, limit int) []byte {
	return t.renderNode(buf, t.root, ms, limit)
}

func (t *jtree) renderNode(buf []byte, n *jnode, ms []mut, limit int) []byte {
	var extra string
	hasExtra := false
	touched := limit <= n.last
	for i := range ms {
		m := &ms[i]
		if m.node == n.id {
			switch m.op {
			case 'R':
				return append(buf, m.text...)
			case 'A':
				extra, hasExtra = m.text, true
				touched = true
			}
		} else if m.node > n.id && m.node <= n.last {
			touched = true
		}
	}
	if !touched || (n.kind != 'o' && n.kind != 'a') {
		return append(buf, n.raw...)
	}
	open, close := byte('{'), byte('}')
	if n.kind == 'a' {
		open, close = '[', ']'
	}
	buf = append(buf, open)
	first := true
kids:
	for _, k := range n.kids {
		if k.id >= limit {
			break
		}
		for i := range ms {
			if ms[i].node == k.id && ms[i].op == 'D' {
				continue kids
			}
		}
		if !first {
			buf = append(buf, ',')
		}
		first = false
		if n.kind == 'o' {
			buf = append(buf, k.key...)
			buf = append(buf, ':')
		}
		buf = t.renderNode(buf, k, ms, limit)
	}
	if hasExtra {
		if !first {
			buf = append(buf, ',')
		}
		buf = append(buf, extra...)
	}
	return append(buf, close)
}

// renderPathOnly appends the document that contains only the chain of ancestors of the mutated
// node and the mutated node itself.
func (t *jtree) renderPathOnly(buf []byte, m mut) []byte {
	n := t.nodes[m.node]
	var chain []*jnode // root ... n
	for x := n; x != nil; x = x.parent {
		chain = append(chain, x)
	}
	closers := make([]byte, 0, len(chain))
	for i := len(chain) - 1; i >= 1; i-- {
		a, kid := chain[i], chain[i-1]
		if a.kind == 'o' {
			buf = append(buf, '{')
			closers = append(closers, '}')
			if i == 1 && m.op == 'D' {
				break
			}
			buf = append(buf, kid.key...)
			buf = append(buf, ':')
		} else {
			buf = append(buf, '[')
			closers = append(closers, ']')
		}
	}
	switch m.op {
	case 'R':
		buf = append(buf, m.text...)
	case 'A':
		if n.kind == 'o' {
			buf = append(buf, '{')
			buf = append(buf, m.text...)
			buf = append(buf, '}')
		} else {
			buf = append(buf, '[')
			buf = append(buf, m.text...)
			buf = append(buf, ']')
		}
	}
	for i := len(closers) - 1; i >= 0; i-- {
		buf = append(buf, closers[i])
	}
	return buf
}

// canonicalCommits re-renders a valid encoding with the elements of every "Commits" array sorted by
// their text. MarshalHeader writes commit-proof entries in map iteration order; every order is an
// output the encoder can produce, and fixing one makes the base encodings identical in all workers and runs.
func canonicalCommits(enc string) (string, error) {
	t, err := parseTree(enc)
	if err != nil {
		return "", err
	}
	var rec func(buf []byte, n *jnode) []byte
	rec = func(buf []byte, n *jnode) []byte {
		switch n.kind {
		case 'o':
			buf = append(buf, '{')
			for i, k := range n.kids {
				if i > 0 {
					buf = append(buf, ',')
				}
				buf = append(buf, k.key...)
				buf = append(buf, ':')
				buf = rec(buf, k)
			}
			return append(buf, '}')
		case 'a':
			kids := n.kids
			if n.key == `"Commits"` {
				kids = append([]*jnode(nil), kids...)
				sort.SliceStable(kids, func(i, j int) bool { return kids[i].raw < kids[j].raw })
			}
			buf = append(buf, '[')
			for i, k := range kids {
				if i > 0 {
					buf = append(buf, ',')
				}
				buf = rec(buf, k)
			}
			return append(buf, ']')
		}
		return append(buf, n.raw...)
	}
	return string(rec(nil, t.root)), nil
}

// path returns a readable path of the node, e.g. Header.ValidatorSet.Validators[0].PubKey
func (t *jtree) path(id int) string {
	n := t.nodes[id]
	if n.parent == nil {
		return "$"
	}
	p := t.path(n.parent.id)
	if n.parent.kind == 'o' {
		k := n.key
		if len(k) >= 2 {
			k = k[1 : len(k)-1]
		}
		if p == "$" {
			return k
		}
		return p + "." + k
	}
	for i, k := range n.parent.kids {
		if k == n {
			return fmt.Sprintf("%s[%d]", p, i)
		}
	}
	return p + "[?]"
}
