//go:build verif

package c14

import (
	"testing"

	"github.com/gordian-engine/gordian/internal/zzverif/vx"
)

var registry = vx.Registry{
	Pkg:    "c14",
	Execs:  map[string]vx.Executor{},
	Checks: map[string]func(*vx.Ctx){},
}

func TestVerif(t *testing.T) {
	vx.Main(t, registry)
}
