//go:build verif

package vx

import (
	"crypto/sha256"
	"encoding/hex"
	"encoding/json"
	"fmt"
	"os"
	"path/filepath"
	"runtime"
	"sort"
	"strconv"
	"strings"
	"sync"
	"testing"
	"time"
)

// Registry is what a harness package registers.
type Registry struct {
	Pkg    string // harness package name (for replay files)
	Execs  map[string]Executor
	Checks map[string]func(c *Ctx)
}

// Ctx is the orchestrator-side context of one check run.
type Ctx struct {
	Prop   string
	Tier   string
	Seed   int64
	Level  string
	Pkg    string
	Pool   *Pool
	Start  time.Time
	Budget time.Duration // internal deadline; exceeded => exhaustive:false, exit 0

	mu          sync.Mutex
	Evaluations int64
	States      int64
	Transitions int64
	Traces      int64
	nontrivial  map[string]struct{}
	outcomes    map[string]int64
	counters    map[string]int64
	samples     []any
	Rule        string
	Exhaustive  bool
	Caps        []string
	Assumptions []string
	Extra       map[string]any
	harnessErrs []string

	viol   map[string]*foundViolation // by prop+sig
	known  []KnownFinding
	report []string
}

type foundViolation struct {
	V      Violation
	Job    Job
	Crash  string
	Count  int
	Replay string
}

// KnownFinding is one entry of /verif/known_findings.json.
type KnownFinding struct {
	Property string `json:"property"`
	Status   string `json:"status"` // "known" or "fixed"
	Match    string `json:"match"`  // exact signature, or prefix when it ends with '*'
	What     string `json:"what"`
	Commit   string `json:"commit,omitempty"`
}

func VerifDir() string {
	if d := os.Getenv("VERIF_DIR"); d != "" {
		return d
	}
	return "/verif"
}

// OutDir is where evidence and replay files go (VERIF_OUT_DIR lets self-tests against seeded changes write elsewhere).
func OutDir() string {
	if d := os.Getenv("VERIF_OUT_DIR"); d != "" {
		return d
	}
	return VerifDir()
}

func Workers() int {
	if s := os.Getenv("VERIF_WORKERS"); s != "" {
		if n, err := strconv.Atoi(s); err == nil && n > 0 {
			return n
		}
	}
	n := runtime.NumCPU()
	if n > 16 {
		n = 16
	}
	return n
}

// Main is called from the harness package's TestVerif.
func Main(t *testing.T, reg Registry) {
	switch os.Getenv("VERIF_ROLE") {
	case "worker":
		WorkerLoop(func(j Job) Result {
			ex, ok := reg.Execs[j.Exec]
			if !ok {
				return Result{HarnessErr: "unknown executor " + j.Exec}
			}
			return ex(t, j)
		})
		return
	case "replay":
		replayMain(t, reg)
		return
	case "check":
	default:
		t.Skip("VERIF_ROLE not set")
		return
	}

	prop := os.Getenv("VERIF_CHECK")
	fn, ok := reg.Checks[prop]
	if !ok {
		fmt.Printf("vx: harness %s has no check %q\n", reg.Pkg, prop)
		os.Exit(2)
	}
	tier := os.Getenv("VERIF_TIER")
	if tier != "thorough" {
		tier = "quick"
	}
	seed, _ := strconv.ParseInt(os.Getenv("VERIF_SEED"), 10, 64)
	c := &Ctx{
		Prop: prop, Tier: tier, Seed: seed, Pkg: reg.Pkg, Start: time.Now(),
		Level:      "model_checking",
		nontrivial: map[string]struct{}{}, outcomes: map[string]int64{}, counters: map[string]int64{},
		viol: map[string]*foundViolation{}, Extra: map[string]any{}, Exhaustive: true,
	}
	if tier == "quick" {
		c.Budget = 300 * time.Second
	} else {
		c.Budget = 40 * time.Minute
	}
	if s := os.Getenv("VERIF_BUDGET_S"); s != "" {
		if n, err := strconv.Atoi(s); err == nil {
			c.Budget = time.Duration(n) * time.Second
		}
	}
	c.loadKnown()
	c.Pool = NewPool(Workers())
	fn(c)
	c.confirmViolations()
	c.Pool.Close()
	code := c.finish()
	os.Exit(code)
}

func (c *Ctx) Quick() bool { return c.Tier == "quick" }

// OverBudget reports whether the internal deadline passed; the caller stops expanding and the run is marked not exhaustive.
func (c *Ctx) OverBudget() bool {
	if time.Since(c.Start) > c.Budget {
		c.Cap("internal deadline " + c.Budget.String() + " reached")
		return true
	}
	return false
}

func (c *Ctx) Cap(what string) {
	c.mu.Lock()
	defer c.mu.Unlock()
	c.Exhaustive = false
	for _, s := range c.Caps {
		if s == what {
			return
		}
	}
	c.Caps = append(c.Caps, what)
}

func (c *Ctx) AddCounter(name string, n int64) {
	c.mu.Lock()
	c.counters[name] += n
	c.mu.Unlock()
}

func (c *Ctx) Counter(name string) int64 {
	c.mu.Lock()
	defer c.mu.Unlock()
	return c.counters[name]
}

func (c *Ctx) NonTrivial(key string) {
	c.mu.Lock()
	c.nontrivial[key] = struct{}{}
	c.mu.Unlock()
}

func (c *Ctx) Outcome(o string) {
	c.mu.Lock()
	c.outcomes[o]++
	c.mu.Unlock()
}

func (c *Ctx) Sample(s any) {
	c.mu.Lock()
	if len(c.samples) < 6 {
		c.samples = append(c.samples, s)
	}
	c.mu.Unlock()
}

func (c *Ctx) SamplesForDebug() []any { return c.samples }

func (c *Ctx) Assume(s string) { c.Assumptions = append(c.Assumptions, s) }

// Absorb folds one job result into the evidence and collects violations for this check's property.
// props lists the property ids whose violations this check reports (normally just c.Prop).
func (c *Ctx) Absorb(job Job, r Result, props ...string) {
	if len(props) == 0 {
		props = []string{c.Prop}
	}
	c.mu.Lock()
	defer c.mu.Unlock()
	c.Evaluations++
	c.Traces++
	for k, v := range r.Counters {
		c.counters[k] += v
	}
	if r.Outcome != "" {
		c.outcomes[r.Outcome]++
	}
	if r.NonTrivial {
		k := r.Key
		if k == "" {
			k = strings.Join(job.Hist, ",") + fmt.Sprint(job.Args)
		}
		c.nontrivial[shortHash(k)] = struct{}{}
	}
	if r.HarnessErr != "" {
		c.Exhaustive = false
		if len(c.harnessErrs) < 5 {
			c.harnessErrs = append(c.harnessErrs, fmt.Sprintf("hist=%v args=%v: %s", job.Hist, job.Args, r.HarnessErr))
		}
		c.counters["harness_errors"]++
		return
	}
	if r.Crash != "" {
		c.counters["worker_crashes"]++
		c.counters["crash_class:"+CrashSig(r.Crash)]++
		r.Viol = append(r.Viol, Violation{Prop: "C09", Sig: CrashSig(r.Crash), Msg: firstLines(r.Crash, 12), Step: len(job.Hist)})
	}
	for _, v := range r.Viol {
		want := false
		for _, p := range props {
			if p == v.Prop {
				want = true
			}
		}
		if !want {
			c.counters["violations_of_other_properties_seen:"+v.Prop]++
			continue
		}
		k := v.Prop + "|" + v.Sig
		fv := c.viol[k]
		if fv == nil {
			c.viol[k] = &foundViolation{V: v, Job: job, Crash: r.Crash, Count: 1}
		} else {
			fv.Count++
			// Keep the shortest witness.
			if len(job.Hist) < len(fv.Job.Hist) {
				fv.Job, fv.V, fv.Crash = job, v, r.Crash
			}
		}
	}
}

// Violate records a violation found by the orchestrator itself (cross-execution oracles).
func (c *Ctx) Violate(v Violation, job Job) {
	c.mu.Lock()
	defer c.mu.Unlock()
	k := v.Prop + "|" + v.Sig
	if fv := c.viol[k]; fv == nil {
		c.viol[k] = &foundViolation{V: v, Job: job, Count: 1}
	} else {
		fv.Count++
	}
}

// confirmViolations re-runs the witness of every violation that is not a known finding three more times on fresh
// workers: the same history must fail the same way every time. A violation that never reproduces is nondeterminism the
// harness does not own; it is reported as a harness error, not as a finding.
func (c *Ctx) confirmViolations() {
	for k, fv := range c.viol {
		if fv.Job.Exec == "" || c.matchKnown(fv.V) != nil {
			continue
		}
		const nReplay = 5
		jobs := make([]Job, nReplay)
		for i := range jobs {
			jobs[i] = fv.Job
		}
		rs := c.Pool.Map(jobs)
		hits := 0
		for _, r := range rs {
			if r.Crash != "" && fv.V.Prop == "C09" && CrashSig(r.Crash) == fv.V.Sig {
				hits++
				continue
			}
			for _, v := range r.Viol {
				if v.Prop == fv.V.Prop && v.Sig == fv.V.Sig {
					hits++
					break
				}
			}
		}
		c.counters["violation_replays"] += nReplay
		c.counters["violation_replays_reproduced"] += int64(hits)
		if hits < nReplay {
			// The same history does not fail every time: some nondeterminism of the system under test (select among
			// several ready channels, goroutine order) is not owned by the harness for this history. Not reported as
			// a violation of the property; recorded in the evidence.
			delete(c.viol, k)
			c.counters["violations_not_reproduced_every_time"]++
			c.HarnessError(fmt.Sprintf("violation %s %q reproduced in only %d of %d replays of %v %v: nondeterminism not owned by the harness", fv.V.Prop, fv.V.Sig, hits, nReplay, fv.Job.Hist, fv.Job.Args))
		} else {
			fv.V.Msg += fmt.Sprintf("\n(reproduced in %d of %d replays)", hits, nReplay)
		}
	}
}

func (c *Ctx) HarnessError(msg string) {
	c.mu.Lock()
	defer c.mu.Unlock()
	c.Exhaustive = false
	c.counters["harness_errors"]++
	if len(c.harnessErrs) < 5 {
		c.harnessErrs = append(c.harnessErrs, msg)
	}
}

func firstLines(s string, n int) string {
	ls := strings.Split(s, "\n")
	if len(ls) > n {
		ls = ls[:n]
	}
	return strings.Join(ls, "\n")
}

func shortHash(s string) string {
	h := sha256.Sum256([]byte(s))
	return hex.EncodeToString(h[:10])
}

func ShortHash(s string) string { return shortHash(s) }

func (c *Ctx) loadKnown() {
	b, err := os.ReadFile(filepath.Join(VerifDir(), "known_findings.json"))
	if err != nil {
		return
	}
	var f struct {
		Findings []KnownFinding `json:"findings"`
	}
	if err := json.Unmarshal(b, &f); err != nil {
		fmt.Println("vx: cannot parse known_findings.json:", err)
		os.Exit(2)
	}
	c.known = f.Findings
	// Per-check fragments (merged into known_findings.json before release).
	more, _ := filepath.Glob(filepath.Join(VerifDir(), "known_findings.d", "*.json"))
	for _, p := range more {
		b, err := os.ReadFile(p)
		if err != nil {
			continue
		}
		var g struct {
			Findings []KnownFinding `json:"findings"`
		}
		if err := json.Unmarshal(b, &g); err != nil {
			fmt.Println("vx: cannot parse", p, err)
			os.Exit(2)
		}
		c.known = append(c.known, g.Findings...)
	}
}

func (c *Ctx) matchKnown(v Violation) *KnownFinding {
	for i := range c.known {
		k := &c.known[i]
		if k.Status != "known" || k.Property != v.Prop {
			continue
		}
		if strings.HasSuffix(k.Match, "*") {
			if strings.HasPrefix(v.Sig, strings.TrimSuffix(k.Match, "*")) {
				return k
			}
		} else if k.Match == v.Sig {
			return k
		}
	}
	return nil
}

type replayFile struct {
	Property string    `json:"property"`
	Harness  string    `json:"harness"`
	Job      Job       `json:"job"`
	Viol     Violation `json:"violation"`
	Crash    string    `json:"crash,omitempty"`
	Seen     int       `json:"times_seen_in_run"`
	Note     string    `json:"note"`
}

func (c *Ctx) finish() int {
	wall := time.Since(c.Start).Seconds()
	dir := OutDir()
	_ = os.MkdirAll(filepath.Join(dir, "replays"), 0o755)
	_ = os.MkdirAll(filepath.Join(dir, "evidence"), 0o755)

	keys := make([]string, 0, len(c.viol))
	for k := range c.viol {
		keys = append(keys, k)
	}
	sort.Strings(keys)
	nviol := 0
	knownSeen := map[string]bool{}
	var knownLines, violLines []string
	for _, k := range keys {
		fv := c.viol[k]
		if kf := c.matchKnown(fv.V); kf != nil {
			if !knownSeen[kf.Match] {
				knownSeen[kf.Match] = true
				knownLines = append(knownLines, fmt.Sprintf("KNOWN-FINDING: property=%s %s [%s]", fv.V.Prop, kf.What, kf.Match))
			}
			continue
		}
		nviol++
		name := fmt.Sprintf("%s-%s.json", fv.V.Prop, shortHash(fv.V.Sig)[:12])
		path := filepath.Join(dir, "replays", name)
		rf := replayFile{Property: fv.V.Prop, Harness: c.Pkg, Job: fv.Job, Viol: fv.V, Crash: fv.Crash, Seen: fv.Count,
			Note: "replay with: ./vcheck replay " + path}
		b, _ := json.MarshalIndent(rf, "", " ")
		_ = os.WriteFile(path, b, 0o644)
		violLines = append(violLines, fmt.Sprintf("VIOLATION property=%s replay=%s", fv.V.Prop, path))
		fmt.Printf("  violation sig=%q seen=%d step=%d\n    %s\n    hist=%v args=%v\n", fv.V.Sig, fv.Count, fv.V.Step,
			strings.ReplaceAll(fv.V.Msg, "\n", "\n    "), fv.Job.Hist, fv.Job.Args)
	}

	cov := map[string]any{
		"evaluations":                   c.Evaluations,
		"distinct_nontrivial":           len(c.nontrivial),
		"rule":                          c.Rule,
		"samples":                       c.samples,
		"states":                        c.States,
		"transitions":                   c.Transitions,
		"traces_validated_against_impl": c.Traces,
		"exhaustive":                    c.Exhaustive,
		"distinct_outcomes":             len(c.outcomes),
		"outcomes":                      c.outcomes,
		"counters":                      c.counters,
		"caps_hit":                      c.Caps,
		"known_findings_matched":        len(knownSeen),
		"worker_restarts":               c.Pool.Restarts,
		"harness_errors":                c.harnessErrs,
	}
	if c.Level != "model_checking" {
		delete(cov, "states")
		delete(cov, "transitions")
		delete(cov, "traces_validated_against_impl")
	}
	for k, v := range c.Extra {
		cov[k] = v
	}
	if c.samples == nil {
		cov["samples"] = []any{}
	}
	ev := map[string]any{
		"property_id": c.Prop,
		"tier":        c.Tier,
		"seed":        c.Seed,
		"level":       c.Level,
		"coverage":    cov,
		"assumptions": c.Assumptions,
		"wall_s":      wall,
		"violations":  nviol,
	}
	b, _ := json.MarshalIndent(ev, "", " ")
	evPath := filepath.Join(dir, "evidence", c.Prop+".json")
	if err := os.WriteFile(evPath, b, 0o644); err != nil {
		fmt.Println("vx: cannot write evidence:", err)
		return 2
	}

	fmt.Printf("check %s tier=%s: evaluations=%d states=%d transitions=%d distinct_nontrivial=%d outcomes=%d exhaustive=%v wall=%.1fs crashes=%d harness_errors=%d\n",
		c.Prop, c.Tier, c.Evaluations, c.States, c.Transitions, len(c.nontrivial), len(c.outcomes), c.Exhaustive, wall,
		c.counters["worker_crashes"], c.counters["harness_errors"])
	for _, e := range c.harnessErrs {
		fmt.Println("  harness error:", firstLines(e, 6))
	}
	for _, l := range knownLines {
		fmt.Println(l)
	}
	for _, l := range violLines {
		fmt.Println(l)
	}
	if c.Evaluations == 0 {
		fmt.Println("vx: nothing was explored; the check is broken")
		return 2
	}
	if nviol > 0 {
		return 1
	}
	return 0
}

func replayMain(t *testing.T, reg Registry) {
	path := os.Getenv("VERIF_REPLAY")
	b, err := os.ReadFile(path)
	if err != nil {
		fmt.Println("replay: ", err)
		os.Exit(2)
	}
	var rf replayFile
	if err := json.Unmarshal(b, &rf); err != nil {
		fmt.Println("replay: ", err)
		os.Exit(2)
	}
	ex, ok := reg.Execs[rf.Job.Exec]
	if !ok {
		fmt.Println("replay: unknown executor", rf.Job.Exec)
		os.Exit(2)
	}
	fmt.Printf("replaying %s: exec=%s hist=%v args=%v\nexpected: %s %s\n", path, rf.Job.Exec, rf.Job.Hist, rf.Job.Args, rf.Viol.Prop, rf.Viol.Sig)
	// Runs in-process: a crash of the system under test shows as a normal Go panic trace.
	res := ex(t, rf.Job)
	out, _ := json.MarshalIndent(res, "", " ")
	fmt.Println(string(out))
	for _, v := range res.Viol {
		if v.Prop == rf.Viol.Prop && v.Sig == rf.Viol.Sig {
			fmt.Printf("REPRODUCED property=%s sig=%s\n", v.Prop, v.Sig)
			os.Exit(1)
		}
	}
	fmt.Println("not reproduced")
	os.Exit(0)
}
