//go:build verif

package vx

import "syscall"

var sigQuit = syscall.SIGQUIT
