//go:build verif

package vx

import (
	"bufio"
	"bytes"
	"encoding/json"
	"fmt"
	"io"
	"os"
	"os/exec"
	"regexp"
	"sort"
	"strings"
	"sync"
	"time"
)

// Pool runs jobs on worker subprocesses (copies of this test binary).
// A worker that dies is replaced; the job it was running gets Result.Crash.
type Pool struct {
	n       int
	jobs    chan poolItem
	wg      sync.WaitGroup
	JobWall time.Duration

	mu       sync.Mutex
	Restarts int
	Timeouts int
}

type poolItem struct {
	job  Job
	done func(Result)
}

type worker struct {
	cmd    *exec.Cmd
	in     io.WriteCloser
	out    *bufio.Reader
	outF   *os.File
	stderr *tailBuffer
}

type tailBuffer struct {
	mu  sync.Mutex
	buf []byte
}

func (t *tailBuffer) Write(p []byte) (int, error) {
	t.mu.Lock()
	defer t.mu.Unlock()
	t.buf = append(t.buf, p...)
	if len(t.buf) > 256<<10 {
		t.buf = t.buf[len(t.buf)-(128<<10):]
	}
	return len(p), nil
}

func (t *tailBuffer) String() string {
	t.mu.Lock()
	defer t.mu.Unlock()
	return string(t.buf)
}

func NewPool(n int) *Pool {
	p := &Pool{n: n, jobs: make(chan poolItem, 4*n), JobWall: 120 * time.Second}
	for i := 0; i < n; i++ {
		p.wg.Add(1)
		go p.loop(i)
	}
	return p
}

func (p *Pool) Close() {
	close(p.jobs)
	p.wg.Wait()
}

func startWorker() (*worker, error) {
	cmd := exec.Command(os.Args[0], "-test.run", "^TestVerif$", "-test.timeout", "0")
	cmd.Env = append(os.Environ(), "VERIF_ROLE=worker", "GOMAXPROCS=1", "GOGC=400", "GOMEMLIMIT=2000MiB")
	jr, jw, err := os.Pipe()
	if err != nil {
		return nil, err
	}
	rr, rw, err := os.Pipe()
	if err != nil {
		return nil, err
	}
	cmd.ExtraFiles = []*os.File{jr, rw}
	tb := &tailBuffer{}
	cmd.Stderr = tb
	cmd.Stdout = tb
	if err := cmd.Start(); err != nil {
		return nil, err
	}
	jr.Close()
	rw.Close()
	return &worker{cmd: cmd, in: jw, out: bufio.NewReaderSize(rr, 1<<20), outF: rr, stderr: tb}, nil
}

func (w *worker) kill() {
	w.in.Close()
	_ = w.cmd.Process.Kill()
	_ = w.cmd.Wait()
	w.outF.Close()
}

func (p *Pool) loop(idx int) {
	defer p.wg.Done()
	var w *worker
	defer func() {
		if w != nil {
			w.kill()
		}
	}()
	for it := range p.jobs {
		if w == nil {
			var err error
			w, err = startWorker()
			if err != nil {
				it.done(Result{ID: it.job.ID, HarnessErr: "cannot start worker: " + err.Error()})
				continue
			}
		}
		res, alive := p.runOne(w, it.job)
		if !alive {
			w.kill()
			w = nil
			p.mu.Lock()
			p.Restarts++
			p.mu.Unlock()
		}
		it.done(res)
	}
}

func (p *Pool) runOne(w *worker, job Job) (Result, bool) {
	b, _ := json.Marshal(job)
	b = append(b, '\n')
	if _, err := w.in.Write(b); err != nil {
		_ = w.cmd.Wait()
		return Result{ID: job.ID, Crash: crashText(w.stderr.String())}, false
	}
	type rd struct {
		line []byte
		err  error
	}
	ch := make(chan rd, 1)
	var partial []Violation
	var early *Result
	go func() {
		for {
			line, err := w.out.ReadBytes('\n')
			if err == nil && bytes.HasPrefix(line, []byte(`{"early_result":`)) {
				var er struct {
					R Result `json:"early_result"`
				}
				if json.Unmarshal(line, &er) == nil {
					early = &er.R
				}
				continue
			}
			if err == nil && bytes.HasPrefix(line, []byte(`{"partial_violation":`)) {
				var pv struct {
					V Violation `json:"partial_violation"`
				}
				if json.Unmarshal(line, &pv) == nil {
					partial = append(partial, pv.V)
				}
				continue
			}
			ch <- rd{line, err}
			return
		}
	}()
	select {
	case r := <-ch:
		if r.err != nil {
			_ = w.cmd.Wait()
			if early != nil {
				// The verdict was complete; the process died while the system under test was being torn down.
				early.ID = job.ID
				early.Count("worker_crashes_during_teardown", 1)
				return *early, false
			}
			// What the execution had already found before the system under test took the process down.
			return Result{ID: job.ID, Crash: crashText(w.stderr.String()), Viol: partial}, false
		}
		var res Result
		if err := json.Unmarshal(r.line, &res); err != nil {
			return Result{ID: job.ID, HarnessErr: "bad worker output: " + err.Error()}, false
		}
		res.ID = job.ID
		return res, true
	case <-time.After(p.JobWall):
		p.mu.Lock()
		p.Timeouts++
		p.mu.Unlock()
		// Ask for a goroutine dump for diagnosis, then kill.
		_ = w.cmd.Process.Signal(sigQuit)
		time.Sleep(300 * time.Millisecond)
		tail := w.stderr.String()
		if len(tail) > 6000 {
			tail = tail[len(tail)-6000:]
		}
		return Result{ID: job.ID, HarnessErr: "harness timeout after " + p.JobWall.String() + "\n" + tail}, false
	}
}

// Submit queues a job; done is called from a pool goroutine.
func (p *Pool) Submit(job Job, done func(Result)) {
	p.jobs <- poolItem{job, done}
}

// Map runs all jobs and returns results in job order.
func (p *Pool) Map(jobs []Job) []Result {
	out := make([]Result, len(jobs))
	var wg sync.WaitGroup
	for i := range jobs {
		i := i
		jobs[i].ID = i
		wg.Add(1)
		p.Submit(jobs[i], func(r Result) {
			out[i] = r
			wg.Done()
		})
	}
	wg.Wait()
	return out
}

var (
	rePanic = regexp.MustCompile(`(?m)^(panic: .*|fatal error: .*)$`)
	reFrame = regexp.MustCompile(`(?m)^(github\.com/gordian-engine/gordian/[^\s(]+(?:\([^)]*\))?[^\s(]*)\(`)
)

func crashText(stderr string) string {
	loc := rePanic.FindStringIndex(stderr)
	if loc == nil {
		if len(stderr) > 3000 {
			stderr = stderr[len(stderr)-3000:]
		}
		return "worker died without panic line:\n" + stderr
	}
	s := stderr[loc[0]:]
	if len(s) > 6000 {
		s = s[:6000]
	}
	return s
}

// CrashSig derives a stable signature from a crash text:
// the panic message (digits and hex normalised) plus the first gordian frame outside the harness.
func CrashSig(crash string) string {
	msg := ""
	if m := rePanic.FindString(crash); m != "" {
		msg = m
	}
	msg = normalise(msg)
	if strings.Contains(msg, "deadlock: all goroutines in bubble are blocked") {
		// The bubble could not end: some goroutine of the system under test is blocked for good.
		// Stable signature: the innermost gordian frame of every bubble goroutine that is blocked on a
		// bare channel operation (not in a select, which a context would cancel).
		set := map[string]bool{}
		for _, blk := range strings.Split(crash, "\n\n") {
			head := blk
			if i := strings.IndexByte(blk, '\n'); i >= 0 {
				head = blk[:i]
			}
			if !strings.Contains(head, "synctest bubble") || !(strings.Contains(head, "[chan send") || strings.Contains(head, "[chan receive") || strings.Contains(head, "[sync.")) {
				continue
			}
			if strings.Contains(blk, "/zzverif/") {
				continue // a harness goroutine waiting for the system under test
			}
			for _, m := range reFrame.FindAllStringSubmatch(blk, -1) {
				f := m[1]
				set[strings.TrimPrefix(f, "github.com/gordian-engine/gordian/")] = true
				break
			}
		}
		var fs []string
		for f := range set {
			fs = append(fs, f)
		}
		sort.Strings(fs)
		return "crash:goroutine-blocked-forever @" + strings.Join(fs, "+")
	}
	frame := ""
	for _, m := range reFrame.FindAllStringSubmatch(crash, -1) {
		f := m[1]
		if strings.Contains(f, "/zzverif/") || strings.Contains(f, "zzvsync") {
			continue
		}
		frame = f
		break
	}
	frame = strings.TrimPrefix(frame, "github.com/gordian-engine/gordian/")
	return fmt.Sprintf("crash:%s @%s", msg, frame)
}

var (
	reHex = regexp.MustCompile(`\b(0x)?[0-9a-fA-F]{8,}\b`)
	reNum = regexp.MustCompile(`\b\d+\b`)
	reGor = regexp.MustCompile(`\[recovered\].*`)
)

func normalise(s string) string {
	s = reGor.ReplaceAllString(s, "")
	s = reHex.ReplaceAllString(s, "#")
	s = reNum.ReplaceAllString(s, "N")
	if len(s) > 160 {
		s = s[:160]
	}
	return strings.TrimSpace(s)
}

// WorkerLoop is the worker side: read jobs from fd 3, write results to fd 4.
func WorkerLoop(run func(Job) Result) {
	in := bufio.NewReaderSize(os.NewFile(3, "jobs"), 1<<20)
	out := os.NewFile(4, "results")
	for {
		line, err := in.ReadBytes('\n')
		if err != nil {
			return
		}
		var job Job
		if err := json.Unmarshal(bytes.TrimSpace(line), &job); err != nil {
			fmt.Fprintln(os.Stderr, "worker: bad job:", err)
			os.Exit(3)
		}
		partialSink = func(v Violation) {
			b, err := json.Marshal(struct {
				V Violation `json:"partial_violation"`
			}{v})
			if err == nil {
				_, _ = out.Write(append(b, '\n'))
			}
		}
		earlySink = func(r Result) {
			r.ID = job.ID
			b, err := json.Marshal(struct {
				R Result `json:"early_result"`
			}{r})
			if err == nil {
				_, _ = out.Write(append(b, '\n'))
			}
		}
		res := run(job)
		partialSink, earlySink = nil, nil
		res.ID = job.ID
		b, err := json.Marshal(res)
		if err != nil {
			b, _ = json.Marshal(Result{ID: job.ID, HarnessErr: "cannot marshal result: " + err.Error()})
		}
		b = append(b, '\n')
		if _, err := out.Write(b); err != nil {
			return
		}
	}
}
