//go:build verif

// Package vx is the exploration framework shared by all harnesses:
// worker pool (crash containment), explorers, evidence, known findings.
package vx

import (
	"encoding/json"
	"sort"
	"testing"
)

// Job is one execution request handed to a worker:
// run executor Exec on event history Hist (fresh system under test every time).
type Job struct {
	ID   int               `json:"id"`
	Exec string            `json:"exec"`
	Hist []string          `json:"hist,omitempty"`
	Args map[string]string `json:"args,omitempty"`
}

// Violation is one oracle failure.
// Sig is a stable signature used to match known findings and to dedup.
type Violation struct {
	Prop string `json:"prop"`
	Sig  string `json:"sig"`
	Msg  string `json:"msg"`
	Step int    `json:"step"`
}

// Result is what a worker reports for one job.
type Result struct {
	ID int `json:"id"`
	// Key is the canonical key of the state reached at the end of the history.
	Key string `json:"key,omitempty"`
	// Keys are the canonical keys after every step (optional).
	Keys []string `json:"keys,omitempty"`
	// Trace is the realised event sequence (prefix + default continuation).
	Trace []string `json:"trace,omitempty"`
	// Alts[i] are the enabled non-default events at step i of Trace.
	Alts [][]string `json:"alts,omitempty"`
	// Next are the events enabled at the end (BFS).
	Next []string `json:"next,omitempty"`
	Viol []Violation `json:"viol,omitempty"`
	// Crash is set by the orchestrator when the worker died on this job.
	Crash string `json:"crash,omitempty"`
	// HarnessErr marks failures of the harness itself (timeouts, nondeterminism). Never a violation.
	HarnessErr string `json:"harness_err,omitempty"`
	// Outcome is a short classification of what was observed, for the distinct-outcome count.
	Outcome string `json:"outcome,omitempty"`
	// NonTrivial says the execution exercised the property by the check's stated rule.
	NonTrivial bool `json:"nontrivial,omitempty"`
	// Counters are summed into the evidence.
	Counters map[string]int64 `json:"counters,omitempty"`
	// Obs is free-form observation data (replay output, debugging).
	Obs json.RawMessage `json:"obs,omitempty"`
}

func (r *Result) Count(name string, n int64) {
	if r.Counters == nil {
		r.Counters = map[string]int64{}
	}
	r.Counters[name] += n
}

func (r *Result) Violate(prop, sig, msg string, step int) {
	for _, v := range r.Viol {
		if v.Prop == prop && v.Sig == sig {
			return
		}
	}
	v := Violation{Prop: prop, Sig: sig, Msg: msg, Step: step}
	r.Viol = append(r.Viol, v)
	if partialSink != nil {
		partialSink(v)
	}
}

// partialSink, in a worker process, streams every violation to the orchestrator at the moment it is found, so that
// it survives a later crash of the system under test in the same execution.
var partialSink func(Violation)

// Executor runs one job on the real code. It runs on a worker process
// inside a test so that it may use testing/synctest.
type Executor func(t *testing.T, job Job) Result

func SortedKeys[M ~map[string]V, V any](m M) []string {
	ks := make([]string, 0, len(m))
	for k := range m {
		ks = append(ks, k)
	}
	sort.Strings(ks)
	return ks
}


// earlySink, in a worker process, hands the complete result of an execution to the orchestrator BEFORE the system
// under test is torn down. A panic of the system under test during teardown (after its context was cancelled; e.g. a
// select without a ctx.Done case that can only leave through its timeout panic) then does not cost the execution's
// verdict: the orchestrator uses the early result and counts the teardown crash.
var earlySink func(Result)

// EarlyResult is called by an executor when the execution's verdict is complete and only teardown remains.
func EarlyResult(r *Result) {
	if earlySink != nil {
		earlySink(*r)
	}
}
