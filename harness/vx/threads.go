//go:build verif

package vx

import (
	"context"
	"fmt"
	"strings"
	"testing/synctest"

	"github.com/gordian-engine/gordian/internal/gchan"
	"github.com/gordian-engine/gordian/internal/zzverif/zzvsync"
)

// Threads is the cooperative thread scheduler (E-THR).
// It must be used inside a synctest bubble: after releasing one thread the
// controller calls synctest.Wait(), which returns when every goroutine of the
// bubble (harness threads and the system under test) is durably blocked.
//
// A thread is a goroutine running a body with a context whose gchan hook
// parks the thread at every scheduling point. Exactly one thread is released
// at a time; system goroutines (kernels) run freely to quiescence in between.
type Threads struct {
	ctx     context.Context
	cancel  context.CancelFunc
	threads []*thread
	cur     int // thread released last (-1 none)

	// Choices replayed as a prefix; beyond it choice 0 is taken.
	prefix []int

	// Recorded execution.
	Points []Point
	// Deadlock is set if at some moment no thread was enabled while some had not finished.
	Deadlock string
	// FilterPoint, if set, decides whether a point is a scheduling point (return false to run through).
	FilterPoint func(thread int, name string) bool
	// BeforeRelease, if set, is called with the thread about to be released and the point it is parked at;
	// returning false ends the run (used for ready-set analysis: the harness inspects the state at that instant).
	BeforeRelease func(thread int, name string) bool
	// Aborted is set when BeforeRelease ended the run.
	Aborted    bool
	// MaxPoints > 0 ends the run when a schedule grows beyond it (a thread that retries forever); Deadlock names it.
	MaxPoints int
	daemonTail int
}

// Point is one scheduling decision.
type Point struct {
	Enabled []int    // thread ids in canonical order: the running thread first if still enabled, then ascending
	Names   []string // where each enabled thread is parked
	Chosen  int      // index into Enabled
	RunningStillEnabled bool
	// Choice marks a data choice made by the running thread (Choose) rather than a scheduling decision:
	// Enabled is 0..n-1 and no thread is switched.
	Choice bool
}

type thread struct {
	id       int
	name     string
	gate     chan struct{}
	at       string // non-empty: parked at this point
	finished bool
	panicked any
	// lock the thread waits for (nil if none)
	wantLock  *zzvsync.Lock
	wantWrite bool
	// daemon threads are goroutines of the system under test (never finish).
	daemon bool
}

type threadExit struct{}

func NewThreads(ctx context.Context, prefix []int) *Threads {
	cctx, cancel := context.WithCancel(ctx)
	return &Threads{ctx: cctx, cancel: cancel, cur: -1, prefix: prefix}
}

// Go adds a thread. The body receives a context carrying the scheduling hook and
// must use it for every call into the system under test.
func (s *Threads) Go(name string, body func(ctx context.Context)) {
	th := &thread{id: len(s.threads), name: name, gate: make(chan struct{})}
	s.threads = append(s.threads, th)
	tctx := gchan.WithVerifHook(s.ctx, func(op, label string) {
		s.park(th, op+":"+label)
	})
	tctx = context.WithValue(tctx, threadKey{}, th)
	go func() {
		defer func() {
			if r := recover(); r != nil {
				if _, ok := r.(threadExit); !ok {
					th.panicked = r
				}
			}
			th.finished = true
		}()
		s.park(th, "start")
		body(tctx)
	}()
}

type threadKey struct{}

// Adopt registers a goroutine that the system under test starts itself: pass the returned context to the
// code that spawns it. It becomes schedulable whenever it reaches a hook point; it never has to finish.
func (s *Threads) Adopt(name string) context.Context {
	th := &thread{id: len(s.threads), name: name, gate: make(chan struct{}), daemon: true}
	s.threads = append(s.threads, th)
	return gchan.WithVerifHook(s.ctx, func(op, label string) {
		if op == "Point" {
			s.parkDaemon(th, label)
		} else {
			s.parkDaemon(th, op+":"+label)
		}
	})
}

func (s *Threads) parkDaemon(th *thread, name string) {
	if s.FilterPoint != nil && !s.FilterPoint(th.id, name) {
		return
	}
	th.at = name
	select {
	case <-th.gate:
		th.at = ""
	case <-s.ctx.Done():
		th.at = ""
	}
}

// ThreadState reports where a thread is: "finished", "at:<point>", or "blocked" (inside the system under test).
func (s *Threads) ThreadState(id int) string {
	th := s.threads[id]
	if th.finished {
		return "finished"
	}
	if th.at != "" {
		return "at:" + th.at
	}
	return "blocked"
}

func (s *Threads) park(th *thread, name string) {
	if s.FilterPoint != nil && name != "start" && !s.FilterPoint(th.id, name) {
		return
	}
	th.at = name
	select {
	case <-th.gate:
		th.at = ""
	case <-s.ctx.Done():
		panic(threadExit{})
	}
}

// Acquire implements zzvsync.Sched. The calling goroutine is the thread released last.
func (s *Threads) Acquire(l *zzvsync.Lock, write bool) {
	th := s.threads[s.cur]
	op := "RLock"
	if write {
		op = "Lock"
	}
	th.wantLock, th.wantWrite = l, write
	s.park(th, op) // enabled only while the lock is available (see enabled())
	th.wantLock = nil
	if write {
		if l.Writer || l.Readers > 0 {
			panic("vx: scheduler granted a write lock that is held")
		}
		l.Writer = true
	} else {
		if l.Writer {
			panic("vx: scheduler granted a read lock while a writer holds it")
		}
		l.Readers++
	}
}

// Release implements zzvsync.Sched. Unlocking is a scheduling point as well (after the release).
func (s *Threads) Release(l *zzvsync.Lock, write bool) {
	th := s.threads[s.cur]
	if write {
		if !l.Writer {
			panic("sync: unlock of unlocked mutex")
		}
		l.Writer = false
		s.park(th, "Unlock")
	} else {
		if l.Readers <= 0 {
			panic("sync: RUnlock of unlocked RWMutex")
		}
		l.Readers--
		s.park(th, "RUnlock")
	}
}

// Choose is called by the running thread (or a daemon goroutine running between two releases) to take one of n
// alternatives; it is part of the explored schedule: the prefix decides, beyond it alternative 0 is taken and
// ExploreSchedules enumerates the others (at no preemption cost).
func (s *Threads) Choose(name string, n int) int {
	idx := len(s.Points)
	choice := 0
	if idx < len(s.prefix) {
		choice = s.prefix[idx]
		if choice >= n {
			panic(fmt.Sprintf("vx: schedule prefix diverged at step %d: choice %d of %d alternatives at %s", idx, choice, n, name))
		}
	}
	p := Point{Chosen: choice, Choice: true}
	for i := 0; i < n; i++ {
		p.Enabled = append(p.Enabled, i)
		p.Names = append(p.Names, fmt.Sprintf("%s=%d", name, i))
	}
	s.Points = append(s.Points, p)
	return choice
}

func (s *Threads) enabled() (ids []int, names []string, runningStill bool) {
	ok := func(th *thread) bool {
		if th.finished || th.at == "" {
			return false
		}
		if th.wantLock != nil {
			if th.wantWrite {
				return !th.wantLock.Writer && th.wantLock.Readers == 0
			}
			return !th.wantLock.Writer
		}
		return true
	}
	if s.cur >= 0 && ok(s.threads[s.cur]) {
		ids = append(ids, s.cur)
		runningStill = true
	}
	for _, th := range s.threads {
		if th.id != s.cur && ok(th) {
			ids = append(ids, th.id)
		}
	}
	for _, id := range ids {
		names = append(names, s.threads[id].at)
	}
	return
}

// Run drives the threads to completion under the prefix + default-0 schedule.
// It returns when all threads finished or nothing is enabled.
func (s *Threads) Run() {
	zzvsync.Install(s)
	defer zzvsync.Install(nil)
	for {
		synctest.Wait()
		ids, names, still := s.enabled()
		allDone := true
		for _, th := range s.threads {
			if !th.daemon && !th.finished {
				allDone = false
			}
		}
		if allDone {
			// Let daemon goroutines that are parked mid-way reach their next point, a few times, then stop.
			s.daemonTail++
			if len(ids) == 0 || s.daemonTail > 3 {
				return
			}
		}
		if len(ids) == 0 {
			var stuck []string
			for _, th := range s.threads {
				if !th.finished && !th.daemon {
					where := th.at
					if where == "" {
						where = "blocked inside the system under test"
					}
					stuck = append(stuck, fmt.Sprintf("%s(%s)", th.name, where))
				}
			}
			if len(stuck) > 0 {
				s.Deadlock = strings.Join(stuck, ", ")
			}
			return
		}
		choice := 0
		if at := len(s.Points); at < len(s.prefix) {
			choice = s.prefix[at]
			if choice >= len(ids) {
				panic(fmt.Sprintf("vx: schedule prefix diverged at step %d: choice %d of %d enabled", at, choice, len(ids)))
			}
		}
		if s.MaxPoints > 0 && len(s.Points) >= s.MaxPoints {
			s.Deadlock = fmt.Sprintf("livelock: more than %d scheduling points without the threads finishing (parked at %v)", s.MaxPoints, names)
			return
		}
		s.Points = append(s.Points, Point{Enabled: ids, Names: names, Chosen: choice, RunningStillEnabled: still})
		th := s.threads[ids[choice]]
		if s.BeforeRelease != nil && !s.BeforeRelease(th.id, th.at) {
			s.Aborted = true
			return
		}
		s.cur = th.id
		th.gate <- struct{}{}
	}
}

// Stop releases every parked thread (they exit) so that the bubble can end.
func (s *Threads) Stop() {
	s.cancel()
	synctest.Wait()
}

func (s *Threads) Panics() []string {
	var out []string
	for _, th := range s.threads {
		if th.panicked != nil {
			out = append(out, fmt.Sprintf("%s: %v", th.name, th.panicked))
		}
	}
	return out
}

// Choices returns the choice vector of the recorded execution.
func (s *Threads) Choices() []int {
	out := make([]int, len(s.Points))
	for i, p := range s.Points {
		out[i] = p.Chosen
	}
	return out
}

// ScheduleString renders the schedule as thread names in release order.
func (s *Threads) ScheduleString() string {
	var sb strings.Builder
	for i, p := range s.Points {
		if i > 0 {
			sb.WriteByte(' ')
		}
		if p.Choice {
			fmt.Fprintf(&sb, "[%s]", p.Names[p.Chosen])
			continue
		}
		fmt.Fprintf(&sb, "%s@%s", s.threads[p.Enabled[p.Chosen]].name, p.Names[p.Chosen])
	}
	return sb.String()
}

// ExploreSchedules enumerates all schedules with at most bound preemptions (bound < 0: all)
// by the stateless DFS of iterative context bounding. run executes one schedule prefix on a
// fresh system and returns the recorded points; visit sees every complete execution.
// It stops early when stop() reports true (budget) and returns false in that case.
func ExploreSchedules(bound int, run func(prefix []int) []Point, stop func() bool) (executions int, complete bool) {
	complete = true
	var rec func(prefix []int)
	rec = func(prefix []int) {
		if !complete {
			return
		}
		if stop != nil && stop() {
			complete = false
			return
		}
		pts := run(prefix)
		executions++
		pre := 0
		for i := 0; i < len(pts); i++ {
			p := pts[i]
			if i >= len(prefix) {
				cost := pre
				if p.RunningStillEnabled {
					cost++
				}
				if bound < 0 || cost <= bound {
					for alt := 1; alt < len(p.Enabled); alt++ {
						np := make([]int, i+1)
						for k := 0; k < i; k++ {
							np[k] = pts[k].Chosen
						}
						np[i] = alt
						rec(np)
					}
				}
			}
			if p.RunningStillEnabled && p.Chosen != 0 {
				pre++
			}
		}
	}
	rec(nil)
	return
}
