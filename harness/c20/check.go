//go:build verif

package c20

import (
	"encoding/json"
	"fmt"
	"strconv"
	"strings"

	"github.com/gordian-engine/gordian/internal/zzverif/vx"
)

func init() {
	registry.Checks["C20"] = checkC20
}

func itoa(n int) string { return strconv.Itoa(n) }

func checkC20(c *vx.Ctx) {
	c.Level = "model_checking"
	c.Rule = "three exhaustive enumerations on the real code. " +
		"(a) every cell (payload, handler feedback 0..255, sender self/other) of the pubsub validator closure of a real never-connected tmlibp2p.Connection, " +
		"and every (kind, feedback 0..255) plus every malformed payload end to end over a real libp2p line A-B-C; " +
		"(b) every operation sequence up to the length bound over {B.SetConsensusHandler(nil|fb), A sends kind, C sends kind, B.Disconnect} on a fresh DaisyChainNetwork line in a synctest bubble (one event + Wait per step); " +
		"(c) every (old handler, new handler, message kind, arrival phase before/inside/after the unregister-register window) on a fresh real libp2p line with B's background goroutine held at gchan.VerifPoint tmlibp2p.swap. " +
		"A case is one pool job (a shard of table rows / a sequence prefix / one line scenario); it is non-trivial when at least one message reached B's validator or handler and its relay status at the far node was observed. " +
		"states = distinct abstract observations (B's installed handler, message kind, B's verdict, seen at far node); transitions = validator invocations + sequence steps + messages published on real lines."

	quick := c.Quick()
	var jobs []vx.Job

	// ---- (a) validator table on the closure ----
	stride := 1
	if quick {
		stride = 7
	}
	for lo := 0; lo < 256; lo += 16 {
		jobs = append(jobs, vx.Job{Exec: "c20a", Args: map[string]string{"lo": itoa(lo), "hi": itoa(lo + 15), "stride": itoa(stride)}})
	}

	// ---- (c) handler replacement window, and (a) end to end ----
	quiet := "1000"
	olds := []string{"none", "fb1", "fb2", "fb3"}
	news := []string{"nil", "fb1", "fb2", "fb3"}
	phaseSets := []string{"before,window,after"}
	if !quick {
		olds = []string{"none", "nil", "fb0", "fb1", "fb2", "fb3", "fb4", "fb200"}
		news = []string{"nil", "fb0", "fb1", "fb2", "fb3", "fb4", "fb200"}
		phaseSets = []string{"before,window,after", "before", "window", "after"}
	}
	for _, o := range olds {
		for _, n := range news {
			for _, k := range allKinds {
				for _, ph := range phaseSets {
					jobs = append(jobs, vx.Job{Exec: "c20line", Args: map[string]string{"mode": "swap", "old": o, "new": n, "kind": k, "phases": ph, "quiet": quiet}})
				}
			}
		}
	}
	tableShard := 32
	for lo := 0; lo < 256; lo += tableShard {
		raw := "0"
		if lo == 0 {
			raw = "1"
		}
		jobs = append(jobs, vx.Job{Exec: "c20line", Args: map[string]string{"mode": "table", "lo": itoa(lo), "hi": itoa(lo + tableShard - 1), "quiet": quiet, "raw": raw}})
	}

	// ---- (b) daisy chain sequences ----
	fbs := []int{1, 2, 3}
	maxlen := 4
	if !quick {
		fbs = []int{0, 1, 2, 3, 4, 200}
		maxlen = 5
	}
	var fbStr []string
	for _, f := range fbs {
		fbStr = append(fbStr, itoa(f))
	}
	bArgs := func(ml int) map[string]string {
		return map[string]string{"maxlen": itoa(ml), "fbs": strings.Join(fbStr, ",")}
	}
	ops := bAlphabet(fbs)
	jobs = append(jobs, vx.Job{Exec: "c20b", Args: bArgs(1)})
	for _, o1 := range ops {
		for _, o2 := range ops {
			if !bSeqAllowed([]string{o1, o2}) {
				continue
			}
			jobs = append(jobs, vx.Job{Exec: "c20b", Hist: []string{o1, o2}, Args: bArgs(maxlen)})
		}
	}

	// The line jobs are the long ones: submit them first.
	ordered := make([]vx.Job, 0, len(jobs))
	for _, e := range []string{"c20line", "c20b", "c20a"} {
		for _, j := range jobs {
			if j.Exec == e {
				ordered = append(ordered, j)
			}
		}
	}
	jobs = ordered

	// Batches, so that the internal deadline can stop the run between them (exit 0, exhaustive:false).
	var rs []vx.Result
	const batch = 96
	for lo := 0; lo < len(jobs); lo += batch {
		if c.OverBudget() {
			c.Cap(fmt.Sprintf("%d of %d jobs not run", len(jobs)-lo, len(jobs)))
			jobs = jobs[:lo]
			break
		}
		hi := min(lo+batch, len(jobs))
		rs = append(rs, c.Pool.Map(jobs[lo:hi])...)
	}
	states := map[string]struct{}{}
	perPart := map[string]int{}
	sampled := map[string]int{}
	for i, r := range rs {
		c.Absorb(jobs[i], r)
		part := jobs[i].Exec
		if part == "c20line" {
			part += ":" + jobs[i].Args["mode"]
		}
		perPart[part]++
		for _, k := range r.Keys {
			states[part+"|"+k] = struct{}{}
		}
		if r.HarnessErr == "" && r.Crash == "" && sampled[part] < 1 && len(r.Obs) > 0 {
			if part == "c20line:swap" && jobs[i].Args["old"] != "fb1" {
				continue
			}
			sampled[part]++
			var obs any
			_ = json.Unmarshal(r.Obs, &obs)
			c.Sample(map[string]any{"part": part, "hist": jobs[i].Hist, "args": jobs[i].Args, "observed": obs, "counters": r.Counters})
		}
	}
	c.States = int64(len(states))
	c.Transitions = c.Counter("validator_calls") + c.Counter("b_steps") + c.Counter("line_messages")
	c.Extra["jobs_per_part"] = perPart
	c.Extra["bounds"] = map[string]any{
		"a_feedback_values":       "0..255",
		"a_prefix_stride":         stride,
		"b_alphabet":              ops,
		"b_max_sequence_length":   maxlen,
		"c_old_handlers":          olds,
		"c_new_handlers":          news,
		"c_phase_sets":            phaseSets,
		"c_message_kinds":         allKinds,
		"c_quiet_period_ms":       quiet,
		"table_end_to_end_shards": 256 / tableShard,
	}
	c.Extra["explanation"] = "exhaustive:true refers to the stated bounds. libp2p internals are exercised, not explored; " +
		"the window between UnregisterTopicValidator and host.Close inside Connection.Disconnect has no hook and is not explored."
	c.Assume("a message that B's pubsub reported as finished and that is not seen at C within the quiet period, before a later barrier message from A is seen at C, was not relayed (can only hide a violation)")
	c.Assume("connection gaters keep A and C from connecting directly; checked at the end of every line run (no direct connection, every arrival at C came from B)")
	c.Assume("go:linkname reaches the real (*Connection).libp2pConsensusMessageValidator and ignoreMessage symbols of the tree under test")
}
