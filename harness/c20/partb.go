//go:build verif

package c20

import (
	"context"
	"encoding/json"
	"fmt"
	"sort"
	"strconv"
	"strings"
	"sync"
	"testing"
	"testing/synctest"

	"github.com/gordian-engine/gordian/gexchange"
	"github.com/gordian-engine/gordian/internal/gchan"
	"github.com/gordian-engine/gordian/internal/zzverif/vx"
	"github.com/gordian-engine/gordian/tm/tmp2p/tmp2ptest"
)

// Part (b): the in-memory line A - B - C on the real tmp2ptest.DaisyChainNetwork, inside a synctest bubble.
//
// Alphabet (one event + synctest.Wait() per step, E-EVT):
//
//	hN        B.SetConsensusHandler(nil)
//	h<fb>     B.SetConsensusHandler(handler returning feedback <fb> for everything)
//	sA<kind>  A sends a fresh message of <kind> (ph|pv|pc) on its broadcaster channel
//	sC<kind>  C sends a fresh message
//	dB        B.Disconnect()
//
// A and C carry accepting, recording handlers from the start. B starts without a handler.
// Every sequence up to the length bound is executed on a fresh network, except sequences that call
// SetConsensusHandler on B after B.Disconnect(): DaisyChainConnection documents that as a caller bug and panics on
// its own goroutine (it is a precondition of the API, not a behaviour to judge).
//
// Oracle: the far end's handler was called with message m  ==>  a harness handler installed on B was called with m
// and returned FeedbackAccepted. "The handler in force when B processed m" needs no model of B's select order:
// it is, by definition, the handler instance that B actually called with m (none if B called none).
//
// Why event order is all there is to explore: a DaisyChainConnection is one goroutine that takes one request or one
// message per loop iteration and finishes it (handler call and forwarding send) before the next; the inter-node
// channels hold 16 messages and never block within the bound. With a Wait() after every step the order in which B
// takes its inputs is the order of the sequence, and all orders are enumerated. The gchan hook on the network's
// context is used only to count B's forwarding sends by code path.

func init() {
	registry.Execs["c20b"] = execB
}

// bAlphabet returns the operations; fbs are the feedback values for h<fb>.
func bAlphabet(fbs []int) []string {
	ops := []string{"hN"}
	for _, f := range fbs {
		ops = append(ops, "h"+strconv.Itoa(f))
	}
	for _, side := range []string{"A", "C"} {
		for _, k := range allKinds {
			ops = append(ops, "s"+side+k)
		}
	}
	ops = append(ops, "dB")
	return ops
}

func bSeqAllowed(seq []string) bool {
	disc := false
	for _, op := range seq {
		if op == "dB" {
			disc = true
		} else if disc && op[0] == 'h' {
			return false
		}
	}
	return true
}

type bRun struct {
	viol     []vx.Violation
	keys     []string // abstract state after every step
	sends    int
	relayed  int
	blocked  int
	fwdPaths map[string]int
}

// runB executes one sequence on a fresh network. Must be called inside a bubble.
func runB(t *testing.T, m *msgs, seq []string) (out bRun, err error) {
	out.fwdPaths = map[string]int{}
	ctx, cancel := context.WithCancel(context.Background())
	var pmu sync.Mutex
	paths := out.fwdPaths
	hctx := gchan.WithVerifHook(ctx, func(op, label string) {
		if op == "SendC" && strings.HasPrefix(label, "propagating message") {
			pmu.Lock()
			paths[label]++
			pmu.Unlock()
		}
	})
	net := tmp2ptest.NewDaisyChainNetwork(t, hctx)
	defer func() {
		cancel()
		net.Wait()
	}()

	a, e1 := net.Connect(ctx)
	b, e2 := net.Connect(ctx)
	c, e3 := net.Connect(ctx)
	if e1 != nil || e2 != nil || e3 != nil {
		return out, fmt.Errorf("connect: %v %v %v", e1, e2, e3)
	}
	recA, recB, recC := newRecorder(), newRecorder(), newRecorder()
	a.SetConsensusHandler(ctx, constHandler("A.accept", recA, gexchange.FeedbackAccepted))
	c.SetConsensusHandler(ctx, constHandler("C.accept", recC, gexchange.FeedbackAccepted))
	synctest.Wait()

	type sent struct {
		key, from string
		bState    string
	}
	var sents []sent
	bState := "nil-initial"
	id := uint64(100)
	flagged := map[string]bool{}

	for step, op := range seq {
		switch {
		case op == "hN":
			b.SetConsensusHandler(ctx, nil)
			bState = "nil-set"
		case op[0] == 'h':
			f, _ := strconv.Atoi(op[1:])
			b.SetConsensusHandler(ctx, constHandler(fmt.Sprintf("B#%d.fb%d", step, f), recB, gexchange.Feedback(f)))
			bState = "fb:" + fbClass(gexchange.Feedback(f))
		case op == "dB":
			b.Disconnect()
			bState = "disconnected"
		case op[0] == 's':
			conn := a
			if op[1] == 'C' {
				conn = c
			}
			kind := op[2:]
			id++
			cb := conn.ConsensusBroadcaster()
			switch kind {
			case kPH:
				cb.OutgoingProposedHeaders() <- m.ph(id)
			case kPV:
				cb.OutgoingPrevoteProofs() <- m.pv(id)
			case kPC:
				cb.OutgoingPrecommitProofs() <- m.pc(id)
			}
			sents = append(sents, sent{key: mkey(kind, id), from: op[1:2], bState: bState})
			out.sends++
		default:
			return out, fmt.Errorf("bad op %q", op)
		}
		synctest.Wait()

		// Oracle, after every step.
		var st []string
		for _, s := range sents {
			far, near := recC, recA
			if s.from == "C" {
				far, near = recA, recC
			}
			got := len(far.callsFor(s.key)) > 0
			acc := recB.accepted(s.key)
			bc := recB.callsFor(s.key)
			verdict := "none"
			if len(bc) > 0 {
				verdict = fbClass(bc[0].Fb)
			}
			st = append(st, fmt.Sprintf("%s>%s:%s:%v", s.from, s.key[:2], verdict, got))
			if len(near.callsFor(s.key)) > 0 && !flagged["echo"+s.key] {
				flagged["echo"+s.key] = true
				out.viol = append(out.viol, vx.Violation{Prop: prop, Sig: "b:message-came-back-to-sender",
					Msg: fmt.Sprintf("message %s sent by %s was handed to %s's own handler; sequence %v", s.key, s.from, s.from, seq), Step: step})
			}
			if got && !acc && !flagged[s.key] {
				flagged[s.key] = true
				out.viol = append(out.viol, vx.Violation{Prop: prop, Sig: "b:relay-without-accept:B=" + s.bState,
					Msg: fmt.Sprintf("DaisyChain line A-B-C, sequence %v: message %s sent by %s reached the far node's handler, "+
						"but no handler on B returned FeedbackAccepted for it (B when it was sent: %s; B's handler calls for it: %v)",
						seq, s.key, s.from, s.bState, bc), Step: step})
			}
		}
		sort.Strings(st)
		out.keys = append(out.keys, bState+"|"+strings.Join(st, ","))
	}
	for _, s := range sents {
		far := recC
		if s.from == "C" {
			far = recA
		}
		if len(far.callsFor(s.key)) > 0 {
			out.relayed++
		} else {
			out.blocked++
		}
	}
	// Integrity: nobody's handler saw a message that was never sent.
	known := map[string]bool{}
	for _, s := range sents {
		known[s.key] = true
	}
	for _, r := range []*recorder{recA, recB, recC} {
		for _, cl := range r.snapshot() {
			if !known[cl.Key] {
				out.viol = append(out.viol, vx.Violation{Prop: prop, Sig: "b:unknown-message-delivered",
					Msg: fmt.Sprintf("handler %s received %s which nobody sent; sequence %v", cl.Handler, cl.Key, seq)})
			}
		}
	}
	return out, nil
}

// execB runs every allowed sequence with the given first operations (job.Hist = prefix) up to total length maxlen.
// Args: maxlen, fbs (comma separated feedback values).
func execB(t *testing.T, job vx.Job) (res vx.Result) {
	maxlen, _ := strconv.Atoi(job.Args["maxlen"])
	var fbs []int
	for _, s := range strings.Split(job.Args["fbs"], ",") {
		n, err := strconv.Atoi(s)
		if err == nil {
			fbs = append(fbs, n)
		}
	}
	ops := bAlphabet(fbs)
	m := newMsgs()
	keys := map[string]struct{}{}
	outcomes := map[string]int{}
	paths := map[string]int{}
	var herr string

	synctest.Test(t, func(t *testing.T) {
		var rec func(seq []string)
		rec = func(seq []string) {
			if herr != "" {
				return
			}
			if len(seq) > 0 && len(seq) >= len(job.Hist) {
				r, err := runB(t, m, seq)
				if err != nil {
					herr = err.Error()
					return
				}
				res.Count("b_sequences", 1)
				res.Count("b_steps", int64(len(seq)))
				res.Count("b_sends", int64(r.sends))
				res.Count("b_relayed", int64(r.relayed))
				res.Count("b_not_relayed", int64(r.blocked))
				if r.sends > 0 {
					res.Count("b_sequences_with_traffic", 1)
				}
				for _, k := range r.keys {
					keys[k] = struct{}{}
				}
				for p, n := range r.fwdPaths {
					paths[p] += n
				}
				outcomes[fmt.Sprintf("sends=%d,relayed=%d", r.sends, r.relayed)]++
				for _, v := range r.viol {
					res.Violate(v.Prop, v.Sig, v.Msg, v.Step)
				}
			}
			if len(seq) == maxlen {
				return
			}
			for _, op := range ops {
				if len(seq) < len(job.Hist) && job.Hist[len(seq)] != op {
					continue
				}
				next := append(append([]string(nil), seq...), op)
				if !bSeqAllowed(next) {
					res.Count("b_sequences_skipped_sethandler_after_disconnect", 1)
					continue
				}
				rec(next)
			}
		}
		rec(nil)
	})
	if herr != "" {
		res.HarnessErr = herr
		return res
	}
	res.Keys = vx.SortedKeys(keys)
	res.Key = "b:" + strings.Join(job.Hist, ",")
	res.NonTrivial = res.Counters["b_sends"] > 0
	var oc []string
	for k, n := range outcomes {
		oc = append(oc, fmt.Sprintf("%s x%d", k, n))
	}
	sort.Strings(oc)
	res.Obs, _ = json.Marshal(map[string]any{"outcomes": oc, "forwarding_sends_by_code_path": paths})
	res.Outcome = "b:" + strconv.Itoa(len(outcomes)) + "-classes"
	return res
}
