//go:build verif

package c20

import (
	"context"
	"encoding/json"
	"fmt"
	"log/slog"
	"sort"
	"strconv"
	"strings"
	"sync"
	"sync/atomic"
	"testing"
	"time"

	"github.com/gordian-engine/gordian/gexchange"
	"github.com/gordian-engine/gordian/internal/gchan"
	"github.com/gordian-engine/gordian/internal/zzverif/vx"
	"github.com/gordian-engine/gordian/tm/tmconsensus"
	"github.com/gordian-engine/gordian/tm/tmp2p/tmlibp2p"
	"github.com/libp2p/go-libp2p"
	pubsub "github.com/libp2p/go-libp2p-pubsub"
	pubsubpb "github.com/libp2p/go-libp2p-pubsub/pb"
	"github.com/libp2p/go-libp2p/core/connmgr"
	"github.com/libp2p/go-libp2p/core/control"
	"github.com/libp2p/go-libp2p/core/network"
	"github.com/libp2p/go-libp2p/core/peer"
	"github.com/libp2p/go-libp2p/core/protocol"
	"github.com/libp2p/go-libp2p/p2p/transport/tcp"
	ma "github.com/multiformats/go-multiaddr"
)

// Part (c) and the end-to-end half of part (a): three real tmlibp2p connections A - B - C on 127.0.0.1.
//
// A and C carry connection gaters that refuse each other's peer id in both directions, A-B and B-C are dialled
// explicitly, so that every message of A that shows up at C went through B's topic validator.
//
// Observation points (none of them is gordian code):
//   - recording ConsensusHandlers installed by the harness (B's verdict for a message = what such a handler returned
//     when it was called with that message; no call = no verdict);
//   - a pubsub.RawTracer on every host: ValidateMessage = "these bytes arrived at this host from that peer",
//     DeliverMessage/RejectMessage = "this host's pubsub finished with the message".
//
// Oracle: bytes published by A arrive at C  ==>  a harness handler on B was called with that message and returned
// FeedbackAccepted. Arrival is a positive observation, so an alarm never depends on timing.
// Non-arrival is concluded when B's pubsub reported that it finished with the message, a quiet period passed, and a
// later barrier message published by A was positively observed at C. Timing can thus only hide a violation.

const topicName = "consensus/v1" // tmlibp2p's topicConsensus (unexported)

func init() {
	registry.Execs["c20line"] = execLine
}

// gater refuses the peers in its deny set.
type gater struct {
	deny    atomic.Pointer[map[peer.ID]bool]
	refused atomic.Int64
}

func (g *gater) denied(p peer.ID) bool {
	if g == nil {
		return false
	}
	m := g.deny.Load()
	if m != nil && (*m)[p] {
		g.refused.Add(1)
		return true
	}
	return false
}

func (g *gater) InterceptPeerDial(p peer.ID) bool               { return !g.denied(p) }
func (g *gater) InterceptAddrDial(p peer.ID, _ ma.Multiaddr) bool { return !g.denied(p) }
func (g *gater) InterceptAccept(network.ConnMultiaddrs) bool    { return true }
func (g *gater) InterceptSecured(_ network.Direction, p peer.ID, _ network.ConnMultiaddrs) bool {
	return !g.denied(p)
}
func (g *gater) InterceptUpgraded(c network.Conn) (bool, control.DisconnectReason) {
	return !g.denied(c.RemotePeer()), 0
}

var _ connmgr.ConnectionGater = (*gater)(nil)

// tracer records what a host's pubsub saw.
type tracer struct {
	mu        sync.Mutex
	arrived   map[string]peer.ID // data -> peer the bytes were first received from (ValidateMessage)
	delivered map[string]bool    // data -> pubsub accepted the message (local delivery + forwarding)
	rejected  map[string]string  // data -> reason pubsub dropped the message
	grafted   map[peer.ID]bool
	dropped   atomic.Int64
	sentTo    map[string][]peer.ID // data -> peers this host's pubsub sent the message to (SendRPC)
	ch        chan struct{}
}

func newTracer() *tracer {
	return &tracer{arrived: map[string]peer.ID{}, delivered: map[string]bool{}, rejected: map[string]string{}, grafted: map[peer.ID]bool{}, sentTo: map[string][]peer.ID{}, ch: make(chan struct{}, 1)}
}

func (t *tracer) poke() {
	select {
	case t.ch <- struct{}{}:
	default:
	}
}

func (t *tracer) ValidateMessage(m *pubsub.Message) {
	t.mu.Lock()
	if _, ok := t.arrived[string(m.Data)]; !ok {
		t.arrived[string(m.Data)] = m.ReceivedFrom
	}
	t.mu.Unlock()
	t.poke()
}
func (t *tracer) DeliverMessage(m *pubsub.Message) {
	t.mu.Lock()
	t.delivered[string(m.Data)] = true
	t.mu.Unlock()
	t.poke()
}
func (t *tracer) RejectMessage(m *pubsub.Message, reason string) {
	t.mu.Lock()
	t.rejected[string(m.Data)] = reason
	t.mu.Unlock()
	t.poke()
}
func (t *tracer) Graft(p peer.ID, topic string) {
	if topic != topicName {
		return
	}
	t.mu.Lock()
	t.grafted[p] = true
	t.mu.Unlock()
	t.poke()
}
func (t *tracer) Prune(p peer.ID, topic string) {
	if topic != topicName {
		return
	}
	t.mu.Lock()
	delete(t.grafted, p)
	t.mu.Unlock()
	t.poke()
}
func (t *tracer) AddPeer(peer.ID, protocol.ID)         {}
func (t *tracer) RemovePeer(peer.ID)                   {}
func (t *tracer) Join(string)                          {}
func (t *tracer) Leave(string)                         {}
func (t *tracer) DuplicateMessage(*pubsub.Message)     {}
func (t *tracer) ThrottlePeer(peer.ID)                 {}
func (t *tracer) RecvRPC(*pubsub.RPC)                  {}
func (t *tracer) SendRPC(rpc *pubsub.RPC, p peer.ID) {
	if len(rpc.GetPublish()) == 0 {
		return
	}
	t.mu.Lock()
	for _, m := range rpc.GetPublish() {
		t.sentTo[string(m.GetData())] = append(t.sentTo[string(m.GetData())], p)
	}
	t.mu.Unlock()
	t.poke()
}
func (t *tracer) DropRPC(*pubsub.RPC, peer.ID)         { t.dropped.Add(1) }
func (t *tracer) UndeliverableMessage(*pubsub.Message) {}

var _ pubsub.RawTracer = (*tracer)(nil)

// wait blocks until cond (evaluated under the tracer's lock) holds or d elapsed.
func (t *tracer) wait(d time.Duration, cond func() bool) bool {
	deadline := time.NewTimer(d)
	defer deadline.Stop()
	for {
		t.mu.Lock()
		ok := cond()
		t.mu.Unlock()
		if ok {
			return true
		}
		select {
		case <-t.ch:
		case <-deadline.C:
			t.mu.Lock()
			ok := cond()
			t.mu.Unlock()
			return ok
		case <-time.After(20 * time.Millisecond):
		}
	}
}

func (t *tracer) arrivedFrom(data []byte) (peer.ID, bool) {
	t.mu.Lock()
	defer t.mu.Unlock()
	p, ok := t.arrived[string(data)]
	return p, ok
}

func arrivedAt(t *tracer, data []byte) bool { _, ok := t.arrivedFrom(data); return ok }

// finished: "" while pubsub has not finished with data, else "delivered" or "rejected:<reason>".
func (t *tracer) finished(data []byte) string {
	t.mu.Lock()
	defer t.mu.Unlock()
	return t.finishedLocked(data)
}

func (t *tracer) finishedLocked(data []byte) string {
	if t.delivered[string(data)] {
		return "delivered"
	}
	if r, ok := t.rejected[string(data)]; ok {
		return "rejected:" + r
	}
	return ""
}

// lineHostOptions: TCP on loopback only, no routing option (tmlibp2p.NewConnection still creates its own DHT).
func lineHostOptions(g *gater, tr *tracer) tmlibp2p.HostOptions {
	p := pubsub.DefaultGossipSubParams()
	// Same fast heartbeat as gordian's own tmlibp2ptest network, so that the mesh forms quickly.
	p.HeartbeatInitialDelay = 8 * time.Millisecond
	p.HeartbeatInterval = 45 * time.Millisecond
	p.DirectConnectInitialDelay = 11 * time.Millisecond
	o := tmlibp2p.HostOptions{
		Options: []libp2p.Option{
			libp2p.ListenAddrStrings("/ip4/127.0.0.1/tcp/0"),
			libp2p.Transport(tcp.NewTCPTransport),
			libp2p.ForceReachabilityPublic(),
		},
		PubSubOptions: []pubsub.Option{pubsub.WithGossipSubParams(p)},
	}
	if g != nil {
		o.Options = append(o.Options, libp2p.ConnectionGater(g))
	}
	if tr != nil {
		o.PubSubOptions = append(o.PubSubOptions, pubsub.WithRawTracer(tr))
	}
	return o
}

// warnLog keeps warnings of the system under test for diagnosis.
type warnLog struct {
	mu    sync.Mutex
	lines []string
}

func (w *warnLog) Enabled(_ context.Context, l slog.Level) bool { return l >= slog.LevelWarn }
func (w *warnLog) Handle(_ context.Context, r slog.Record) error {
	var sb strings.Builder
	sb.WriteString(r.Message)
	r.Attrs(func(a slog.Attr) bool {
		fmt.Fprintf(&sb, " %s=%v", a.Key, a.Value)
		return true
	})
	w.mu.Lock()
	if len(w.lines) < 50 {
		w.lines = append(w.lines, sb.String())
	}
	w.mu.Unlock()
	return nil
}
func (w *warnLog) WithAttrs([]slog.Attr) slog.Handler { return w }
func (w *warnLog) WithGroup(string) slog.Handler      { return w }
func (w *warnLog) String() string {
	w.mu.Lock()
	defer w.mu.Unlock()
	return strings.Join(w.lines, "; ")
}

type node struct {
	name string
	host *tmlibp2p.Host
	conn *tmlibp2p.Connection
	id   peer.ID
	rec  *recorder
	tr   *tracer
	g    *gater
}

// swapHook holds B's background goroutine at gchan.VerifPoint(ctx, "tmlibp2p.swap") when armed.
type swapHook struct {
	armed   atomic.Bool
	at      chan struct{}
	release chan struct{}
	done    <-chan struct{}
	seen    atomic.Int64
}

func (s *swapHook) fn(op, label string) {
	if op != "Point" || label != "tmlibp2p.swap" {
		return
	}
	s.seen.Add(1)
	if !s.armed.CompareAndSwap(true, false) {
		return
	}
	select {
	case s.at <- struct{}{}:
	case <-s.done:
		return
	}
	select {
	case <-s.release:
	case <-s.done:
	}
}

type line struct {
	ctx     context.Context
	cancel  context.CancelFunc
	m       *msgs
	A, B, C *node
	hook    *swapHook
	warn    *warnLog
	nextID  uint64
	// sent: everything A published, in order.
	sent []*sentMsg
}

type sentMsg struct {
	Key    string // kind/id or raw:<n>
	Phase  string
	BState string // harness's description of what is installed on B when the message is published
	Data   []byte
	Raw    bool
	// filled by observe
	BArrived  bool
	BFinished string
	CArrived  bool
}

func newLine() (*line, error) {
	ctx, cancel := context.WithTimeout(context.Background(), 110*time.Second)
	l := &line{ctx: ctx, cancel: cancel, m: newMsgs(), warn: &warnLog{}, nextID: 1000}
	l.hook = &swapHook{at: make(chan struct{}), release: make(chan struct{}), done: ctx.Done()}
	log := slog.New(l.warn)
	mk := func(name string, gated bool) (*node, error) {
		n := &node{name: name, rec: newRecorder(), tr: newTracer()}
		if gated {
			n.g = &gater{}
		}
		h, err := tmlibp2p.NewHost(ctx, lineHostOptions(n.g, n.tr))
		if err != nil {
			return nil, fmt.Errorf("NewHost %s: %w", name, err)
		}
		n.host = h
		n.id = h.Libp2pHost().ID()
		return n, nil
	}
	var err error
	if l.A, err = mk("A", true); err != nil {
		cancel()
		return nil, err
	}
	if l.B, err = mk("B", false); err != nil {
		cancel()
		return nil, err
	}
	if l.C, err = mk("C", true); err != nil {
		cancel()
		return nil, err
	}
	// Gate before anything can dial.
	da := map[peer.ID]bool{l.C.id: true}
	dc := map[peer.ID]bool{l.A.id: true}
	l.A.g.deny.Store(&da)
	l.C.g.deny.Store(&dc)

	for _, n := range []*node{l.A, l.B, l.C} {
		cctx := ctx
		if n == l.B {
			// B's background goroutine runs with the ctx given to the constructor: that is where the hook goes.
			cctx = gchan.WithVerifHook(ctx, l.hook.fn)
		}
		c, err := tmlibp2p.NewConnection(cctx, log.With("node", n.name), n.host, l.m.codec)
		if err != nil {
			l.close()
			return nil, fmt.Errorf("NewConnection %s: %w", n.name, err)
		}
		n.conn = c
	}
	// A and C always accept and record. A needs a handler at all, or its own validator refuses what it publishes.
	l.A.conn.SetConsensusHandler(ctx, constHandler("A.accept", l.A.rec, gexchange.FeedbackAccepted))
	l.C.conn.SetConsensusHandler(ctx, constHandler("C.accept", l.C.rec, gexchange.FeedbackAccepted))

	if err := l.A.host.Libp2pHost().Connect(ctx, peer.AddrInfo{ID: l.B.id, Addrs: l.B.host.Libp2pHost().Addrs()}); err != nil {
		l.close()
		return nil, fmt.Errorf("connect A-B: %w", err)
	}
	if err := l.B.host.Libp2pHost().Connect(ctx, peer.AddrInfo{ID: l.C.id, Addrs: l.C.host.Libp2pHost().Addrs()}); err != nil {
		l.close()
		return nil, fmt.Errorf("connect B-C: %w", err)
	}
	// Positive readiness: A knows B subscribes (A flood-publishes to B) and B has C in its mesh (B forwards to C).
	deadline := time.Now().Add(15 * time.Second)
	for {
		aKnowsB := false
		for _, p := range l.A.host.PubSub().ListPeers(topicName) {
			if p == l.B.id {
				aKnowsB = true
			}
		}
		l.B.tr.mu.Lock()
		bHasC := l.B.tr.grafted[l.C.id]
		l.B.tr.mu.Unlock()
		if aKnowsB && bHasC {
			break
		}
		if time.Now().After(deadline) {
			l.close()
			return nil, fmt.Errorf("line did not form: A knows B=%v, C in B's mesh=%v", aKnowsB, bHasC)
		}
		time.Sleep(5 * time.Millisecond)
	}
	return l, nil
}

func (l *line) close() {
	for _, n := range []*node{l.A, l.B, l.C} {
		if n == nil {
			continue
		}
		if n.conn != nil {
			n.conn.Disconnect()
		} else if n.host != nil {
			_ = n.host.Close()
		}
	}
	l.cancel()
}

// acConnected reports whether A and C have a direct connection (must never happen).
func (l *line) acConnected() bool {
	return len(l.A.host.Libp2pHost().Network().ConnsToPeer(l.C.id)) > 0 ||
		len(l.C.host.Libp2pHost().Network().ConnsToPeer(l.A.id)) > 0
}

// publish sends message (kind, fresh id) through A's real broadcaster channels and waits until A's pubsub took it.
func (l *line) publish(kind, phase, bstate string, id uint64) (*sentMsg, error) {
	s := &sentMsg{Key: mkey(kind, id), Phase: phase, BState: bstate, Data: l.m.encode(kind, id)}
	cb := l.A.conn.ConsensusBroadcaster()
	var ok bool
	switch kind {
	case kPH:
		ok = trySend(l.ctx, cb.OutgoingProposedHeaders(), l.m.ph(id))
	case kPV:
		ok = trySend(l.ctx, cb.OutgoingPrevoteProofs(), l.m.pv(id))
	case kPC:
		ok = trySend(l.ctx, cb.OutgoingPrecommitProofs(), l.m.pc(id))
	}
	if !ok {
		return nil, fmt.Errorf("could not hand %s to A's broadcaster", s.Key)
	}
	l.sent = append(l.sent, s)
	if !l.A.tr.wait(10*time.Second, func() bool { return len(l.A.tr.sentTo[string(s.Data)]) > 0 }) {
		return nil, fmt.Errorf("A's pubsub never sent %s to a peer; %s; warnings: %s", s.Key, l.diag(), l.warn)
	}
	return s, nil
}

// publishRaw publishes arbitrary bytes on the consensus topic from A.
func (l *line) publishRaw(n int, phase, bstate string, data []byte) (*sentMsg, error) {
	s := &sentMsg{Key: fmt.Sprintf("raw:%d", n), Phase: phase, BState: bstate, Data: data, Raw: true}
	if err := l.A.host.PubSub().Publish(topicName, data); err != nil {
		return nil, fmt.Errorf("raw publish %d: %w", n, err)
	}
	l.sent = append(l.sent, s)
	return s, nil
}

func trySend[T any](ctx context.Context, ch chan<- T, v T) bool {
	select {
	case ch <- v:
		return true
	case <-ctx.Done():
		return false
	case <-time.After(10 * time.Second):
		return false
	}
}

func (l *line) diag() string {
	l.A.tr.mu.Lock()
	nsent := len(l.A.tr.sentTo)
	l.A.tr.mu.Unlock()
	return fmt.Sprintf("A topic peers=%v (B=%s), A conns to B=%d, B conns to C=%d, distinct payloads A sent=%d, dropped RPCs at A=%d",
		l.A.host.PubSub().ListPeers(topicName), l.B.id, len(l.A.host.Libp2pHost().Network().ConnsToPeer(l.B.id)),
		len(l.B.host.Libp2pHost().Network().ConnsToPeer(l.C.id)), nsent, l.A.tr.dropped.Load())
}

func (l *line) fresh() uint64 { l.nextID++; return l.nextID }

// settle waits until B's pubsub has finished with s (positive), then until s shows up at C or,
// when B did not deliver it, for the quiet period.
func (l *line) settle(s *sentMsg, quiet time.Duration) error {
	if !l.B.tr.wait(10*time.Second, func() bool { _, ok := l.B.tr.arrived[string(s.Data)]; return ok }) {
		return fmt.Errorf("%s never arrived at B; warnings: %s", s.Key, l.warn)
	}
	s.BArrived = true
	if !l.B.tr.wait(10*time.Second, func() bool { return l.B.tr.finishedLocked(s.Data) != "" }) {
		return fmt.Errorf("B's pubsub never finished validating %s", s.Key)
	}
	s.BFinished = l.B.tr.finished(s.Data)
	d := quiet
	if s.BFinished == "delivered" {
		d = 10 * time.Second // expected to arrive; waiting longer costs nothing when it does
	}
	l.C.tr.wait(d, func() bool { _, ok := l.C.tr.arrived[string(s.Data)]; return ok })
	return nil
}

// barrier installs an accepting handler on B and pushes one more message from A to C.
func (l *line) barrier() error {
	l.B.conn.SetConsensusHandler(l.ctx, constHandler("B.barrier-accept", l.B.rec, gexchange.FeedbackAccepted))
	s, err := l.publish(kPV, "barrier", "fb:accepted", l.fresh())
	if err != nil {
		return err
	}
	if !l.C.tr.wait(15*time.Second, func() bool { _, ok := l.C.tr.arrived[string(s.Data)]; return ok }) {
		return fmt.Errorf("barrier message %s was not observed at C (B: arrived=%v finished=%q); warnings: %s",
			s.Key, arrivedAt(l.B.tr, s.Data), l.B.tr.finished(s.Data), l.warn)
	}
	return nil
}

// judge applies the oracle to every message published so far.
func (l *line) judge(res *vx.Result, sigPrefix string) {
	for _, s := range l.sent {
		from, arrived := l.C.tr.arrivedFrom(s.Data)
		s.CArrived = arrived
		if s.Phase == "barrier" {
			continue
		}
		res.Count("line_messages", 1)
		if !arrived {
			res.Count("line_not_relayed", 1)
			continue
		}
		if from != l.B.id {
			res.HarnessErr = fmt.Sprintf("%s reached C from %s, not from B (%s): the line is not a line", s.Key, from, l.B.id)
			return
		}
		acc := !s.Raw && l.B.rec.accepted(s.Key)
		if acc && s.Phase == "after" {
			// Published after SetConsensusHandler had returned: "the local handler" is the one installed then. An accept
			// by the handler that was replaced or removed does not count (and it must not have been consulted at all).
			acc = false
			for _, c := range l.B.rec.callsFor(s.Key) {
				if c.Fb == gexchange.FeedbackAccepted && strings.HasPrefix(c.Handler, "new.") {
					acc = true
				}
			}
			if !acc {
				res.Count("line_relayed_on_a_replaced_handlers_accept", 1)
			}
		}
		if acc {
			res.Count("line_relayed_after_accept", 1)
			continue
		}
		calls := l.B.rec.callsFor(s.Key)
		res.Count("line_relayed_without_accept", 1)
		res.Violate(prop, fmt.Sprintf("%s:relay-without-accept:phase=%s:B=%s", sigPrefix, s.Phase, s.BState),
			fmt.Sprintf("message %s published by A in phase %q arrived at C through B although no handler on B accepted it.\n"+
				"B at that time: %s; calls of harness handlers on B for this message: %v; B's pubsub: %s",
				s.Key, s.Phase, s.BState, calls, s.BFinished), len(l.sent))
	}
}

func validatorPanics(l *line, data []byte) (panicked bool) {
	defer func() {
		if recover() != nil {
			panicked = true
		}
	}()
	v := connValidator(l.B.conn, constHandler("prescreen", newRecorder(), gexchange.FeedbackIgnored))
	topic := topicName
	v(l.ctx, peer.ID("c20-some-other-peer"), &pubsub.Message{Message: &pubsubpb.Message{Data: data, Topic: &topic}})
	return false
}

// handlerSpec: "none" (never touched), "nil" (SetConsensusHandler(nil)), "fbN" (handler returning feedback N for everything).
func (l *line) install(spec, name string) {
	switch {
	case spec == "none":
	case spec == "nil":
		l.B.conn.SetConsensusHandler(l.ctx, nil)
	default:
		l.B.conn.SetConsensusHandler(l.ctx, l.specHandler(spec, name))
	}
}

func (l *line) specHandler(spec, name string) tmconsensus.ConsensusHandler {
	n, err := strconv.Atoi(strings.TrimPrefix(spec, "fb"))
	if err != nil || n < 0 || n > 255 {
		panic("bad handler spec " + spec)
	}
	return constHandler(name+"."+spec, l.B.rec, gexchange.Feedback(n))
}

func specState(spec string) string {
	switch spec {
	case "none":
		return "no-handler-ever"
	case "nil":
		return "handler-set-to-nil"
	}
	n, _ := strconv.Atoi(strings.TrimPrefix(spec, "fb"))
	return "fb:" + fbClass(gexchange.Feedback(n))
}

// execLine runs one scenario on a fresh line.
//
//	mode=swap  old=<spec> new=<spec> kind=<kind> phases=<before,window,after subset, comma separated> quiet=<ms>
//	mode=table lo=<fb> hi=<fb> quiet=<ms> raw=<0|1>
func execLine(t *testing.T, job vx.Job) (res vx.Result) {
	// A harness error (line did not form, a positive observation did not come) is not a verdict: the scenario is
	// run again from scratch on a fresh line, at most three times. Violations are never retried.
	var errs []string
	for attempt := 1; attempt <= 3; attempt++ {
		res = execLineOnce(t, job)
		if res.HarnessErr == "" {
			res.Count("line_attempts", int64(attempt))
			return res
		}
		errs = append(errs, res.HarnessErr)
	}
	res.HarnessErr = strings.Join(errs, " || ")
	return res
}

func execLineOnce(t *testing.T, job vx.Job) (res vx.Result) {
	quietMs, _ := strconv.Atoi(job.Args["quiet"])
	if quietMs <= 0 {
		quietMs = 1000
	}
	quiet := time.Duration(quietMs) * time.Millisecond
	t0 := time.Now()
	l, err := newLine()
	if err != nil {
		res.HarnessErr = err.Error()
		return res
	}
	defer l.close()
	res.Count("line_setup_ms", time.Since(t0).Milliseconds())
	res.Count("lines_built", 1)

	fail := func(err error) vx.Result {
		res.HarnessErr = err.Error()
		return res
	}

	switch job.Args["mode"] {
	case "swap":
		oldS, newS, kind := job.Args["old"], job.Args["new"], job.Args["kind"]
		phases := map[string]bool{}
		for _, p := range strings.Split(job.Args["phases"], ",") {
			phases[p] = true
		}
		l.install(oldS, "old")
		if phases["before"] {
			s, err := l.publish(kind, "before", specState(oldS), l.fresh())
			if err != nil {
				return fail(err)
			}
			if err := l.settle(s, quiet); err != nil {
				return fail(err)
			}
		}
		// Start the replacement and hold B's background goroutine between unregister and register.
		l.hook.armed.Store(true)
		swapDone := make(chan struct{})
		go func() {
			defer close(swapDone)
			if newS == "nil" {
				l.B.conn.SetConsensusHandler(l.ctx, nil)
			} else {
				l.B.conn.SetConsensusHandler(l.ctx, l.specHandler(newS, "new"))
			}
		}()
		select {
		case <-l.hook.at:
		case <-swapDone:
			return fail(fmt.Errorf("SetConsensusHandler returned without passing the tmlibp2p.swap point (hook seen %d times)", l.hook.seen.Load()))
		case <-time.After(20 * time.Second):
			return fail(fmt.Errorf("B's background goroutine did not reach tmlibp2p.swap"))
		}
		res.Count("swap_points_held", 1)
		if phases["window"] {
			s, err := l.publish(kind, "window", "swapping:"+specState(oldS)+"->"+specState(newS), l.fresh())
			if err != nil {
				return fail(err)
			}
			if err := l.settle(s, quiet); err != nil {
				return fail(err)
			}
		}
		select {
		case l.hook.release <- struct{}{}:
		case <-time.After(10 * time.Second):
			return fail(fmt.Errorf("could not release B's background goroutine"))
		}
		select {
		case <-swapDone:
		case <-time.After(20 * time.Second):
			return fail(fmt.Errorf("SetConsensusHandler did not return after release"))
		}
		if phases["after"] {
			s, err := l.publish(kind, "after", specState(newS), l.fresh())
			if err != nil {
				return fail(err)
			}
			if err := l.settle(s, quiet); err != nil {
				return fail(err)
			}
		}

	case "table":
		lo, _ := strconv.Atoi(job.Args["lo"])
		hi, _ := strconv.Atoi(job.Args["hi"])
		// One handler on B whose feedback is the low byte of the message id.
		h := &handler{name: "B.table", rec: l.B.rec, fb: func(_ string, id uint64) gexchange.Feedback { return gexchange.Feedback(id & 0xff) }}
		l.B.conn.SetConsensusHandler(l.ctx, h)
		base := uint64(0x100)
		for f := lo; f <= hi; f++ {
			for ki, kind := range allKinds {
				id := base*uint64(ki+1) + uint64(f)
				s, err := l.publish(kind, "table", "fb:"+fbClass(gexchange.Feedback(f)), id)
				if err != nil {
					return fail(err)
				}
				// Positive pacing: wait until B's pubsub finished with it; only accepted ones are awaited at C.
				q := time.Duration(0)
				if err := l.settle(s, q); err != nil {
					return fail(err)
				}
				if calls := l.B.rec.callsFor(s.Key); len(calls) != 1 || calls[0].Fb != gexchange.Feedback(f) {
					return fail(fmt.Errorf("table: B's handler calls for %s = %v, want one call returning %d", s.Key, calls, f))
				}
			}
		}
		if job.Args["raw"] == "1" {
			for i, in := range tableInputs(l.m, 0) {
				if in.Key != "" {
					continue
				}
				if len(in.Data) == 0 {
					continue // an empty payload; covered by part (a)
				}
				// Payloads on which the real validator panics would kill B (and this worker) on a pubsub goroutine:
				// that is a defect of another property (C14/C09); it is counted in part (a) and not sent here.
				if validatorPanics(l, in.Data) {
					res.Count("raw_payloads_not_sent_because_validator_panics", 1)
					continue
				}
				// Make the payload unique per run position without changing its shape class: raw inputs are distinct already.
				s, err := l.publishRaw(i, "table-raw", in.Class, in.Data)
				if err != nil {
					return fail(err)
				}
				if err := l.settle(s, 0); err != nil {
					return fail(err)
				}
			}
		}
		time.Sleep(quiet)

	default:
		return fail(fmt.Errorf("unknown mode %q", job.Args["mode"]))
	}

	if err := l.barrier(); err != nil {
		return fail(err)
	}
	if l.acConnected() {
		return fail(fmt.Errorf("A and C are directly connected; the gaters failed"))
	}
	sig := "c"
	if job.Args["mode"] == "table" {
		sig = "t"
	}
	l.judge(&res, sig)
	res.Count("gater_refusals", l.A.g.refused.Load()+l.C.g.refused.Load())

	// Evidence: what was seen, compactly.
	type row struct {
		Key, Phase, B string
		BCalls       []string
		BPubsub      string
		AtC          bool
	}
	var rows []row
	keys := map[string]struct{}{}
	for _, s := range l.sent {
		var cs []string
		for _, c := range l.B.rec.callsFor(s.Key) {
			cs = append(cs, fmt.Sprintf("%s->%d", c.Handler, c.Fb))
		}
		if len(rows) < 12 {
			rows = append(rows, row{s.Key, s.Phase, s.BState, cs, s.BFinished, s.CArrived})
		}
		if s.Phase != "barrier" {
			kind := strings.SplitN(s.Key, "/", 2)[0]
			if s.Raw {
				kind = "raw"
			}
			keys[fmt.Sprintf("%s|%s|%s|calls=%d|B:%s|atC=%v", s.Phase, s.BState, kind, len(cs), s.BFinished, s.CArrived)] = struct{}{}
		}
	}
	res.Keys = vx.SortedKeys(keys)
	res.Obs, _ = json.Marshal(rows)
	res.NonTrivial = res.Counters["line_relayed_after_accept"]+res.Counters["line_not_relayed"] > 0
	var oc []string
	for _, s := range l.sent {
		if s.Phase == "barrier" {
			continue
		}
		oc = append(oc, fmt.Sprintf("%s:%v", s.Phase, s.CArrived))
	}
	if job.Args["mode"] == "table" {
		res.Outcome = fmt.Sprintf("table:relayed=%d", res.Counters["line_relayed_after_accept"]+res.Counters["line_relayed_without_accept"])
	} else {
		res.Outcome = "swap:" + strings.Join(oc, ",")
	}
	args := make([]string, 0, len(job.Args))
	for k, v := range job.Args {
		args = append(args, k+"="+v)
	}
	sort.Strings(args)
	res.Key = "line:" + strings.Join(args, ",")
	return res
}
