//go:build verif

package c20

import (
	"context"
	"encoding/json"
	"fmt"
	"io"
	"log/slog"
	"sort"
	"strconv"
	"strings"
	"testing"
	"time"
	_ "unsafe" // go:linkname

	"github.com/gordian-engine/gordian/gexchange"
	"github.com/gordian-engine/gordian/internal/zzverif/vx"
	"github.com/gordian-engine/gordian/tm/tmcodec"
	"github.com/gordian-engine/gordian/tm/tmconsensus"
	"github.com/gordian-engine/gordian/tm/tmp2p/tmlibp2p"
	pubsub "github.com/libp2p/go-libp2p-pubsub"
	pubsubpb "github.com/libp2p/go-libp2p-pubsub/pb"
	"github.com/libp2p/go-libp2p/core/peer"
)

// Part (a): the verdict table of the real validator closure.
//
// The closure is built by the unexported method (*tmlibp2p.Connection).libp2pConsensusMessageValidator, which
// background() hands to pubsub when SetConsensusHandler is called; pubsub offers no way to call a registered
// validator without a connected peer. The method is therefore reached from this package by go:linkname (a "pull"
// reference to the real symbol; nothing is added to package tmlibp2p). The same table is also run end to end through
// SetConsensusHandler + a real peer in partc.go ("table" runs).

//go:linkname connValidator github.com/gordian-engine/gordian/tm/tmp2p/tmlibp2p.(*Connection).libp2pConsensusMessageValidator
func connValidator(c *tmlibp2p.Connection, h tmconsensus.ConsensusHandler) pubsub.ValidatorEx

//go:linkname connIgnoreMessage github.com/gordian-engine/gordian/tm/tmp2p/tmlibp2p.ignoreMessage
func connIgnoreMessage(context.Context, peer.ID, *pubsub.Message) pubsub.ValidationResult

// The topic validator that is actually registered with pubsub (it consults the handler installed last).
//
//go:linkname connTopicValidator github.com/gordian-engine/gordian/tm/tmp2p/tmlibp2p.(*Connection).validateConsensusMessage
func connTopicValidator(c *tmlibp2p.Connection, ctx context.Context, id peer.ID, msg *pubsub.Message) pubsub.ValidationResult

func init() {
	registry.Execs["c20a"] = execA
}

// input is one payload of the table.
type input struct {
	Name  string // unique
	Class string // ph | pv | pc | empty | undecodable | prefix
	Data  []byte
	Key   string // for valid messages: the key the handler must see
}

const tableID = 7

func tableInputs(m *msgs, prefixStride int) []input {
	var in []input
	valid := map[string][]byte{}
	for _, k := range allKinds {
		b := m.encode(k, tableID)
		valid[k] = b
		in = append(in, input{Name: "valid:" + k, Class: k, Data: b, Key: mkey(k, tableID)})
	}
	in = append(in, input{Name: "empty:{}", Class: "empty", Data: []byte(`{}`)})
	in = append(in, input{Name: "empty:null", Class: "empty", Data: []byte(`null`)})
	in = append(in, input{Name: "empty:unknown-field", Class: "empty", Data: []byte(`{"Other":1}`)})
	// Payloads that are not a well-formed consensus message in one way or another.
	// Whether the codec decodes them is the codec's business; the oracle only asks that ValidationAccept
	// is backed by a handler call that returned FeedbackAccepted.
	both := fmt.Sprintf(`{"ProposedHeader":%s,"PrevoteProof":%s}`, innerOf(valid[kPH], "ProposedHeader"), innerOf(valid[kPV], "PrevoteProof"))
	shapes := []string{
		"", " ", "{", "}", "x", "[]", "[{}]", `"str"`, "0", "true",
		"\x00", "\xff\xfe\xfd", "{\x00}", `{"ProposedHeader":`,
		`{"ProposedHeader":null}`, `{"ProposedHeader":{}}`, `{"ProposedHeader":5}`, `{"ProposedHeader":[]}`, `{"ProposedHeader":"x"}`,
		`{"ProposedHeader":{"Header":{}}}`, `{"ProposedHeader":{"Header":{"ValidatorSet":{}}}}`,
		`{"ProposedHeader":{"ProposerPubKey":"AA=="}}`, `{"ProposedHeader":{"ProposerPubKey":"AAAAAAAAAAAAAAAA"}}`,
		`{"PrevoteProof":null}`, `{"PrevoteProof":{}}`, `{"PrevoteProof":5}`, `{"PrevoteProof":"x"}`, `{"PrevoteProof":[]}`,
		`{"PrevoteProof":{"Proofs":[{"BlockHash":"!!"}]}}`, `{"PrevoteProof":{"Height":-1}}`, `{"PrevoteProof":{"Height":18446744073709551616}}`,
		`{"PrecommitProof":null}`, `{"PrecommitProof":{}}`, `{"PrecommitProof":5}`, `{"PrecommitProof":[]}`,
		`{"PrecommitProof":{"Proofs":{}}}`, `{"PrecommitProof":{"Round":4294967296}}`,
		both,
		string(valid[kPV]) + "x", string(valid[kPV]) + string(valid[kPV]),
	}
	for i, s := range shapes {
		in = append(in, input{Name: fmt.Sprintf("shape%02d:%s", i, clip(s, 40)), Class: "undecodable", Data: []byte(s)})
	}
	if prefixStride > 0 {
		for _, k := range allKinds {
			b := valid[k]
			for n := 1; n < len(b); n += prefixStride {
				in = append(in, input{Name: fmt.Sprintf("prefix:%s:%d", k, n), Class: "prefix", Data: b[:n]})
			}
		}
	}
	return in
}

func innerOf(b []byte, field string) string {
	var m map[string]json.RawMessage
	if err := json.Unmarshal(b, &m); err != nil {
		panic(err)
	}
	return string(m[field])
}

func clip(s string, n int) string {
	s = strconv.QuoteToASCII(s)
	if len(s) > n {
		return s[:n] + "..."
	}
	return s
}

func vrName(r pubsub.ValidationResult) string {
	switch r {
	case pubsub.ValidationAccept:
		return "accept"
	case pubsub.ValidationReject:
		return "reject"
	case pubsub.ValidationIgnore:
		return "ignore"
	}
	return fmt.Sprintf("result(%d)", int(r))
}

// execA evaluates the table for feedback values [lo,hi] on one real, never connected Connection.
// Args: lo, hi (feedback values, inclusive), stride (prefix stride, 0 = no prefixes).
func execA(t *testing.T, job vx.Job) (res vx.Result) {
	lo, _ := strconv.Atoi(job.Args["lo"])
	hi, _ := strconv.Atoi(job.Args["hi"])
	stride, _ := strconv.Atoi(job.Args["stride"])

	ctx, cancel := context.WithTimeout(context.Background(), 100*time.Second)
	defer cancel()
	m := newMsgs()
	log := slog.New(slog.NewTextHandler(io.Discard, nil))
	host, err := tmlibp2p.NewHost(ctx, lineHostOptions(nil, nil))
	if err != nil {
		res.HarnessErr = "NewHost: " + err.Error()
		return res
	}
	conn, err := tmlibp2p.NewConnection(ctx, log, host, m.codec)
	if err != nil {
		res.HarnessErr = "NewConnection: " + err.Error()
		return res
	}
	defer conn.Disconnect()

	self := host.Libp2pHost().ID()
	other := peer.ID("c20-some-other-peer")
	if n := len(host.Libp2pHost().Network().Peers()); n != 0 {
		res.HarnessErr = fmt.Sprintf("host is connected to %d peers", n)
		return res
	}

	inputs := tableInputs(m, stride)
	keys := map[string]struct{}{}
	// table[inputClass|sender] -> fbValue -> result
	summary := map[string]map[string]int{}
	note := func(cls, sender string, r pubsub.ValidationResult, called bool, fb gexchange.Feedback) {
		k := fmt.Sprintf("%s|%s|fb=%s|called=%v|%s", cls, sender, fbClass(fb), called, vrName(r))
		keys[k] = struct{}{}
		sk := cls + "|" + sender
		if summary[sk] == nil {
			summary[sk] = map[string]int{}
		}
		summary[sk][fmt.Sprintf("fb=%s->%s", fbClass(fb), vrName(r))]++
	}

	one := func(v pubsub.ValidatorEx, from peer.ID, data []byte) (r pubsub.ValidationResult, panicked any) {
		defer func() {
			if p := recover(); p != nil {
				panicked = p
			}
		}()
		msg := &pubsub.Message{Message: &pubsubpb.Message{Data: data}, ReceivedFrom: from}
		topic := "consensus/v1"
		msg.Message.Topic = &topic
		return v(ctx, from, msg), nil
	}

	for f := lo; f <= hi; f++ {
		fb := gexchange.Feedback(f)
		for _, in := range inputs {
			for _, sender := range []string{"other", "self"} {
				from := other
				if sender == "self" {
					from = self
				}
				rec := newRecorder()
				h := constHandler("H", rec, fb)
				// A fresh closure per cell, from the real connection.
				v := connValidator(conn, h)
				r, pan := one(v, from, in.Data)
				res.Count("validator_calls", 1)
				if pan != nil {
					// Not a relay; a crash on attacker-controlled bytes is C14's/C09's business.
					res.Count("validator_panics", 1)
					res.Violate("C14", "c20a:validator-panic:"+in.Class, fmt.Sprintf("validator panicked on input %s: %v", in.Name, pan), 0)
					continue
				}
				calls := rec.snapshot()
				note(in.Class, sender, r, len(calls) > 0, fb)
				if sender == "self" {
					// Locally published messages were not received from the network; the statement does not constrain them.
					continue
				}
				acceptedByHandler := false
				for _, c := range calls {
					if c.Fb == gexchange.FeedbackAccepted {
						acceptedByHandler = true
					}
				}
				if r == pubsub.ValidationAccept && !acceptedByHandler {
					what := "handler-not-called"
					if len(calls) > 0 {
						what = "handler-returned-" + fbClass(fb)
					}
					res.Violate(prop, fmt.Sprintf("a:accept-without-handler-accept:input=%s:%s", in.Class, what),
						fmt.Sprintf("validator of a real Connection returned ValidationAccept (=relay) for input %s from another peer; handler feedback configured=%d (%s); handler calls=%v",
							in.Name, f, fbClass(fb), calls), 0)
				}
				if r == pubsub.ValidationAccept {
					// "Accepted by the handler" means the handler accepted THIS message: it must have been shown the
					// content of this very payload (a validator that keeps state between messages could show it another one).
					// What this payload decodes to, by an independent decode with a fresh envelope.
					wantKey := in.Key
					if wantKey == "" {
						var cm tmcodec.ConsensusMessage
						if err := m.codec.UnmarshalConsensusMessage(in.Data, &cm); err == nil {
							switch {
							case cm.ProposedHeader != nil:
								wantKey = mkey(kPH, cm.ProposedHeader.Header.Height)
							case cm.PrevoteProof != nil:
								wantKey = mkey(kPV, cm.PrevoteProof.Height)
							case cm.PrecommitProof != nil:
								wantKey = mkey(kPC, cm.PrecommitProof.Height)
							}
						}
					}
					sawThis := false
					for _, c := range calls {
						if c.Fb == gexchange.FeedbackAccepted && wantKey != "" && c.Key == wantKey {
							sawThis = true
						}
					}
					if !sawThis && acceptedByHandler {
						res.Violate(prop, "a:accept-but-handler-was-shown-other-content:input="+in.Class,
							fmt.Sprintf("validator returned ValidationAccept for input %s, but the handler call it relied on was for different content: calls=%v (this payload decodes to %q)", in.Name, calls, wantKey), 0)
					}
				}
				if r == pubsub.ValidationAccept && !json.Valid(in.Data) {
					res.Violate(prop, "a:accept-of-non-json:input="+in.Class,
						fmt.Sprintf("ValidationAccept for bytes that are not even well-formed JSON: %s (feedback %d)", in.Name, f), 0)
				}
				if len(calls) > 0 && f >= 5 && r != pubsub.ValidationIgnore {
					res.Violate(prop, "a:out-of-range-feedback-not-ignored:"+vrName(r),
						fmt.Sprintf("handler returned out-of-range feedback %d for %s and the validator answered %s, want ignore", f, in.Name, vrName(r)), 0)
				}
				if r != pubsub.ValidationAccept && r != pubsub.ValidationReject && r != pubsub.ValidationIgnore {
					res.Violate(prop, "a:unknown-validation-result",
						fmt.Sprintf("validator returned %d for %s feedback %d", int(r), in.Name, f), 0)
				}
				if in.Key != "" {
					if len(calls) == 1 && calls[0].Key == in.Key {
						res.Count("valid_inputs_reaching_handler", 1)
					} else {
						res.Count("valid_inputs_not_reaching_handler", 1)
					}
				}
			}
		}
	}

	// Repeated payloads through the registered topic validator and the real SetConsensusHandler path: the verdict
	// for a payload is the handler's verdict for THIS delivery - an earlier delivery of the same bytes that was
	// accepted (by this handler, or by a handler installed before) must not carry over.
	if lo == 0 {
		topicV := func(ctx context.Context, id peer.ID, msg *pubsub.Message) pubsub.ValidationResult {
			return connTopicValidator(conn, ctx, id, msg)
		}
		for _, in := range inputs {
			if in.Key == "" {
				continue
			}
			for _, second := range []gexchange.Feedback{gexchange.FeedbackRejected, gexchange.FeedbackIgnored, gexchange.FeedbackUnspecified} {
				for _, swap := range []bool{false, true} {
					rec := newRecorder()
					n := 0
					h := &handler{name: "H1", rec: rec, fb: func(string, uint64) gexchange.Feedback {
						n++
						if n == 1 || swap {
							return gexchange.FeedbackAccepted
						}
						return second // a handler that does not accept a repeated message
					}}
					conn.SetConsensusHandler(ctx, h)
					r1, pan := one(topicV, other, in.Data)
					if pan != nil {
						continue
					}
					if swap {
						conn.SetConsensusHandler(ctx, constHandler("H2", rec, second))
					}
					r2, pan := one(topicV, other, in.Data)
					res.Count("repeat_cells", 1)
					if pan != nil {
						continue
					}
					keys[fmt.Sprintf("repeat|%s|second=%s|swap=%v|%s,%s", in.Class, fbClass(second), swap, vrName(r1), vrName(r2))] = struct{}{}
					if r1 != pubsub.ValidationAccept {
						res.Violate(prop, "a:repeat:first-delivery-not-relayed-although-accepted:"+in.Class, fmt.Sprintf("first delivery of %s: handler accepted, validator answered %s", in.Name, vrName(r1)), 0)
					}
					if r2 == pubsub.ValidationAccept {
						how := "same-handler"
						if swap {
							how = "handler-replaced"
						}
						res.Violate(prop, fmt.Sprintf("a:repeat:second-delivery-relayed-without-accept:%s:%s", in.Class, how),
							fmt.Sprintf("the same payload %s was delivered twice; for the second delivery the handler in force answered %s, yet the topic validator returned ValidationAccept (=relay); handler calls=%v", in.Name, fbClass(second), rec.snapshot()), 0)
					}
				}
			}
		}
		conn.SetConsensusHandler(ctx, nil)
	}

	// Envelopes carrying more than one consensus value (honest senders set exactly one field; an attacker sets what it
	// likes): every combination of two or three fields in both key orders, with a handler whose verdict depends on the
	// kind of value (every triple over accept / reject / ignore). A relayed payload is relayed as a whole: the validator
	// may answer accept only if no value of this payload that it showed the handler was rejected or ignored (and at
	// least one was accepted).
	if lo <= int(gexchange.FeedbackAccepted) && int(gexchange.FeedbackAccepted) <= hi {
		field := map[string]string{kPH: "ProposedHeader", kPV: "PrevoteProof", kPC: "PrecommitProof"}
		valid := map[string][]byte{}
		for _, k := range allKinds {
			valid[k] = m.encode(k, tableID)
		}
		combos := [][]string{{kPH, kPV}, {kPV, kPH}, {kPH, kPC}, {kPC, kPH}, {kPV, kPC}, {kPC, kPV}, {kPH, kPV, kPC}, {kPC, kPV, kPH}}
		verdicts := []gexchange.Feedback{gexchange.FeedbackAccepted, gexchange.FeedbackRejected, gexchange.FeedbackIgnored}
		for _, combo := range combos {
			var parts []string
			for _, k := range combo {
				parts = append(parts, fmt.Sprintf("%q:%s", field[k], innerOf(valid[k], field[k])))
			}
			data := []byte("{" + strings.Join(parts, ",") + "}")
			for _, fPH := range verdicts {
				for _, fPV := range verdicts {
					for _, fPC := range verdicts {
						per := map[string]gexchange.Feedback{kPH: fPH, kPV: fPV, kPC: fPC}
						rec := newRecorder()
						h := &handler{name: "H", rec: rec, fb: func(kind string, _ uint64) gexchange.Feedback { return per[kind] }}
						r, pan := one(connValidator(conn, h), other, data)
						res.Count("multi_value_envelope_cells", 1)
						if pan != nil {
							res.Violate("C14", "c20a:validator-panic:multi-value-envelope", fmt.Sprintf("validator panicked on an envelope with fields %v: %v", combo, pan), 0)
							continue
						}
						calls := rec.snapshot()
						keys[fmt.Sprintf("multi|%s|calls=%d|%s", strings.Join(combo, "+"), len(calls), vrName(r))] = struct{}{}
						if r != pubsub.ValidationAccept {
							continue
						}
						accepted, refused := 0, ""
						for _, c := range calls {
							if c.Fb == gexchange.FeedbackAccepted {
								accepted++
							} else if refused == "" {
								refused = c.Key + "=" + fbClass(c.Fb)
							}
						}
						if accepted == 0 || refused != "" {
							res.Violate(prop, "a:multi-value-envelope-relayed-although-a-value-was-not-accepted",
								fmt.Sprintf("an envelope with fields %v was answered with ValidationAccept (=relay) although the handler did not accept every value it was shown (%s); handler calls=%v", combo, refused, calls), 0)
						}
					}
				}
			}
		}
	}

	// The validator in force while no handler is installed.
	for _, in := range inputs {
		for _, sender := range []string{"other", "self"} {
			from := other
			if sender == "self" {
				from = self
			}
			r, pan := one(connIgnoreMessage, from, in.Data)
			res.Count("validator_calls", 1)
			if pan != nil {
				res.Violate("C14", "c20a:ignoreMessage-panic", fmt.Sprint(pan), 0)
				continue
			}
			keys[fmt.Sprintf("nohandler|%s|%s|%s", in.Class, sender, vrName(r))] = struct{}{}
			if sender == "other" && r == pubsub.ValidationAccept {
				res.Violate(prop, "a:accept-without-handler-accept:no-handler-validator",
					"the validator registered while no handler is installed returned ValidationAccept for "+in.Name, 0)
			}
		}
	}

	res.Keys = vx.SortedKeys(keys)
	res.Key = fmt.Sprintf("a:%d-%d", lo, hi)
	res.NonTrivial = res.Counters["valid_inputs_reaching_handler"] > 0
	res.Count("table_inputs", int64(len(inputs)))
	var sk []string
	for k, v := range summary {
		var parts []string
		for kk, n := range v {
			parts = append(parts, fmt.Sprintf("%s x%d", kk, n))
		}
		sort.Strings(parts)
		sk = append(sk, k+": "+strings.Join(parts, ", "))
	}
	sort.Strings(sk)
	res.Obs, _ = json.Marshal(sk)
	res.Outcome = "table"
	return res
}
