//go:build verif

// Package c20 is the harness for property C20:
// "a consensus message received from the p2p network is forwarded to further peers only if the
// local consensus handler accepted it".
//
// Three parts (DESIGN.md C20):
//
//	(a) parta.go  verdict table of the real pubsub validator closure of a real tmlibp2p.Connection
//	              (never connected), plus the same table end to end on a real A-B-C line (partc.go, "table" runs);
//	(b) partb.go  every operation sequence up to a length bound on the real in-memory DaisyChainNetwork line
//	              A-B-C inside a synctest bubble;
//	(c) partc.go  the handler replacement window of tmlibp2p.Connection on three real libp2p hosts.
//
// The oracle is the same everywhere and uses only the harness's own bookkeeping:
// a message published at one end may be observed at the other end only if a handler instance
// that the harness installed on B was called with that very message and returned FeedbackAccepted.
package c20

import (
	"context"
	"fmt"
	"sync"

	"github.com/gordian-engine/gordian/gcrypto"
	"github.com/gordian-engine/gordian/gexchange"
	"github.com/gordian-engine/gordian/tm/tmcodec"
	"github.com/gordian-engine/gordian/tm/tmcodec/tmjson"
	"github.com/gordian-engine/gordian/tm/tmconsensus"
	"github.com/gordian-engine/gordian/tm/tmconsensus/tmconsensustest"
)

const prop = "C20"

// Message kinds.
const (
	kPH = "ph" // proposed header
	kPV = "pv" // prevote sparse proof
	kPC = "pc" // precommit sparse proof
)

var allKinds = []string{kPH, kPV, kPC}

// msgs builds consensus messages whose identity is (kind, id); the id is carried in the Height field.
type msgs struct {
	fx    *tmconsensustest.Fixture
	base  tmconsensus.ProposedHeader
	codec tmjson.MarshalCodec
}

func newMsgs() *msgs {
	fx := tmconsensustest.NewEd25519Fixture(2)
	reg := new(gcrypto.Registry)
	gcrypto.RegisterEd25519(reg)
	m := &msgs{fx: fx, codec: tmjson.MarshalCodec{CryptoRegistry: reg}}
	m.base = fx.NextProposedHeader([]byte("c20"), 0)
	return m
}

func (m *msgs) ph(id uint64) tmconsensus.ProposedHeader {
	ph := m.base
	ph.Header.Height = id
	ph.Signature = []byte("sig")
	return ph
}

func (m *msgs) pv(id uint64) tmconsensus.PrevoteSparseProof {
	return tmconsensus.PrevoteSparseProof{
		Height: id, PubKeyHash: "pkh",
		Proofs: map[string][]gcrypto.SparseSignature{"": {{KeyID: []byte{1}, Sig: []byte("s")}}},
	}
}

func (m *msgs) pc(id uint64) tmconsensus.PrecommitSparseProof {
	return tmconsensus.PrecommitSparseProof{
		Height: id, PubKeyHash: "pkh",
		Proofs: map[string][]gcrypto.SparseSignature{"": {{KeyID: []byte{1}, Sig: []byte("s")}}},
	}
}

// encode returns the wire bytes of message (kind,id) as the real codec produces them.
func (m *msgs) encode(kind string, id uint64) []byte {
	var cm tmcodec.ConsensusMessage
	switch kind {
	case kPH:
		v := m.ph(id)
		cm.ProposedHeader = &v
	case kPV:
		v := m.pv(id)
		cm.PrevoteProof = &v
	case kPC:
		v := m.pc(id)
		cm.PrecommitProof = &v
	default:
		panic("bad kind " + kind)
	}
	b, err := m.codec.MarshalConsensusMessage(cm)
	if err != nil {
		panic(fmt.Errorf("c20: cannot marshal %s/%d: %w", kind, id, err))
	}
	return b
}

func mkey(kind string, id uint64) string { return fmt.Sprintf("%s/%d", kind, id) }

// call is one invocation of a recording handler.
type call struct {
	Handler string // name of the handler instance
	Key     string // kind/id
	Fb      gexchange.Feedback
}

// recorder collects handler calls of one node. Safe for concurrent use (libp2p validates on many goroutines).
type recorder struct {
	mu    sync.Mutex
	calls []call
	ch    chan struct{} // poked (non-blocking) on every call
}

func newRecorder() *recorder { return &recorder{ch: make(chan struct{}, 1)} }

func (r *recorder) add(c call) {
	r.mu.Lock()
	r.calls = append(r.calls, c)
	r.mu.Unlock()
	select {
	case r.ch <- struct{}{}:
	default:
	}
}

func (r *recorder) snapshot() []call {
	r.mu.Lock()
	defer r.mu.Unlock()
	return append([]call(nil), r.calls...)
}

func (r *recorder) count() int {
	r.mu.Lock()
	defer r.mu.Unlock()
	return len(r.calls)
}

// callsFor returns the calls that carried message key.
func (r *recorder) callsFor(key string) []call {
	r.mu.Lock()
	defer r.mu.Unlock()
	var out []call
	for _, c := range r.calls {
		if c.Key == key {
			out = append(out, c)
		}
	}
	return out
}

// accepted reports whether some handler call for key returned FeedbackAccepted.
func (r *recorder) accepted(key string) bool {
	for _, c := range r.callsFor(key) {
		if c.Fb == gexchange.FeedbackAccepted {
			return true
		}
	}
	return false
}

// handler is a tmconsensus.ConsensusHandler installed by the harness.
// Its feedback is a pure function of (kind,id), fixed at construction.
type handler struct {
	name string
	rec  *recorder
	fb   func(kind string, id uint64) gexchange.Feedback
}

func constHandler(name string, rec *recorder, fb gexchange.Feedback) *handler {
	return &handler{name: name, rec: rec, fb: func(string, uint64) gexchange.Feedback { return fb }}
}

func (h *handler) handle(kind string, id uint64) gexchange.Feedback {
	f := h.fb(kind, id)
	h.rec.add(call{Handler: h.name, Key: mkey(kind, id), Fb: f})
	return f
}

func (h *handler) HandleProposedHeader(_ context.Context, ph tmconsensus.ProposedHeader) gexchange.Feedback {
	return h.handle(kPH, ph.Header.Height)
}

func (h *handler) HandlePrevoteProofs(_ context.Context, p tmconsensus.PrevoteSparseProof) gexchange.Feedback {
	return h.handle(kPV, p.Height)
}

func (h *handler) HandlePrecommitProofs(_ context.Context, p tmconsensus.PrecommitSparseProof) gexchange.Feedback {
	return h.handle(kPC, p.Height)
}

// fbClass names a feedback value for signatures: the five declared constants by name, everything else "out-of-range".
func fbClass(f gexchange.Feedback) string {
	switch f {
	case gexchange.FeedbackUnspecified:
		return "unspecified"
	case gexchange.FeedbackAccepted:
		return "accepted"
	case gexchange.FeedbackRejected:
		return "rejected"
	case gexchange.FeedbackIgnored:
		return "ignored"
	case gexchange.FeedbackRejectAndDisconnect:
		return "reject-and-disconnect"
	}
	return "out-of-range"
}
