#!/bin/bash
# usage: seedtest.sh <patch.diff> <CHECK>...   applies a seeded change to /repo, runs the quick checks, reverts.
set -u
patch=$1; shift
cd /verif
if [ -n "$(git -C /repo status --porcelain)" ]; then echo "repo not clean"; exit 2; fi
git -C /repo apply "$patch" || exit 2
for c in "$@"; do
  mkdir -p /tmp/seedtest_out
  out=$(VERIF_OUT_DIR=/tmp/seedtest_out ./vcheck $c quick 2>&1)
  rc=$?
  nv=$(echo "$out" | grep -c "^VIOLATION property=$c")
  echo "$c rc=$rc violations=$nv $(echo "$out" | grep "^check " | sed 's/.*wall=/wall=/')"
  echo "$out" | grep "violation sig=" | head -5
done
git -C /repo checkout -- .
git -C /repo status --porcelain
