#!/bin/bash
# usage: seedverify.sh <ID>  — independently confirms a delivered seeded change in a fresh scratch worktree:
# compiles, affected packages' existing tests pass, demo fails with the change and passes without it.
set -u
id=$1
out=${MUTDIR:-/tmp/mut}/$id${MUTSUFFIX-.out}
wt=/tmp/ver_$id
export GOFLAGS=-mod=mod GOPROXY=off GORDIAN_TEST_TIME_FACTOR=10
git -C /repo worktree add -q --detach $wt HEAD || exit 2
cd $wt
res="{}"
git apply $out/patch.diff || { echo "PATCH DOES NOT APPLY"; git -C /repo worktree remove --force $wt; exit 2; }
files=$(git diff --name-only)
pkgs=$(for f in $files; do echo ./$(dirname $f)/...; done | sort -u | tr '\n' ' ')
echo "files: $files"
go build ./... && echo "BUILD ok" || echo "BUILD FAIL"
go vet $(for f in $files; do echo ./$(dirname $f); done | sort -u) >/dev/null 2>&1 && echo "VET ok" || echo "VET FAIL"
echo "existing tests of: $pkgs ./tm/tmengine/..."
go test -count=1 $pkgs 2>&1 | grep -E "^(FAIL|---|\s+---)" | head -10
go test -count=1 ./tm/tmengine/... 2>&1 | grep -E "^(FAIL|---|\s+---)" | head -10
# demo
demopath=$(python3 -c "import json;d=json.load(open('$out/meta.json'));print(d['demo'].get('path_in_repo') or '')")
demorun=$(python3 -c "import json;d=json.load(open('$out/meta.json'));print(d['demo'].get('run') or '')")
src=$out/demo_test.go
[ -n "$demopath" ] && mkdir -p $(dirname $demopath) && cp $src $demopath
echo "demo: $demopath :: $demorun"
( eval "$demorun" ) > /tmp/ver_$id.with.log 2>&1; echo "DEMO with change: rc=$?"
git apply -R $out/patch.diff
( eval "$demorun" ) > /tmp/ver_$id.without.log 2>&1; echo "DEMO without change: rc=$?"
cd /; git -C /repo worktree remove --force $wt
